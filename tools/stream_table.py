#!/usr/bin/env python3
# tools/stream_table.py : prints the DESIGN.md section 5.0 table (streams and floors per worker) from the worker sources.
import re, glob, os
print("| worker | streams | floors (inconclusive below) |")
print("|--------|---------|-----------------------------|")
for d in sorted(glob.glob('/verif/harness/cmd/c[0-9][0-9]')):
    src = open(os.path.join(d, 'main.go')).read()
    streams, floors = [], []
    for m in re.finditer(r'c\.Stream(?:Seedless)?\(\s*(?:fmt\.Sprintf\()?"([^"]+)"', src):
        if m.group(1) not in streams: streams.append(m.group(1))
    for m in re.finditer(r'c\.Stream(?:Seedless)?\(\s*"([^"]*)"\s*\+', src):
        pass
    for m in re.finditer(r'c\.Floor\(\s*"([^"]+)"', src):
        if m.group(1) not in floors: floors.append(m.group(1))
    f = ', '.join('`%s`' % x for x in floors) or '—'
    print("| %s | %s | %s |" % (os.path.basename(d).upper(), ', '.join('`%s`' % x for x in streams), f))
