#!/bin/bash
# tools/revert_trials.sh [commit ...]
# For every "fix:" commit of /repo (or the ones named): revert it in a scratch worktree of HEAD, and run
# the quick check of the property it is recorded under in known_findings.json. A fix whose revert is not
# reported would mean the check lost its sensitivity to that defect.
set -u
. /verif/env.sh
cd /verif
commits="$@"
[ -n "$commits" ] || commits=$(git -C /repo log --reverse --format=%h --grep='^fix:')
for c in $commits; do
  props=$(python3 - "$c" <<'PY'
import json,sys
c=sys.argv[1]
d=json.load(open('/verif/known_findings.json'))
print(' '.join(sorted({f['property'] for f in d['findings'] if f.get('commit','')==c})))
PY
)
  [ -n "$props" ] || props="C05"
  wt=/tmp/revert-wt-$$
  git -C /repo worktree add -q --detach $wt HEAD || exit 2
  if (cd $wt && git revert --no-commit $c >/dev/null 2>&1); then
    (cd $wt && git diff HEAD > /tmp/revert-$$.diff)
    git -C /repo worktree remove --force $wt >/dev/null 2>&1
    res=$(tools/trial.sh /tmp/revert-$$.diff $props 2>&1 | grep -E "CAUGHT|MISSED|INCONCLUSIVE|suite: FAILS" | tr '\n' ' ' | cut -c1-260)
    echo "$c $(git -C /repo log --format=%s -1 $c | cut -c1-70) => $res"
  else
    (cd $wt && git revert --abort >/dev/null 2>&1)
    git -C /repo worktree remove --force $wt >/dev/null 2>&1
    echo "$c $(git -C /repo log --format=%s -1 $c | cut -c1-70) => revert conflicts with later commits (skipped)"
  fi
  rm -f /tmp/revert-$$.diff
done
