#!/bin/bash
# tools/benign_eval.sh <Cxx> <i> [extra props...]
# Over-strictness control: a sub-agent's property-PRESERVING change /tmp/wt-<Cxx>/<SEED_OUT>/change<i>.diff
# (behaviour differs only where the statement leaves it open). Confirms in a fresh scratch worktree that it
# compiles and keeps the pinned suite green, runs our quick check(s) against it — they must stay SILENT —
# and files it under /verif/seeded/<Cxx>-<tag>b<i>/ with the verdict. An alarm here is analysed by hand:
# either the change does break the property (then it is re-filed as a breaking change) or the check is
# over-strict (then the check is corrected; DESIGN section 7).
set -u
prop=$1; i=$2; shift 2
. /verif/env.sh
src=/tmp/wt-$prop/${SEED_OUT:-_out4}
patch=$src/change$i.diff
[ -f "$patch" ] || { echo "no $patch"; exit 2; }
wt=/tmp/confirm-$prop-b$i
git -C /repo worktree remove --force $wt >/dev/null 2>&1
git -C /repo worktree add -q --detach $wt HEAD || exit 2
cleanup() { git -C /repo worktree remove --force $wt >/dev/null 2>&1; rm -rf $wt; }
trap cleanup EXIT
cd $wt
git apply $patch || { echo "patch does not apply"; exit 2; }
if go build ./... >/dev/null 2>&1; then build_ok=yes; else build_ok=no; fi
if go test -vet=off -count=1 ./... >/dev/null 2>&1; then suite_ok=yes; else suite_ok=no; fi
echo "$prop benign change $i: builds=$build_ok suite green with change=$suite_ok"
cd /verif
[ $build_ok = yes ] && [ $suite_ok = yes ] || { echo "NOT CONFIRMED - not kept"; exit 1; }
res=$(tools/trial.sh $patch $prop "$@" 2>&1)
echo "$res" | grep -E "CAUGHT|MISSED|INCONCLUSIVE"
out=/verif/seeded/$prop-${SEED_TAG:-r4-}b$i
mkdir -p $out
cp $patch $out/patch.diff
[ -f $src/demo${i}_test.go ] && cp $src/demo${i}_test.go $out/
[ -f $src/notes$i.md ] && cp $src/notes$i.md $out/notes.md
verdict=$(echo "$res" | grep -E "^$prop:" | head -1)
python3 - "$out" "$prop" "$i" "$verdict" <<'PY'
import json, sys, os
out, prop, i, verdict = sys.argv[1:5]
notes = open(os.path.join(out, 'notes.md')).read() if os.path.exists(os.path.join(out, 'notes.md')) else ''
silent = 'MISSED' in verdict
meta = {
 'property': prop,
 'kind': 'benign control: a change under which the property still holds (argued by its author, an independent sub-agent given only the property text); the check must stay SILENT',
 'argument': notes[:2500],
 'confirmed': {'compiles': True, 'pinned_suite_passes_with_change': True, 'how': 'tools/benign_eval.sh in a fresh scratch worktree of /repo HEAD (removed afterwards)'},
 'quick_check_verdict': verdict,
 'silent': silent,
}
json.dump(meta, open(os.path.join(out, 'meta.json'), 'w'), indent=1)
print('SILENT (as required)' if silent else 'ALARM - analyse by hand')
PY
