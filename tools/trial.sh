#!/bin/bash
# tools/trial.sh <patch.diff> <Cxx> [Cyy ...]
# Applies a patch to /repo, checks that the pinned suite still passes, runs the
# named quick checks without touching evidence/replay, and reverts the patch.
# Prints one line per property: CAUGHT / MISSED / INCONCLUSIVE.
set -u
ROOT=/verif
. $ROOT/env.sh
export VERIF_ROOT=$ROOT
patch="$1"; shift
cd /repo || exit 2
if ! git diff --quiet; then echo "trial: /repo has uncommitted changes"; exit 2; fi
git apply "$patch" || { echo "trial: patch does not apply"; exit 2; }
trap 'git -C /repo checkout -- . ' EXIT
if ! go build ./... >/dev/null 2>&1; then echo "trial: patched tree does not build"; exit 2; fi
if go test -vet=off -count=1 ./... >/tmp/trial.suite.$$ 2>&1; then echo "suite: passes with the patch"; else echo "suite: FAILS with the patch"; grep -E '^(---|FAIL)' /tmp/trial.suite.$$ | head; fi
rm -f /tmp/trial.suite.$$
(cd $ROOT/harness && go build -o $ROOT/.work/bin/verifctl ./cmd/verifctl) || exit 2
for p in "$@"; do
  out=$($ROOT/.work/bin/verifctl -prop "$p" -tier "${TRIAL_TIER:-quick}" -no-evidence 2>&1); rc=$?
  case $rc in
    0) echo "$p: MISSED" ;;
    1) echo "$p: CAUGHT  $(echo "$out" | grep -c '^VIOLATION') signature(s): $(echo "$out" | grep '  signature:' | head -3 | tr '\n' ';')" ;;
    *) echo "$p: INCONCLUSIVE rc=$rc $(echo "$out" | grep INCONCLUSIVE | head -2)" ;;
  esac
done
