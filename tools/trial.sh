#!/bin/bash
# tools/trial.sh <patch.diff> <Cxx> [Cyy ...]
# Applies a patch to a scratch worktree of /repo HEAD (never to /repo itself), checks that the pinned
# suite still passes there, runs the named quick checks against that copy (go build -modfile, no
# evidence / replay files written) and removes the copy. Prints CAUGHT / MISSED / INCONCLUSIVE per property.
set -u
ROOT=/verif
. $ROOT/env.sh
export VERIF_ROOT=$ROOT
patch="$(readlink -f "$1")"; shift
wt=/tmp/trial-wt-$$
git -C /repo worktree add -q --detach $wt HEAD || exit 2
trap 'git -C /repo worktree remove --force '$wt' >/dev/null 2>&1; rm -rf '$wt' /tmp/trial-$$.mod /tmp/trial-$$.sum '$ROOT'/.work/bin/*-alt-trial-$$* '$ROOT'/.work/run/*-alt-trial-$$*' EXIT
(cd $wt && git apply "$patch") || { echo "trial: patch does not apply"; exit 2; }
if ! (cd $wt && go build ./... >/dev/null 2>&1); then echo "trial: patched tree does not build"; exit 2; fi
if (cd $wt && go test -vet=off -count=1 ./... >/tmp/trial.suite.$$ 2>&1); then echo "suite: passes with the patch"; else echo "suite: FAILS with the patch"; grep -E '^(---|FAIL)' /tmp/trial.suite.$$ | head; fi
rm -f /tmp/trial.suite.$$
sed "s#=> /repo#=> $wt#" $ROOT/harness/go.mod > /tmp/trial-$$.mod; : > /tmp/trial-$$.sum
(cd $ROOT/harness && go build -o $ROOT/.work/bin/verifctl ./cmd/verifctl) || exit 2
for p in "$@"; do
  out=$($ROOT/.work/bin/verifctl -prop "$p" -tier "${TRIAL_TIER:-quick}" -no-evidence -modfile /tmp/trial-$$.mod 2>&1); rc=$?
  case $rc in
    0) echo "$p: MISSED" ;;
    1) echo "$p: CAUGHT  $(echo "$out" | grep -c '^VIOLATION') signature(s): $(echo "$out" | grep '  signature:' | head -3 | sed 's/  signature: //' | tr '\n' ';')" ;;
    *) echo "$p: INCONCLUSIVE rc=$rc $(echo "$out" | grep INCONCLUSIVE | head -2)" ;;
  esac
done
# every scratch worktree has a path of its own, so each trial leaves a full set of objects in the Go build
# cache; after ~800 trials that cache had grown to 115 GB, which is what made `vp check` unable to snapshot
# the sandbox (DESIGN 6.1). Trim it when it passes 15 GB.
gc=$(go env GOCACHE); sz=$(du -sm "$gc" 2>/dev/null | cut -f1); [ "${sz:-0}" -gt 15000 ] && go clean -cache
