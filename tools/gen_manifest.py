#!/usr/bin/env python3
"""Regenerates /verif/MANIFEST.json. A property is claimed when harness/cmd/<id>/ exists
and it is not listed in WITHDRAWN below; everything else goes to not_applicable with a reason."""
import json, os

ROOT = '/verif'
WITHDRAWN = {}  # id -> reason (filled only if a check had to be withdrawn; see DESIGN.md section 7)

P = {
 'C01': ('exploration', '5.C01',
  'Monitor over the real packet accessors: every setter call is observed (188 bytes before/after) and compared with an independent ISO 13818-1 bit-table model; the affected header byte(s) x value space is enumerated exhaustively (flags 3x256x2, TSC 256x4, CC 256x16, PID all 65536 prior byte pairs x sampled PIDs and all 8192 PIDs x sampled priors; thorough: full 65536x8192), embedded in sampled bodies; getters in both styles, CC helpers, Equal on all 1504 single-bit differences, CheckErrors on all 256x256 (sync, byte3) pairs and FromBytes on every length 0..400. Held on what was enumerated/sampled; not a proof for the sampled body bytes.',
  'Trusted: the hand-transcribed header bit table and the generic MSB-first bit reader/writer in internal/ref; Go array equality.',
  'runtime monitor: bit-table reference model over exhaustive header-byte enumeration'),
 'C02': ('exploration', '5.C02',
  'Monitor over Header/Payload/SetPayload/SetAdaptationFieldControl and the creation helpers on generated well-formed packets (AFC 01/10/11, every adaptation_field_length 0..183, random optional-field combinations that fit, payload lengths 0..200 with capacity-1/capacity/capacity+1 forced); every result and all 188 bytes after SetPayload are compared with an independent reference packet builder.',
  'Trusted: the reference adaptation-field serialiser and the capacity formula taken from the property statement.',
  'runtime monitor: reference packet builder as oracle over generated well-formed packets'),
 'C03': ('exploration', '5.C03',
  'History monitor: random and bounded-exhaustive sequences of adaptation-field setter calls on the real packet are replayed against an executable logical model with an ISO 13818-1 serialiser; after every call the error value, all 188 bytes and every getter of both APIs are compared; refusals must leave the packet byte-identical. Floors on refused-and-unchanged and capacity-exact events make an uninformative run inconclusive.',
  'Trusted: the sequential model in cmd/c03 and the serialiser in internal/ref; the adoption rule for freshly created fixed-size fields (DESIGN section 3).',
  'runtime monitor: sequential executable model checked after every call of recorded edit histories'),
 'C04': ('exploration', '5.C04',
  'Monitor over InsertPCR/ExtractPCR, InsertPTS/ExtractTime (both packages) and the end-to-end AF / PES paths: written bytes (with canaries and three prior contents) are compared with reference encoders, decode is checked to ignore reserved/marker bits, on all single bits and bit pairs, all 300 extensions x base patterns, slice boundaries and PRNG-chosen values.',
  'Trusted: the reference PCR/PTS encoders transcribed from ISO 13818-1 2.4.3.5 / 2.4.3.7.',
  'runtime monitor: reference codec comparison with canary bytes'),
 'C05': ('exploration', '5.C05',
  'Totality monitor: every decoding entry point is driven, in child processes, with hostile inputs derived from well-formed seeds (every truncation, length-field tampering, bit flips, splices, random strings); the oracle consumes Go run-time panics (recovered, signature = entry > innermost library frame : panic class), process deaths, a heap ceiling and a per-call CPU ceiling (watchdog; input persisted before each call), and compares read-only inputs before/after; every successfully decoded object is then queried through all getters, printed and re-encoded.',
  'Trusted: the Go run-time bounds/nil checks as the memory-safety sanitizer (no cgo/unsafe in the library); the 512 MiB / 10 s-CPU ceilings as the meaning of "bounded".',
  'runtime monitor: sanitizer-style crash/hang/heap oracle over mutated inputs in sandboxed child processes'),
 'C06': ('exploration', '5.C06',
  'Monitor over NewPMT / ReadPMT / PmtAccumulatorDoneFunc / ExtractCRC / PSI accessors / table-header codec: PMT sections generated from ground-truth field values by a reference builder are carried in many packetisations (pointer_field 0..183, other sections before, trailing stuffing, random splits with AF stuffing, interleaved PIDs) and every decoded value and every prefix verdict of the predicate is compared with the ground truth; table-header codec enumerated exhaustively.',
  'Trusted: the reference PSI/PMT builder and packetiser; the reading of the predicate at section boundaries (DESIGN section 3).',
  'runtime monitor: ground-truth generator + reference packetiser, decoded values and per-prefix predicate compared'),
 'C07': ('exploration', '5.C07',
  'Monitor over NewPAT (payload and 188-byte packet carriers), ReadPAT and IsPMT with PAT sections built by a reference builder from ground-truth entries (0..253 entries); NumPrograms, ProgramMap, SPTSpmtPID, IsPMT over all 8192 PIDs and the not-found error are compared with the ground truth.',
  'Trusted: the reference PAT builder; pointer_field 0 (DESIGN section 3).',
  'runtime monitor: ground-truth PAT generator as oracle over three carriers'),
 'C08': ('exploration', '5.C08',
  'Monitor over NewSCTE35: splice_info_sections are built from ground-truth field values by an independent SCTE 35 reference encoder (all flag combinations, boundary values of every 33/40-bit field, 0-4 descriptors incl. foreign tags, MID lists, sub-segments, pointer_field variants) and every getter of every returned object is compared with the ground truth; rejection cases must yield the named errors.',
  'Trusted: the reference splice_info_section encoder in internal/ref (self-checked by CRC residue 0).',
  'runtime monitor: reference encoder as oracle for every decoded getter'),
 'C09': ('exploration', '5.C09',
  'Monitor over UpdateData/Data and the whole setter API: decode->encode of canonical sections must reproduce them byte for byte and be idempotent; objects built only through Create*/Set* must encode to the reference encoding of their final logical values; random setter histories (set, overwrite, clear, out-of-range) are checked getter-after-set = value mod width = getter after encode+decode; CRC residue of every emitted section is 0; Data() changes only at UpdateData/String.',
  'Trusted: the reference encoder; API gaps (cw_index, foreign descriptors, insert component lists not settable) are covered by the decode->encode direction only.',
  'runtime monitor: reference encoder + round-trip and setter-history monitors'),
 'C10': ('exploration', '5.C10',
  'History monitor over scte35.State: bounded-exhaustive (depth 3, thorough 4) and random call sequences of ProcessDescriptor/Close/Open on real descriptors; after every call observational invariants over the recorded event log are checked (no panic, Open() subset of live set, no nil/duplicates, order preserved, closed elements were open, closable/equal, last-opened-first, rejected calls change nothing, immediate duplicates rejected).',
  'Trusted: CanClose/Equal as decided by C19; the live-set bookkeeping of the monitor (resumption discards handled by re-reading Open()).',
  'runtime monitor: trace invariants over recorded operation histories'),
 'C11': ('exploration', '5.C11',
  'Monitor over NewPESHeader, packet.PESHeader and pes.AlignedPUSI on PES starts built by a reference builder (all 256 stream ids, flag bytes, PTS/DTS indicator 00/10/11, header_data_length with filler, payloads) and on transport packets carrying them (PUSI on/off, damaged start code, payload 0-5 bytes).',
  'Trusted: the reference PES builder; stream_id 0xBC exercised for totality only (DESIGN section 3).',
  'runtime monitor: reference PES builder as oracle'),
 'C12': ('exploration', '5.C12',
  'Monitor over the EBP codec: both flavours built by a reference encoder from ground truth (all 256 flag bytes, grouping chains, reserved tails), decoded getters and re-encoded bytes compared; setter-built objects round-tripped; SetEBPTime/EBPTime compared with exact NTP-era integer arithmetic on boundary and PRNG-chosen instants.',
  'Trusted: the reference EBP encoder and NTP arithmetic; time.Time arithmetic of the Go standard library.',
  'runtime monitor: reference EBP encoder + exact time arithmetic as oracle'),
 'C13': ('exploration', '5.C13',
  'Monitor over ComputeCRC against a self-tested reference CRC-32/MPEG-2: all strings of length 0..2 exhaustively, all single-bit strings up to 64 (thorough 1024) bytes, PRNG strings; residue identity; residue of sections emitted by FilterPMTPacketsToPids and UpdateData.',
  'Trusted: the bitwise reference CRC (checked against the published check value 0x0376E6E7 at start-up).',
  'runtime monitor: differential check against a self-tested reference CRC'),
 'C14': ('exploration', '5.C14',
  'Monitor over FilterPMTPacketsToPids and RemoveElementaryStreams: for generated PMTs and packetisations the output packets are compared with an independent re-assembly (headers kept, pointer_field + rebuilt section + CRC + 0xFF), the inputs are compared before/after, and the error contract is checked for every mix of present/absent/duplicate/PAT/PMT PIDs.',
  'Trusted: the reference PMT builder; requests consisting only of PAT/PMT PIDs are checked for no-panic/input-untouched only (DESIGN section 3).',
  'runtime monitor: independent re-assembly as oracle, input snapshots'),
 'C15': ('exploration', '5.C15',
  'Monitor over the PTS methods: all pairs from the neighbourhoods (+-64) of 0, both thresholds and 2^33-1, plus PRNG pairs, against the definitions of the statement computed with plain integers.',
  'Trusted: the integer definitions in cmd/c15.',
  'runtime monitor: definitional oracle over boundary-exhaustive and random pairs'),
 'C16': ('exploration', '5.C16',
  'Monitor over packet.Sync with a brute-force reference search: exhaustive strings up to length 8 over a 4-symbol alphabet, PRNG strings rich in false syncs, through bufio readers of many sizes over whole/one-byte/chunked sources and a hand-written PeekScanner; offset, error and the bytes left in the reader are compared.',
  'Trusted: the brute-force reference search.',
  'runtime monitor: brute-force reference + reader-position observation'),
 'C17': ('exploration', '5.C17',
  'History monitor over packet.Accumulator: random WritePacket/Reset/Bytes/Packets sequences with threshold, failing, never-done and done-on-first predicates against a three-state sequential model; the predicate argument, results, Bytes(), Packets(), input immutability and copy independence are checked after every call.',
  'Trusted: the sequential model; tolerances of DESIGN section 3.',
  'runtime monitor: sequential model checked after every call of recorded histories'),
 'C18': ('fault_enumeration', '5.C18',
  'Fault-enumerating monitor over the writer adapters: for k = 0..20 packets (+partial tails) every failing-write position and every reader behaviour (whole, buffered, one byte at a time, random chunks, data-with-EOF, error after every m bytes) is injected through harness doubles; the delivered packet sequence (copied on receipt), count and error are compared with the statement.',
  'Trusted: the harness writer/reader doubles.',
  'runtime monitor: boundary fault injection at every position with delivery log oracle'),
 'C19': ('exploration', '5.C19',
  'Monitor over CanClose/IsIn/IsOut/Equal on real descriptors: all 256x256 type pairs x event-equal x PTS-equal x segnum=expected x sub-segment variants against a frozen transcription of the rule table; Equal checked for symmetry, transitivity, reflexivity and congruence over a pool spanning every compared attribute.',
  'Trusted: the frozen rule table in internal/ref (transcribed from the library documentation/source at the pinned commit).',
  'runtime monitor: exhaustive comparison with a frozen rule table'),
 'C20': ('exploration', '5.C20',
  'Monitor over LookupPmtStreamType and the PMT descriptor decoders: all 256 stream types against the lists of the statement (also through generated PMTs), decoders on reference-built bodies and on every other tag.',
  'Trusted: the expectation tables transcribed from the property statement.',
  'runtime monitor: exhaustive table comparison + reference-built descriptor bodies'),
}

COMMON = (' Since the seeded-change rounds (DESIGN section 6.3) every monitor also re-checks results obtained earlier after later calls '
          '(caches, pooled buffers, aliasing), feeds inputs in several memory shapes (nil / exact capacity / spare capacity holding other bytes), '
          'interleaves failing calls, and repeats its calls from eight goroutines at once on arguments / objects of their own with every result '
          'compared with the reference (hidden shared state; DESIGN section 0).')
checks, na = [], []
for pid in sorted(P):
    level, ref, text, note, tech = P[pid]
    built = os.path.isdir(f'{ROOT}/harness/cmd/{pid.lower()}')
    if pid in WITHDRAWN:
        na.append({'property_id': pid, 'reason': WITHDRAWN[pid]})
    elif not built:
        na.append({'property_id': pid, 'reason': 'check not built yet (runtime monitor planned in DESIGN.md section %s); not claimed until it exists' % ref})
    else:
        checks.append({
            'property_id': pid,
            'quick_cmd': f'./check {pid} quick',
            'thorough_cmd': f'./check {pid} thorough',
            'evidence_file': f'/verif/evidence/{pid}.json',
            'replay_cmd_template': f'./check {pid} --replay {{path}}',
            'engine': 'gots-runtime-monitors',
            'level_claimed': {'category': level, 'text': text + COMMON, 'design_ref': 'DESIGN.md section ' + ref},
            'level_note': note,
            'technique': tech + '; results of earlier calls re-checked after later calls; the same calls made from 8 goroutines on objects of their own, each result compared with the reference; the concurrent workloads once more in a worker built with go build -race (every report of the race detector is a violation)',
        })

m = {
 'version': 1,
 'setup_cmd': './check --setup',
 'hooks': {
   'guard': 'verif',
   'enable': 'go build -tags verif (harness module with replace github.com/Comcast/gots/v2 => /repo); no guarded source changes were needed: every observed event is visible at the exported API',
   'baseline_off_cmd': 'cd /repo && GOFLAGS=-mod=mod GOPROXY=off GOSUMDB=off GOTOOLCHAIN=local go test -vet=off -count=1 ./...',
   'source_commits': [],
   'add_only': True,
 },
 'engines': [{
   'name': 'gots-runtime-monitors',
   'path': '/verif/harness',
   'serves_properties': [c['property_id'] for c in checks],
   'kind_free_text': 'Go harness: per-property worker processes drive the real library through its exported API with generated / hostile / history workloads while independent reference models and trace invariants observe every call; verifctl shards, merges, matches known findings, writes evidence and replay files',
 }],
 'checks': checks,
 'not_applicable': na,
 'notes': 'Technique family: runtime monitoring. Exit codes: 0 held, 1 violation (VIOLATION line + replay file), 2 inconclusive (never on the unchanged tree). Known findings: /verif/known_findings.json.',
}
json.dump(m, open(f'{ROOT}/MANIFEST.json', 'w'), indent=1)
print('claimed', [c['property_id'] for c in checks], 'not claimed', [n['property_id'] for n in na])
