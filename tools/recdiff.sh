#!/bin/bash
# tools/recdiff.sh <Cxx> <prev-sigs> <new-sigs> <commit> <what>: record the signatures that disappeared as fixed by <commit>
comm -23 "$2" "$3" | while IFS= read -r sig; do /verif/tools/kf.py fixed "$1" "$4" "$sig" "$5" >/dev/null; echo "fixed by $4: $sig"; done
