#!/bin/bash
# tools/afterfix.sh <Cxx> <prev-signature-file> <new-signature-file> <what>
# after a "fix:" commit in /repo: re-run the quick check, list the signatures that disappeared and record them as fixed.
set -u
prop=$1; prev=$2; new=$3; what=$4
cd /verif
H=$(git -C /repo log --format=%h -1)
./check $prop quick 2>&1 | grep "  signature:" | sed 's/  signature: //' | sort > $new
comm -23 $prev $new | while IFS= read -r sig; do
  tools/kf.py fixed $prop $H "$sig" "$what" > /dev/null; echo "fixed by $H: $sig"
done
echo "new signatures not seen before:"; comm -13 $prev $new
echo "remaining: $(wc -l < $new)"
