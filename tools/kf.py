#!/usr/bin/env python3
# tools/kf.py fixed|open <property> <commit|-> <signature> <what>   — edits known_findings.json (never done at check run time)
import json, sys
st, prop, commit, sig, what = sys.argv[1:6]
p = '/verif/known_findings.json'
d = json.load(open(p))
e = {'property': prop, 'signature': sig, 'status': st, 'what': what}
if st == 'fixed':
    e['commit'] = commit
    e['line'] = f'fixed: property={prop} {commit} {what}'
d['findings'] = [x for x in d['findings'] if not (x['property'] == prop and x['signature'] == sig)] + [e]
json.dump(d, open(p, 'w'), indent=1)
print('recorded', e.get('line', e))
