#!/bin/bash
# tools/seed_eval.sh <Cxx> <i> [extra props...]
# Confirms a sub-agent's change /tmp/wt-<Cxx>/_out/change<i>.diff independently, in a fresh scratch
# worktree (compiles, pinned suite green, demonstration fails with the change and passes without),
# runs our quick check(s) against it, and files it under /verif/seeded/<Cxx>-<i>/.
set -u
prop=$1; i=$2; shift 2
. /verif/env.sh
src=/tmp/wt-$prop/${SEED_OUT:-_out}
patch=$src/change$i.diff
[ -f "$patch" ] || { echo "no $patch"; exit 2; }
wt=/tmp/confirm-$prop-$i
git -C /repo worktree remove --force $wt >/dev/null 2>&1
git -C /repo worktree add -q --detach $wt HEAD || exit 2
cleanup() { git -C /repo worktree remove --force $wt >/dev/null 2>&1; rm -rf $wt; }
trap cleanup EXIT
cd $wt
demo_kind=none
if [ -f $src/demo${i}_test.go ]; then
  demo_kind=test
  dir=$(head -5 $src/demo${i}_test.go | grep -o 'dir: *[^ ]*' | head -1 | sed 's/dir: *//')
  [ -n "$dir" ] || dir=.
  cp $src/demo${i}_test.go $wt/$dir/${SEED_DEMO_PREFIX:-zz_}demo${i}_test.go
  run_demo() { (cd $wt/$dir && go test -vet=off -count=1 . >/tmp/seed_demo.$$ 2>&1); }
elif [ -f $src/demo$i/main.go ]; then
  demo_kind=program
  mkdir -p $wt/zz_demo$i && cp $src/demo$i/*.go $wt/zz_demo$i/
  run_demo() { (cd $wt && go run ./zz_demo$i >/tmp/seed_demo.$$ 2>&1); }
else
  echo "no demonstration found for $prop change $i"; exit 2
fi
# 1. without the change the demonstration passes
if run_demo; then base_ok=yes; else base_ok=no; fi
# 2. apply; build; suite (without the demo file)
git apply $patch || { echo "patch does not apply"; exit 2; }
if [ $demo_kind = test ]; then mv $wt/$dir/${SEED_DEMO_PREFIX:-zz_}demo${i}_test.go /tmp/zz_demo.$$; else mv $wt/zz_demo$i /tmp/zz_demo.$$; fi
if go build ./... >/dev/null 2>&1; then build_ok=yes; else build_ok=no; fi
if go test -vet=off -count=1 ./... >/tmp/seed_suite.$$ 2>&1; then suite_ok=yes; else suite_ok=no; fi
if [ $demo_kind = test ]; then mv /tmp/zz_demo.$$ $wt/$dir/${SEED_DEMO_PREFIX:-zz_}demo${i}_test.go; else mv /tmp/zz_demo.$$ $wt/zz_demo$i; fi
# 3. with the change the demonstration fails
if run_demo; then mut_fails=no; else mut_fails=yes; fi
rm -f /tmp/seed_demo.$$ /tmp/seed_suite.$$
echo "$prop change $i: demo passes on clean tree=$base_ok builds=$build_ok suite green with change=$suite_ok demo fails with change=$mut_fails"
cd /verif
if [ $base_ok = yes ] && [ $build_ok = yes ] && [ $suite_ok = yes ] && [ $mut_fails = yes ]; then
  res=$(tools/trial.sh $patch $prop "$@" 2>&1)
  echo "$res" | grep -E "CAUGHT|MISSED|INCONCLUSIVE|suite"
  out=/verif/seeded/$prop-${SEED_TAG:-}$i
  mkdir -p $out
  cp $patch $out/patch.diff
  if [ $demo_kind = test ]; then cp $src/demo${i}_test.go $out/; else mkdir -p $out/demo && cp $src/demo$i/*.go $out/demo/; fi
  [ -f $src/notes$i.md ] && cp $src/notes$i.md $out/notes.md
  verdict=$(echo "$res" | grep -E "^$prop:" | head -1)
  python3 - "$out" "$prop" "$i" "$verdict" <<'EOF'
import json, sys, os
out, prop, i, verdict = sys.argv[1:5]
notes = open(os.path.join(out, 'notes.md')).read() if os.path.exists(os.path.join(out, 'notes.md')) else ''
meta = {
 'property': prop,
 'origin': 'independent sub-agent given only the property text and a scratch worktree',
 'needs_to_manifest': notes[:1500],
 'confirmed': {'compiles': True, 'pinned_suite_passes_with_change': True, 'demonstration_passes_without_change': True, 'demonstration_fails_with_change': True,
               'how': 'tools/seed_eval.sh in a fresh scratch worktree of /repo HEAD (removed afterwards)'},
 'quick_check_verdict': verdict,
}
json.dump(meta, open(os.path.join(out, 'meta.json'), 'w'), indent=1)
EOF
  echo "filed under $out"
else
  echo "NOT CONFIRMED - not kept"
fi
