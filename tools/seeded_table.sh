#!/bin/bash
# tools/seeded_table.sh : runs the quick check of each seeded change's property against a scratch copy with
# the change applied, updates seeded/*/meta.json (quick_check_verdict_current) and prints a table.
cd /verif
for d in seeded/${SEEDED_GLOB:-C*-*}/; do
  d=${d%/}; id=$(basename $d); prop=${id%%-*}
  res=$(tools/trial.sh $d/patch.diff $prop 2>&1 | grep -E "^$prop:" | head -1 | cut -c1-220)
  python3 - "$d" "$res" <<'PY'
import json,sys
d,res=sys.argv[1:3]
m=json.load(open(d+'/meta.json'))
m['quick_check_verdict_current']=res
import subprocess
if res: m['applies_to_repo_commit']=subprocess.check_output(['git','-C','/repo','log','--format=%h','-1']).decode().strip()
if m.get('disputed'):
    pass
elif 'benign' in m.get('kind',''):
    m['silent']='MISSED' in res
elif 'MISSED' in m.get('quick_check_verdict','') and 'CAUGHT' in res:
    m['missed_by_the_first_version_of_the_check']=True
json.dump(m,open(d+'/meta.json','w'),indent=1)
PY
  case "$id" in *-b[0-9]*) res="(benign control; MISSED = silent, as required) $res";; esac
  grep -q '"disputed": true' $d/meta.json && res="(disputed, not counted) $res"
  echo "$id | $res"
done
