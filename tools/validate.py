#!/usr/bin/env python3
# validates MANIFEST.json and every evidence file against the schemas (run with python3-vt)
import json, sys, glob, jsonschema
m = json.load(open('/verif/MANIFEST.json'))
jsonschema.validate(m, json.load(open('/root/.vp/MANIFEST.schema.json')))
es = json.load(open('/root/.vp/EVIDENCE.schema.json'))
bad = 0
for c in m['checks']:
    p = c['evidence_file']
    try:
        ev = json.load(open(p))
        jsonschema.validate(ev, es)
        assert ev['level'] == c['level_claimed']['category'], 'level mismatch'
        assert ev['property_id'] == c['property_id']
        print('ok ', p, ev['tier'], ev['coverage']['evaluations'], ev['coverage']['distinct_nontrivial'], len(ev['coverage']['samples']))
    except Exception as e:
        bad += 1
        print('BAD', p, str(e)[:200])
sys.exit(1 if bad else 0)
