package ref

import "verif/harness/internal/gen"

// Reference splice_info_section encoder (SCTE 35 section 9) and the ground
// truth structures it serialises. Independent of the library.

type InsComp struct {
	Tag    byte
	HasPTS bool
	PTS    uint64
}

type UPID struct {
	Type byte
	Data []byte
}

type SegComp struct {
	Tag byte
	Off uint64 // 33 bits
}

type SegDesc struct {
	Foreign bool // a descriptor with another tag: Tag + Body kept verbatim
	Tag     byte
	Body    []byte
	BadID   bool // segmentation descriptor whose identifier is not "CUEI"

	Event         uint32
	Cancel        bool
	ProgSeg       bool
	HasDur        bool
	NotRestricted bool
	Web           bool
	NoBlackout    bool
	Archive       bool
	DevRestr      byte // 2 bits
	Comps         []SegComp
	Dur           uint64 // 40 bits
	UPIDType      byte
	UPID          []byte
	MID           []UPID // when UPIDType == 0x0D
	Type          byte
	Num, Exp      byte
	HasSub        bool
	SubNum        byte
	SubExp        byte
}

type Sig struct {
	Ptr       int
	TableID   byte // 0xFC
	Encrypted bool
	EncAlg    byte // 6 bits
	PTSAdj    uint64
	CW        byte
	Tier      uint16 // 12 bits
	Cmd       byte   // 0x00 null, 0x05 insert, 0x06 time signal (others: unsupported)
	CmdRaw    []byte // body for unsupported command types
	// time_signal
	TSHas bool
	TSPTS uint64
	// splice_insert
	Event    uint32
	Cancel   bool
	Out      bool
	Prog     bool
	HasDur   bool
	Imm      bool
	InsHas   bool // splice_time time_specified_flag (program mode, not immediate)
	InsPTS   uint64
	Comps    []InsComp
	AutoRet  bool
	Dur      uint64 // 33 bits
	UPID16   uint16
	Avail    byte
	Avails   byte
	Descs    []SegDesc
	Stuffing int // alignment_stuffing bytes before the CRC (0 for canonical sections)
	// LegacyCmdLen writes splice_command_length as 0xFFF ("not given", the encoding of older equipment).
	LegacyCmdLen bool
	// Skipped are the Ptr bytes the pointer_field points over (the tail of a previous section); 0xFF when nil.
	Skipped []byte
}

func SpliceTime(has bool, pts uint64) []byte {
	if !has {
		return []byte{0x7f}
	}
	return []byte{0xfe | byte(pts>>32)&1, byte(pts >> 24), byte(pts >> 16), byte(pts >> 8), byte(pts)}
}

// Enc serialises one descriptor (tag, length, body).
func (d *SegDesc) Enc() []byte {
	if d.Foreign {
		return append([]byte{d.Tag, byte(len(d.Body))}, d.Body...)
	}
	id := []byte{'C', 'U', 'E', 'I'}
	if d.BadID {
		id = []byte{'C', 'U', 'E', 'J'}
	}
	b := append(id, byte(d.Event>>24), byte(d.Event>>16), byte(d.Event>>8), byte(d.Event))
	if d.Cancel {
		b = append(b, 0xff)
	} else {
		b = append(b, 0x7f)
		var f byte
		if d.ProgSeg {
			f |= 0x80
		}
		if d.HasDur {
			f |= 0x40
		}
		if d.NotRestricted {
			f |= 0x20 | 0x1f
		} else {
			if d.Web {
				f |= 0x10
			}
			if d.NoBlackout {
				f |= 0x08
			}
			if d.Archive {
				f |= 0x04
			}
			f |= d.DevRestr & 3
		}
		b = append(b, f)
		if !d.ProgSeg {
			b = append(b, byte(len(d.Comps)))
			for _, c := range d.Comps {
				b = append(b, c.Tag, 0xfe|byte(c.Off>>32)&1, byte(c.Off>>24), byte(c.Off>>16), byte(c.Off>>8), byte(c.Off))
			}
		}
		if d.HasDur {
			b = append(b, byte(d.Dur>>32), byte(d.Dur>>24), byte(d.Dur>>16), byte(d.Dur>>8), byte(d.Dur))
		}
		b = append(b, d.UPIDType)
		if d.UPIDType == 0x0d {
			var m []byte
			for _, u := range d.MID {
				m = append(m, u.Type, byte(len(u.Data)))
				m = append(m, u.Data...)
			}
			b = append(b, byte(len(m)))
			b = append(b, m...)
		} else {
			b = append(b, byte(len(d.UPID)))
			b = append(b, d.UPID...)
		}
		b = append(b, d.Type, d.Num, d.Exp)
		if d.HasSub {
			b = append(b, d.SubNum, d.SubExp)
		}
	}
	return append([]byte{0x02, byte(len(b))}, b...)
}

func (s *Sig) CmdBytes() []byte {
	switch s.Cmd {
	case 0x00:
		return nil
	case 0x06:
		return SpliceTime(s.TSHas, s.TSPTS)
	case 0x05:
	default:
		return s.CmdRaw
	}
	b := []byte{byte(s.Event >> 24), byte(s.Event >> 16), byte(s.Event >> 8), byte(s.Event)}
	if s.Cancel {
		return append(b, 0xff)
	}
	b = append(b, 0x7f)
	f := byte(0x0f)
	if s.Out {
		f |= 0x80
	}
	if s.Prog {
		f |= 0x40
	}
	if s.HasDur {
		f |= 0x20
	}
	if s.Imm {
		f |= 0x10
	}
	b = append(b, f)
	if s.Prog && !s.Imm {
		b = append(b, SpliceTime(s.InsHas, s.InsPTS)...)
	}
	if !s.Prog {
		b = append(b, byte(len(s.Comps)))
		for _, c := range s.Comps {
			b = append(b, c.Tag)
			if !s.Imm {
				b = append(b, SpliceTime(c.HasPTS, c.PTS)...)
			}
		}
	}
	if s.HasDur {
		x := byte(0x7e)
		if s.AutoRet {
			x |= 0x80
		}
		b = append(b, x|byte(s.Dur>>32)&1, byte(s.Dur>>24), byte(s.Dur>>16), byte(s.Dur>>8), byte(s.Dur))
	}
	return append(b, byte(s.UPID16>>8), byte(s.UPID16), s.Avail, s.Avails)
}

// Section serialises the splice_info_section with a valid CRC_32.
func (s *Sig) Section() []byte {
	cmd := s.CmdBytes()
	var dl []byte
	for i := range s.Descs {
		dl = append(dl, s.Descs[i].Enc()...)
	}
	b1 := (s.EncAlg&0x3f)<<1 | byte(s.PTSAdj>>32)&1
	if s.Encrypted {
		b1 |= 0x80
	}
	body := []byte{0x00, b1, byte(s.PTSAdj >> 24), byte(s.PTSAdj >> 16), byte(s.PTSAdj >> 8), byte(s.PTSAdj), s.CW,
		byte(s.Tier >> 4), byte(s.Tier<<4) | byte(len(cmd)>>8)&0x0f, byte(len(cmd)), s.Cmd}
	if s.LegacyCmdLen {
		body[8] |= 0x0f
		body[9] = 0xff
	}
	body = append(body, cmd...)
	body = append(body, byte(len(dl)>>8), byte(len(dl)))
	body = append(body, dl...)
	for i := 0; i < s.Stuffing; i++ {
		body = append(body, 0x00)
	}
	sl := len(body) + 4
	sec := append([]byte{s.TableID, 0x30 | byte(sl>>8)&0x0f, byte(sl)}, body...)
	return append(sec, BE32(CRC32MPEG2(sec))...)
}

// Payload is pointer_field + filler + section.
func (s *Sig) Payload() []byte {
	p := PointerPrefix(s.Ptr)
	if len(s.Skipped) == s.Ptr {
		copy(p[1:], s.Skipped)
	}
	return append(p, s.Section()...)
}

// CommandHasTime reports whether the command carries a pts_time the signal
// PTS is derived from, and that time.
func (s *Sig) CommandHasTime() (bool, uint64) {
	switch s.Cmd {
	case 0x06:
		return s.TSHas, s.TSPTS
	case 0x05:
		if !s.Cancel && s.Prog && !s.Imm && s.InsHas {
			return true, s.InsPTS
		}
	}
	return false, 0
}

// SegDescs returns the segmentation descriptors (non-foreign) in order.
func (s *Sig) SegDescs() []*SegDesc {
	var out []*SegDesc
	for i := range s.Descs {
		if !s.Descs[i].Foreign {
			out = append(out, &s.Descs[i])
		}
	}
	return out
}

var segTypes = []byte{0x00, 0x01, 0x10, 0x11, 0x12, 0x13, 0x14, 0x17, 0x19, 0x20, 0x21, 0x22, 0x23, 0x30, 0x31, 0x32, 0x34, 0x35, 0x36, 0x37, 0x3c, 0x40, 0x41, 0x44, 0x45, 0x50, 0x51, 0xAA, 0xFF}

// GenSegDesc draws a segmentation descriptor (sometimes a foreign one).
func GenSegDesc(r *gen.Rand, allowForeign bool) SegDesc {
	var d SegDesc
	if allowForeign && r.Chance(6) {
		d.Foreign = true
		d.Tag = r.PickByte([]byte{0x00, 0x01, 0x03, 0x80, 0xff})
		// every splice_descriptor() starts with a 32-bit identifier: a foreign one has at least 4 bytes
		d.Body = r.Bytes(4 + r.Intn(8))
		if r.Chance(3) {
			d.Body = append([]byte([]string{"CUEI", "ABCD", "GA94", "\x00\x00\x00\x00"}[r.Intn(4)]), r.Bytes(r.Intn(8))...)
		}
		if r.Chance(10) {
			d.Body = r.Bytes(r.PickInt([]int{253, 254, 255, 255})) // the largest descriptor_length values
		}
		return d
	}
	d.Event = r.Uint32()
	if r.Chance(5) {
		d.Event = uint32(r.PickU64([]uint64{0, 1, 0xffffffff, 0x80000000}))
	}
	d.Cancel = r.Chance(8)
	d.ProgSeg = !r.Chance(3)
	d.HasDur = r.Bool()
	d.NotRestricted = r.Bool()
	d.Web, d.NoBlackout, d.Archive = r.Bool(), r.Bool(), r.Bool()
	d.DevRestr = byte(r.Intn(4))
	if !d.ProgSeg {
		n := r.Intn(4)
		if r.Chance(8) {
			n = 8 + r.Intn(20) // long component lists (6 bytes each)
		}
		for i := n; i > 0; i-- {
			d.Comps = append(d.Comps, SegComp{r.Byte(), r.U33()})
		}
	}
	d.Dur = r.Uint64() & (1<<40 - 1)
	if r.Chance(3) {
		d.Dur = r.PickU64([]uint64{0, 1, 1<<40 - 1, 1 << 39, 1 << 33, 1 << 32, 1<<33 - 1, 0xABCDEF0123})
	}
	if r.Chance(4) {
		d.UPIDType = 0x0d
		for i := r.Intn(4); i > 0; i-- {
			d.MID = append(d.MID, UPID{byte(1 + r.Intn(12)), r.Bytes(r.Intn(12))})
		}
	} else {
		d.UPIDType = r.PickByte([]byte{0, 1, 2, 3, 8, 9, 0x0a, 0x0c, 0x0e, 0x0f})
		if d.UPIDType != 0 {
			d.UPID = r.Bytes(r.Intn(20))
			if r.Chance(20) {
				d.UPID = r.Bytes(100 + r.Intn(100))
			}
		}
	}
	d.Type = segTypes[r.Intn(len(segTypes))]
	d.Num, d.Exp = r.Byte(), r.Byte()
	if r.Chance(4) {
		d.Num, d.Exp = r.PickByte([]byte{0, 0, 1, 255}), r.PickByte([]byte{0, 0, 1, 255})
	}
	if (d.Type == 0x34 || d.Type == 0x36) && r.Bool() {
		d.HasSub = true
		d.SubNum, d.SubExp = r.Byte(), r.Byte()
		if r.Chance(3) {
			d.SubNum, d.SubExp = r.PickByte([]byte{0, 0, 1, 255}), r.PickByte([]byte{0, 0, 1, 255}) // the pair is there even when it reads 0 of 0
		}
	}
	if r.Chance(25) && !d.Cancel && d.UPIDType != 0x0d && d.UPIDType != 0 {
		// stretch the UPID so that descriptor_length lands on 253..255
		d.UPID = nil
		base := len(d.Enc()) - 2
		if want := r.PickInt([]int{253, 254, 255, 255}); want-base > 0 && want-base <= 255 {
			d.UPID = r.Bytes(want - base)
		}
	}
	for len(d.Enc())-2 > 255 && len(d.Comps) > 0 {
		d.Comps = d.Comps[:len(d.Comps)-1]
	}
	return d
}

// GenSig draws a well-formed section over the supported syntax.
func GenSig(r *gen.Rand, allowForeign bool) Sig {
	var s Sig
	s.TableID = 0xfc
	s.Ptr = r.PickInt([]int{0, 0, 0, 0, 1, 5, 30, 182, 183, 254, 255})
	s.PTSAdj = r.U33()
	if r.Chance(3) {
		s.PTSAdj = 0
	}
	s.CW = r.Byte()
	s.Tier = uint16(r.Intn(4096))
	if r.Chance(4) {
		s.Tier = uint16(r.PickInt([]int{0, 1, 0xfff, 0x800, 0x0ff, 0xf00}))
	}
	s.Cmd = r.PickByte([]byte{0x00, 0x05, 0x05, 0x06, 0x06})
	s.TSHas, s.TSPTS = true, r.U33()
	s.Event = r.Uint32()
	s.Cancel = r.Chance(6)
	s.Out, s.Prog, s.HasDur, s.Imm = r.Bool(), r.Bool(), r.Bool(), r.Bool()
	s.InsHas, s.InsPTS = true, r.U33()
	if !s.Prog {
		n := r.Intn(4)
		if r.Chance(10) {
			// component_count is 8 bits wide; from 41 timed components on the command is longer than 255 bytes
			n = r.PickInt([]int{40, 41, 42, 43, 64, 100, 127, 128, 254, 255})
		}
		for i := n; i > 0; i-- {
			s.Comps = append(s.Comps, InsComp{r.Byte(), !r.Chance(3), r.U33()})
		}
	}
	s.AutoRet, s.Dur = r.Bool(), r.U33()
	s.UPID16 = uint16(r.Intn(65536))
	s.Avail, s.Avails = r.Byte(), r.Byte()
	for i := r.Intn(5); i > 0; i-- {
		s.Descs = append(s.Descs, GenSegDesc(r, allowForeign))
	}
	return s
}
