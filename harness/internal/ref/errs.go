package ref

import (
	"io"

	"github.com/Comcast/gots/v2"
)

// LibraryErrors are the error values the library exports, plus the io ones a
// reader or writer commonly returns: an error that a caller's own reader,
// packet writer or predicate returns is that caller's business whatever its
// value - also when it is a value the library itself uses as a signal.
var LibraryErrors = []error{
	io.EOF, io.ErrUnexpectedEOF, io.ErrShortWrite, io.ErrClosedPipe, io.ErrNoProgress, io.ErrShortBuffer,
	gots.ErrAccumulatorDone,
	gots.ErrAccumulatorInvalidState,
	gots.ErrAdaptationFieldCannotGrow,
	gots.ErrAdaptationFieldTooLarge,
	gots.ErrAdaptationFieldZeroLength,
	gots.ErrBadSyncByte,
	gots.ErrInvalidAFCFlag,
	gots.ErrInvalidEBPLength,
	gots.ErrInvalidPATLength,
	gots.ErrInvalidPacketLength,
	gots.ErrInvalidSCTE35Length,
	gots.ErrInvalidTSCFlag,
	gots.ErrNilPAT,
	gots.ErrNoAdaptationField,
	gots.ErrNoAdaptationFieldExtension,
	gots.ErrNoEBP,
	gots.ErrNoEBPData,
	gots.ErrNoOPCR,
	gots.ErrNoPCR,
	gots.ErrNoPayload,
	gots.ErrNoPayloadUnitStartIndicator,
	gots.ErrNoPrivateTransportData,
	gots.ErrNoSplicePoint,
	gots.ErrPATNotFound,
	gots.ErrPIDNotInPMT,
	gots.ErrPMTNotFound,
	gots.ErrPMTParse,
	gots.ErrParsePMTDescriptor,
	gots.ErrSCTE35DescriptorNotFound,
	gots.ErrSCTE35DuplicateDescriptor,
	gots.ErrSCTE35EncryptionUnsupported,
	gots.ErrSCTE35InvalidDescriptor,
	gots.ErrSCTE35InvalidDescriptorID,
	gots.ErrSCTE35MissingOut,
	gots.ErrSCTE35UnsupportedSpliceCommand,
	gots.ErrShortPayload,
	gots.ErrSyncByteNotFound,
	gots.ErrUnknownTableID,
	gots.ErrUnrecognizedEbpType,
	gots.ErrVSSSignalIdNotFound,
}
