package ref

// PES describes the start of a PES packet (ISO/IEC 13818-1 2.4.3.6/7) as
// ground truth for the generator.
type PES struct {
	StreamID  byte
	PacketLen uint16
	// optional header (only for stream ids that carry it)
	Flags1     byte // '10' scrambling(2) priority(1) data_alignment(1) copyright(1) original(1) — top two bits forced to '10'
	Flags2Low6 byte // ESCR..extension flags (low 6 bits of the second flag byte)
	PTSDTS     byte // 0, 2 or 3
	PTS, DTS   uint64
	Extra      []byte // further optional fields + stuffing inside the header (after PTS/DTS)
	Payload    []byte
}

// PESNoOptionalHeader lists the stream ids that ISO/IEC 13818-1 table 2-21
// defines without the optional PES header, as the property statement gives
// them (program_stream_map 0xBC is deliberately absent, see DESIGN section 3).
func PESNoOptionalHeader(id byte) bool {
	switch id {
	case 0xBE, 0xBF, 0xF0, 0xF1, 0xF2, 0xF8, 0xFF:
		return true
	}
	return false
}

// DataAligned is the data_alignment_indicator of the flags.
func (p *PES) DataAligned() bool { return p.Flags1&0x04 != 0 }

// Bytes serialises the PES start; hdrEnd is the index of the first data byte.
func (p *PES) Bytes() (b []byte, hdrEnd int) {
	b = []byte{0, 0, 1, p.StreamID, byte(p.PacketLen >> 8), byte(p.PacketLen)}
	if PESNoOptionalHeader(p.StreamID) {
		hdrEnd = 6
		return append(b, p.Payload...), hdrEnd
	}
	var opt []byte
	switch p.PTSDTS {
	case 2:
		e := EncPTS(2, p.PTS)
		opt = append(opt, e[:]...)
	case 3:
		e := EncPTS(3, p.PTS)
		opt = append(opt, e[:]...)
		e = EncPTS(1, p.DTS)
		opt = append(opt, e[:]...)
	}
	opt = append(opt, p.Extra...)
	b = append(b, 0x80|p.Flags1&0x3f, p.PTSDTS<<6|p.Flags2Low6&0x3f, byte(len(opt)))
	b = append(b, opt...)
	hdrEnd = len(b)
	return append(b, p.Payload...), hdrEnd
}

// PESOptionalFields returns the optional fields announced by the low six bits of the second flag byte
// (ESCR 6, ES_rate 3, DSM_trick_mode 1, additional_copy_info 1, previous_PES_packet_CRC 2 bytes; a
// PES_extension without optional fields of its own), each filled by fill, followed by n 0xFF stuffing bytes.
func PESOptionalFields(flags2low6 byte, fill func(n int) []byte, stuffing int) []byte {
	var out []byte
	for _, f := range []struct {
		bit  byte
		size int
	}{{0x20, 6}, {0x10, 3}, {0x08, 1}, {0x04, 1}, {0x02, 2}} {
		if flags2low6&f.bit != 0 {
			out = append(out, fill(f.size)...)
		}
	}
	if flags2low6&0x01 != 0 {
		out = append(out, 0x0e)
	}
	for i := 0; i < stuffing; i++ {
		out = append(out, 0xff)
	}
	return out
}
