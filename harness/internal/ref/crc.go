package ref

// CRC32MPEG2 is the reference CRC-32/MPEG-2: polynomial 0x04C11DB7, initial
// value 0xFFFFFFFF, MSB first, no reflection, no final XOR.
func CRC32MPEG2(b []byte) uint32 {
	c := uint32(0xFFFFFFFF)
	for _, x := range b {
		c ^= uint32(x) << 24
		for i := 0; i < 8; i++ {
			if c&0x80000000 != 0 {
				c = c<<1 ^ 0x04C11DB7
			} else {
				c <<= 1
			}
		}
	}
	return c
}

// CRCSelfTest checks the reference against the published check value so that
// an oracle bug cannot masquerade as a library bug.
func CRCSelfTest() bool { return CRC32MPEG2([]byte("123456789")) == 0x0376E6E7 }

func BE32(v uint32) []byte { return []byte{byte(v >> 24), byte(v >> 16), byte(v >> 8), byte(v)} }
