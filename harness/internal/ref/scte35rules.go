package ref

// Frozen transcription of the segmentation closing-rule table documented by
// the library (scte35 package, pinned commit) — incoming type -> open type ->
// rule kind. It is deliberately a literal copy so that a later edit of the
// library's table is detected as a disagreement.
type CloseKind byte

const (
	CloseAlways  CloseKind = 'N' // normal / unconditional / breakaway-handled-by-state
	CloseEventID CloseKind = 'E' // only when the event ids are equal
	CloseDiffPTS CloseKind = 'D' // only when the two signals' PTS differ
	ClosePOEnd   CloseKind = 'P' // placement-opportunity end: event ids equal and segment_num == segments_expected of the incoming descriptor
)

func rules(spec string) map[byte]CloseKind {
	m := map[byte]CloseKind{}
	for i := 0; i+3 <= len(spec); i += 4 {
		t := hexv(spec[i])<<4 | hexv(spec[i+1])
		m[t] = CloseKind(spec[i+2])
	}
	return m
}

func hexv(c byte) byte {
	switch {
	case c >= '0' && c <= '9':
		return c - '0'
	case c >= 'A' && c <= 'F':
		return c - 'A' + 10
	}
	panic("bad hex in rule table")
}

// CloseRules: "TTK " groups = open type TT with kind K.
var CloseRules = map[byte]map[byte]CloseKind{
	0x10: rules("10N 14N 17N 19N 20N 22N 24N 26N 30N 34N 36N 3CN 40N 42N 44N "),
	0x11: rules("10E 14E 17E 19E 20N 22N 24N 26N 30N 34N 36N 3CN 40N 42N 44N "),
	0x12: rules("10E 14E 17E 19E 20N 30N 32N 34N 36N "),
	0x13: rules("20N 30N 32N 34N 36N "),
	0x14: rules("10N 17N 19N 20N 30N 32N 34N 36N "),
	0x19: rules("10N 14N 17N 19N 20N 30N 32N 34N 36N "),
	0x20: rules("20N 30N 32N 34N 36N "),
	0x21: rules("20E 30N 32N 34N 36N "),
	0x22: rules("20N 22N 24N 26N 30N 34N 36N 3CN 44N "),
	0x23: rules("22E 30N 34N 36N 3CN 44N "),
	0x24: rules("20N 22N 24N 26N 30N 34N 36N 3CN 44N "),
	0x25: rules("24E 30N 34N 36N 3CN 44N "),
	0x26: rules("20N 22N 24N 26N 30N 34N 36N 3CN 44N "),
	0x27: rules("26E 30N 34N 36N 3CN 44N "),
	0x30: rules("30N 32N "),
	0x31: rules("30E "),
	0x32: rules("30N 32N "),
	0x33: rules("32E "),
	0x34: rules("30D 3CD 44D "),
	0x35: rules("30N 34P 3CN 44N "),
	0x36: rules("30D 3CD 44D "),
	0x37: rules("30N 36P 3CN 44N "),
	0x3C: rules("30N 3CN "),
	0x3D: rules("3CE "),
	0x40: rules("40N 13N "),
	0x41: rules("40E 13N "),
	0x42: rules("20N 22N 24N 26N 30N 34N 36N 3CN 42N 44N "),
	0x43: rules("20N 22N 24N 26N 30N 34N 36N 3CN 42E 44N "),
	0x44: rules("30D 3CD 44N "),
	0x45: rules("30N 3CN 44E "),
	0x50: rules("10N 14N 17N 19N 20N 30N 32N 34N 36N 40N 50N 13N "),
	0x51: rules("10N 14N 17N 19N 20N 30N 32N 34N 36N 40N 50E 13N "),
}

// CanClose evaluates the frozen table.
func CanClose(inType, openType byte, eventEqual, ptsEqual, segNumEqualsExpected bool) bool {
	k, ok := CloseRules[inType][openType]
	if !ok {
		return false
	}
	switch k {
	case CloseAlways:
		return true
	case CloseEventID:
		return eventEqual
	case CloseDiffPTS:
		return !ptsEqual
	case ClosePOEnd:
		return eventEqual && segNumEqualsExpected
	}
	return false
}

// Segmentation types classified as "out" (opening) and "in" (closing).
var SegOutTypes = []byte{0x10, 0x14, 0x17, 0x19, 0x20, 0x22, 0x30, 0x32, 0x34, 0x36, 0x40, 0x44, 0x50}
var SegInTypes = []byte{0x11, 0x12, 0x13, 0x15, 0x16, 0x18, 0x21, 0x23, 0x31, 0x33, 0x35, 0x37, 0x41, 0x45, 0x51}

func IsSegOut(t byte) bool { return memb(SegOutTypes, t) }
func IsSegIn(t byte) bool  { return memb(SegInTypes, t) }
func memb(s []byte, t byte) bool {
	for _, x := range s {
		if x == t {
			return true
		}
	}
	return false
}
