package ref

import "verif/harness/internal/gen"

// GenAF draws adaptation-field content that fits in L bytes (L >= 1).
func GenAF(r *gen.Rand, L int) AF {
	for tries := 0; ; tries++ {
		var a AF
		a.DI, a.RAI, a.ESPI = r.Bool(), r.Bool(), r.Bool()
		if tries > 30 {
			return a
		}
		if r.Chance(3) {
			v := EncPCR(r.Uint64() % PCRMax)
			a.PCR = &v
		}
		if r.Chance(4) {
			v := EncPCR(r.Uint64() % PCRMax)
			a.OPCR = &v
		}
		if r.Chance(4) {
			v := r.Byte()
			a.Splice = &v
		}
		if r.Chance(3) {
			n := r.Intn(12)
			if r.Chance(6) {
				n = r.Intn(170)
			}
			v := r.Bytes(n)
			a.TPD = &v
		}
		if r.Chance(4) {
			n := r.Intn(8)
			if r.Chance(8) {
				n = r.Intn(100)
			}
			v := r.Bytes(n)
			a.Ext = &v
		}
		if r.Chance(12) {
			// fill the field exactly: private data sized to the remaining room
			room := L - a.Size()
			if a.TPD == nil && room >= 1 {
				v := r.Bytes(room - 1)
				a.TPD = &v
			}
		}
		if a.Size() <= L {
			return a
		}
	}
}

// GenTSPacket draws a well-formed packet. afc: 1 payload only, 2 adaptation
// field only (L = 183), 3 both (L = 0..182); afc 0 picks one at random. L < 0
// picks the length at random (biased to the boundaries).
func GenTSPacket(r *gen.Rand, afc, L int) TSPacket {
	if afc == 0 {
		afc = 1 + r.Intn(3)
	}
	var m TSPacket
	m.Hdr = [4]byte{0x47, r.Byte(), r.Byte(), byte(afc)<<4 | byte(r.Intn(16)) | byte(r.PickInt([]int{0, 0, 2, 3}))<<6}
	switch afc {
	case 1:
		m.Payload = r.Bytes(184)
		return m
	case 2:
		m.L = 183
	default:
		if L < 0 {
			L = r.Intn(183)
			if r.Chance(4) {
				L = r.PickInt([]int{0, 1, 2, 7, 8, 13, 14, 181, 182})
			}
		}
		m.L = L
	}
	if m.L > 0 {
		m.AF = GenAF(r, m.L)
	}
	m.Payload = r.Bytes(188 - 5 - m.L)
	return m
}
