package ref

import (
	"io"

	"verif/harness/internal/gen"
)

// Pieces is a reader that hands out its bytes in pieces of at most Max bytes (random sizes when R is set)
// and, if EOFWithData is set, returns io.EOF together with the last piece instead of on a separate call.
type Pieces struct {
	B           []byte
	Max         int
	R           *gen.Rand
	EOFWithData bool
}

func (p *Pieces) Read(out []byte) (int, error) {
	if len(p.B) == 0 {
		return 0, io.EOF
	}
	n := p.Max
	if p.R != nil {
		n = 1 + p.R.Intn(p.Max)
	}
	if n > len(out) {
		n = len(out)
	}
	n = copy(out[:n], p.B)
	p.B = p.B[n:]
	if len(p.B) == 0 && p.EOFWithData {
		return n, io.EOF
	}
	return n, nil
}

// AnyReader wraps b in one of several reader behaviours: all at once, one byte at a time, random pieces,
// whole packets with io.EOF arriving together with the last piece, random pieces with that EOF behaviour.
func AnyReader(r *gen.Rand, b []byte) io.Reader {
	switch r.Intn(5) {
	case 1:
		return &Pieces{B: b, Max: 1}
	case 2:
		return &Pieces{B: b, Max: 1 + r.Intn(400), R: r}
	case 3:
		return &Pieces{B: b, Max: 188 * (1 + r.Intn(40)), EOFWithData: true}
	case 4:
		return &Pieces{B: b, Max: 1 + r.Intn(300), R: r, EOFWithData: true}
	}
	return &Pieces{B: b, Max: len(b) + 1}
}
