package ref

// Reference builders for PSI sections (ISO/IEC 13818-1 2.4.4) and a
// packetiser. Ground truth lives in the structs; the library's own encoders
// are never used to produce oracle inputs.

type Desc struct {
	Tag  byte
	Body []byte
}

type ES struct {
	Type  byte
	PID   int
	Descs []Desc
}

type PMT struct {
	Program       uint16
	Version       byte // 5 bits
	CurrentNext   bool
	SectionNumber byte
	LastSection   byte
	PCRPID        int
	ProgDescs     []Desc
	Streams       []ES
}

func EncDescs(ds []Desc) []byte {
	var b []byte
	for _, d := range ds {
		b = append(b, d.Tag, byte(len(d.Body)))
		b = append(b, d.Body...)
	}
	return b
}

// SectionWith serialises TS_program_map_section keeping only the streams for
// which keep returns true (keep == nil keeps all). CRC_32 is valid.
func (p *PMT) SectionWith(keep func(pid int) bool) []byte {
	pd := EncDescs(p.ProgDescs)
	vb := byte(0xc0) | (p.Version&0x1f)<<1
	if p.CurrentNext {
		vb |= 1
	}
	body := []byte{byte(p.Program >> 8), byte(p.Program), vb, p.SectionNumber, p.LastSection,
		0xe0 | byte(p.PCRPID>>8)&0x1f, byte(p.PCRPID), 0xf0 | byte(len(pd)>>8)&0x0f, byte(len(pd))}
	body = append(body, pd...)
	for _, s := range p.Streams {
		if keep != nil && !keep(s.PID) {
			continue
		}
		d := EncDescs(s.Descs)
		body = append(body, s.Type, 0xe0|byte(s.PID>>8)&0x1f, byte(s.PID), 0xf0|byte(len(d)>>8)&0x0f, byte(len(d)))
		body = append(body, d...)
	}
	return finishSection(0x02, 0xb0, body)
}

func (p *PMT) Section() []byte { return p.SectionWith(nil) }

// finishSection prepends table_id + flags/length and appends the CRC.
func finishSection(tableID, flags byte, body []byte) []byte {
	sl := len(body) + 4
	sec := append([]byte{tableID, flags | byte(sl>>8)&0x0f, byte(sl)}, body...)
	return append(sec, BE32(CRC32MPEG2(sec))...)
}

// OtherSection builds a complete private section with the given table id
// (section_syntax_indicator set, valid CRC) and n body bytes.
func OtherSection(tableID byte, body []byte) []byte {
	return finishSection(tableID, 0xb0, body)
}

type PATEntry struct {
	Program uint16
	PID     int
}

type PAT struct {
	TSID        uint16
	Version     byte
	CurrentNext bool
	Entries     []PATEntry
}

func (p *PAT) Section() []byte {
	vb := byte(0xc0) | (p.Version&0x1f)<<1
	if p.CurrentNext {
		vb |= 1
	}
	body := []byte{byte(p.TSID >> 8), byte(p.TSID), vb, 0, 0}
	for _, e := range p.Entries {
		body = append(body, byte(e.Program>>8), byte(e.Program), 0xe0|byte(e.PID>>8)&0x1f, byte(e.PID))
	}
	return finishSection(0x00, 0xb0, body)
}

// PointerPrefix returns pointer_field n followed by n filler bytes 0xFF.
func PointerPrefix(n int) []byte {
	b := make([]byte, n+1)
	b[0] = byte(n)
	for i := 1; i <= n; i++ {
		b[i] = 0xff
	}
	return b
}

// Pkt is a raw transport packet.
type Pkt = [188]byte

// PayloadPacket builds a packet carrying exactly chunk (1..184 bytes) as its
// payload: payload-only when the chunk fills the packet, otherwise with an
// adaptation field of the right length (flags 0x00, stuffing 0xFF).
func PayloadPacket(pid int, cc int, pusi bool, chunk []byte) Pkt {
	var p Pkt
	p[0] = 0x47
	p[1] = byte(pid>>8) & 0x1f
	if pusi {
		p[1] |= 0x40
	}
	p[2] = byte(pid)
	p[3] = 0x10 | byte(cc&15)
	if len(chunk) == 184 {
		copy(p[4:], chunk)
		return p
	}
	p[3] |= 0x20
	afl := 183 - len(chunk)
	p[4] = byte(afl)
	if afl > 0 {
		p[5] = 0x00
		for i := 6; i < 5+afl; i++ {
			p[i] = 0xff
		}
	}
	copy(p[5+afl:], chunk)
	return p
}

// PaddedPacket builds a payload-only packet whose payload is chunk followed by
// 0xFF padding (the way PSI is usually padded in its last packet).
func PaddedPacket(pid int, cc int, pusi bool, chunk []byte) Pkt {
	var p Pkt
	p[0] = 0x47
	p[1] = byte(pid>>8) & 0x1f
	if pusi {
		p[1] |= 0x40
	}
	p[2] = byte(pid)
	p[3] = 0x10 | byte(cc&15)
	n := copy(p[4:], chunk)
	for i := 4 + n; i < 188; i++ {
		p[i] = 0xff
	}
	return p
}

// Packetise splits payload into packets of the given chunk sizes (the last
// chunk size is reused until the payload is exhausted; sizes are clipped to
// 1..184). padLast pads the final packet with 0xFF payload bytes instead of
// adaptation-field stuffing. It also returns the payload offset at which each
// packet starts.
func Packetise(pid, cc int, payload []byte, chunks []int, padLast bool) (pkts []Pkt, starts []int) {
	off := 0
	for i := 0; off < len(payload); i++ {
		c := 184
		if len(chunks) > 0 {
			if i < len(chunks) {
				c = chunks[i]
			} else {
				c = chunks[len(chunks)-1]
			}
		}
		if c < 1 {
			c = 1
		}
		if c > 184 {
			c = 184
		}
		last := off+c >= len(payload)
		starts = append(starts, off)
		if last {
			rest := payload[off:]
			if padLast {
				pkts = append(pkts, PaddedPacket(pid, cc+i, i == 0, rest))
			} else {
				pkts = append(pkts, PayloadPacket(pid, cc+i, i == 0, rest))
			}
			off = len(payload)
		} else {
			pkts = append(pkts, PayloadPacket(pid, cc+i, i == 0, payload[off:off+c]))
			off += c
		}
	}
	return
}
