package ref

import "verif/harness/internal/gen"

// GenDescs draws up to max descriptors with bodies that are well-formed for
// the tags the library knows how to decode.
func GenDescs(r *gen.Rand, max int) []Desc {
	var ds []Desc
	for i := r.Intn(max + 1); i > 0; i-- {
		d := Desc{Tag: r.PickByte([]byte{0x05, 0x0a, 0x0e, 0x52, 0x7f, 0xe9, 0xcc, 0x09, 0x28, 0xb0, 0x97, 0x02, 0x03, 0x0b, 0x0c, 0x0d, 0x81, 0xfe})}
		if r.Chance(6) {
			// any of the 256 tag values, the ends of the range more often: descriptor_tag is an 8-bit field
			d.Tag = r.PickByte([]byte{0x00, 0xff, 0xff, 0x01, 0x7e, 0x80, byte(r.Intn(256)), byte(r.Intn(256)), byte(r.Intn(256))})
		}
		n := r.Intn(12)
		switch d.Tag {
		case 0x05:
			n = 4 + r.Intn(4)
		case 0x0a:
			n = 4 * (1 + r.Intn(2))
		case 0x0e:
			n = 3
		case 0x52:
			n = 1
		case 0x7f:
			n = 5 + r.Intn(3)
		case 0xb0:
			n = 7 + r.Intn(3) // complete with or without the dependency PID
		case 0xe9, 0xcc:
			n = 0
		}
		if r.Chance(12) && d.Tag != 0x52 && d.Tag != 0x0e && d.Tag != 0x0a && d.Tag != 0x7f && d.Tag != 0x05 && d.Tag != 0xb0 {
			n = r.Intn(60)
		}
		if r.Chance(40) && d.Tag != 0x52 && d.Tag != 0x0e && d.Tag != 0x0a && d.Tag != 0x7f && d.Tag != 0x05 && d.Tag != 0xb0 {
			n = r.PickInt([]int{253, 254, 255, 255}) // the largest bodies descriptor_length can announce
		}
		d.Body = r.Bytes(n)
		if d.Tag == 0x0a {
			for k := 0; k+4 <= n; k += 4 {
				copy(d.Body[k:], []string{"eng", "spa", "fra", "und", "ENG", "Deu", "QAA", "zxx"}[r.Intn(8)]) // (capitals are met in the field)
			}
		}
		if d.Tag == 0x05 && r.Bool() {
			copy(d.Body, r.PickString(RegistrationIDs))
		}
		ds = append(ds, d)
	}
	return ds
}

// RegistrationIDs are format identifiers registered with the SMPTE RA that are
// met in registration descriptors (DOVI, the one the library looks for, most often).
var RegistrationIDs = []string{"DOVI", "DOVI", "DOVI", "DOVI", "AC-3", "EAC3", "HEVC", "CUEI", "HDMV", "BSSD", "DTS1", "DTS2", "DTS3", "VC-1", "KLVA", "ID3 ", "Opus", "drac", "GA94", "SCTE", "dvhe", "mlpa", "AVSV", "AV01", "VANC", "TSHV", "ac-3", "hevc"}

var genStreamTypes = []byte{0x02, 0x1b, 0x24, 0x0f, 0x81, 0x87, 0x86, 0x15, 0x06, 0x03, 0x04, 0x11, 0x88, 0xff, 0x00, 0x80, 0xea}

// GenPMT draws a program map section description with nStreams streams
// (nStreams < 0: random 1..8, occasionally 20..50, occasionally as many as fit).
func GenPMT(r *gen.Rand, nStreams int) PMT {
	p := PMT{Program: uint16(r.Intn(65536)), Version: byte(r.Intn(32)), CurrentNext: r.Bool(), PCRPID: r.Intn(8192)}
	if r.Chance(3) {
		p.Version = r.PickByte([]byte{0, 1, 15, 16, 30, 31})
	}
	p.ProgDescs = GenDescs(r, 2)
	n := nStreams
	if n < 0 {
		n = 1 + r.Intn(8)
		if r.Chance(10) {
			n = 20 + r.Intn(31)
		}
	}
	used := map[int]bool{}
	for i := 0; i < n; i++ {
		pid := 16 + r.Intn(8170)
		if r.Chance(8) {
			pid = r.PickInt([]int{0x10, 0x1f, 0x20, 0xff, 0x100, 0x1000, 0x1ffe, 0x0fff, 0x1fff, 0x1fff}) // (the field is 13 bits wide: its largest value is one like any other)
		}
		for used[pid] {
			pid = 16 + r.Intn(8170)
		}
		used[pid] = true
		maxd := 3
		if n > 20 {
			maxd = 1
		}
		es := ES{Type: genStreamTypes[r.Intn(len(genStreamTypes))], PID: pid, Descs: GenDescs(r, maxd)}
		if r.Chance(12) {
			// the DVB / ATSC way of announcing a codec: a private (or user private) stream type and a
			// registration descriptor that names the format
			es.Type = r.PickByte([]byte{0x06, 0x06, 0x06, 0x06, 0x80, 0x81, 0x05, 0xa0})
			es.Descs = append([]Desc{{Tag: 0x05, Body: append([]byte(r.PickString(RegistrationIDs[4:])), r.Bytes(r.Intn(3))...)}}, es.Descs...)
		}
		p.Streams = append(p.Streams, es)
	}
	if nStreams < 0 && n >= 1 && n <= 8 && r.Chance(30) {
		// one stream with 255 .. 450 descriptors (empty or one byte long): ES_info_length has room for about 500
		k := r.PickInt([]int{255, 256, 257, 300, 400, 256 + r.Intn(195)})
		var ds []Desc
		for j := 0; j < k; j++ {
			d := Desc{Tag: r.PickByte([]byte{0xe9, 0xcc, 0x97, 0xfe, 0x81})}
			if r.Chance(8) && k < 330 {
				d.Body = []byte{r.Byte()}
			}
			ds = append(ds, d)
		}
		if len(p.Streams) > 2 {
			p.Streams = p.Streams[:2]
		}
		p.ProgDescs = nil
		for j := range p.Streams {
			p.Streams[j].Descs = nil
		}
		p.Streams[r.Intn(len(p.Streams))].Descs = ds
		return p
	}
	if nStreams < 0 && r.Chance(25) {
		// a section at (or within a few bytes of) the 1021-byte section_length limit
		for len(p.Section()) < 1024 {
			pid := 16 + r.Intn(8170)
			for used[pid] {
				pid = 16 + r.Intn(8170)
			}
			used[pid] = true
			room := 1024 - len(p.Section()) - 5
			if room < 0 {
				break
			}
			var ds []Desc
			if room >= 2 {
				n := room - 2
				if n > 60 {
					n = r.Intn(60)
				}
				ds = []Desc{{Tag: 0x81, Body: r.Bytes(n)}}
			}
			p.Streams = append(p.Streams, ES{Type: 0x1b, PID: pid, Descs: ds})
		}
	}
	// keep the section within the 1021-byte section_length limit
	for len(p.Section()) > 1024 && len(p.Streams) > 0 {
		p.Streams = p.Streams[:len(p.Streams)-1]
	}
	return p
}

// GenOtherSection draws a complete non-PMT section (table id not 0x02 / 0xFF).
func GenOtherSection(r *gen.Rand) []byte {
	id := r.PickByte([]byte{0x00, 0x01, 0x03, 0x42, 0x4e, 0x70, 0xc8, 0xfc, 0xfe})
	if r.Chance(6) {
		// a short private section (section_syntax_indicator 0: no CRC_32 is required), down to section_length 0
		n := r.Intn(4)
		return append([]byte{r.PickByte([]byte{0x80, 0x90, 0xc0, 0xfe}), 0x30 | byte(r.Intn(2))<<6, byte(n)}, r.Bytes(n)...)
	}
	body := r.Bytes(r.Intn(40))
	flags := byte(0x30) | byte(r.Intn(4))<<6
	sl := len(body) + 4
	sec := append([]byte{id, flags | byte(sl>>8)&0x0f, byte(sl)}, body...)
	return append(sec, BE32(CRC32MPEG2(sec))...)
}

// RandChunks draws chunk sizes for Packetise.
func RandChunks(r *gen.Rand, n int) []int {
	var c []int
	style := r.Intn(4)
	for i := 0; i < n; i++ {
		switch style {
		case 0:
			c = append(c, 184)
		case 1:
			c = append(c, 1+r.Intn(184))
		case 2:
			if r.Bool() {
				c = append(c, 184)
			} else {
				c = append(c, 1+r.Intn(184))
			}
		default:
			c = append(c, r.PickInt([]int{1, 2, 3, 4, 183, 184, 100}))
		}
	}
	return c
}

// ClearReservedPMT clears a PRNG-chosen subset of the reserved bits of a program map section (fixed header and
// elementary-stream entries; receivers ignore them, multiplexers do not all set them) and writes the CRC_32 that
// belongs to the changed bytes. It reports how many bits it cleared.
func ClearReservedPMT(sec []byte, r *gen.Rand) int {
	if len(sec) < 16 {
		return 0
	}
	n := 0
	clr := func(i int, mask byte) {
		m := mask & r.Byte()
		for b := m & sec[i]; b != 0; b &= b - 1 {
			n++
		}
		sec[i] &^= m
	}
	clr(1, 0x30)
	clr(5, 0xc0)
	clr(8, 0xe0)
	clr(10, 0xf0)
	at := 12 + (int(sec[10]&0x0f)<<8 | int(sec[11]))
	for at+5 <= len(sec)-4 {
		clr(at+1, 0xe0)
		clr(at+3, 0xf0)
		at += 5 + (int(sec[at+3]&0x0f)<<8 | int(sec[at+4]))
	}
	copy(sec[len(sec)-4:], BE32(CRC32MPEG2(sec[:len(sec)-4])))
	return n
}
