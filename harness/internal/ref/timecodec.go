package ref

// EncPCR serialises a 42-bit program clock reference (ISO/IEC 13818-1
// 2.4.3.5): program_clock_reference_base 33 uimsbf, reserved 6 bslbf '111111',
// program_clock_reference_extension 9 uimsbf. v = base*300 + ext.
func EncPCR(v uint64) [6]byte {
	var b [6]byte
	SetBits(b[:], 0, 33, v/300)
	SetBits(b[:], 33, 6, 0x3f)
	SetBits(b[:], 39, 9, v%300)
	return b
}

// DecPCR is the inverse of EncPCR and ignores the reserved bits.
func DecPCR(b []byte) uint64 {
	return GetBits(b, 0, 33)*300 + GetBits(b, 33+6, 9)
}

// PCRMax is the exclusive upper bound of PCR values.
const PCRMax = uint64(300) << 33

// EncPTS serialises a 33-bit PTS/DTS (ISO/IEC 13818-1 2.4.3.7): 4-bit prefix,
// [32..30], marker, [29..15], marker, [14..0], marker.
func EncPTS(prefix byte, v uint64) [5]byte {
	var b [5]byte
	SetBits(b[:], 0, 4, uint64(prefix))
	SetBits(b[:], 4, 3, v>>30)
	SetBits(b[:], 7, 1, 1)
	SetBits(b[:], 8, 15, v>>15)
	SetBits(b[:], 23, 1, 1)
	SetBits(b[:], 24, 15, v)
	SetBits(b[:], 39, 1, 1)
	return b
}

// DecPTS reads the 33 value bits only.
func DecPTS(b []byte) uint64 {
	return GetBits(b, 4, 3)<<30 | GetBits(b, 8, 15)<<15 | GetBits(b, 24, 15)
}

// PTSValueMask has a 1 for every value bit of the 5-byte field.
var PTSValueMask = [5]byte{0x0e, 0xff, 0xfe, 0xff, 0xfe}

// PTSMarkerMask has a 1 for the three marker bits.
var PTSMarkerMask = [5]byte{0x01, 0x00, 0x01, 0x00, 0x01}
