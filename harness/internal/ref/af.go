package ref

// Logical model of a transport packet with an adaptation field and its
// ISO/IEC 13818-1 (2.4.3.4/2.4.3.5) serialisation.

type AF struct {
	DI, RAI, ESPI bool
	PCR, OPCR     *[6]byte // raw 6-byte fields
	Splice        *byte
	TPD, Ext      *[]byte
}

// Content is the flags byte followed by the optional fields in standard
// order: what occupies the adaptation field when adaptation_field_length > 0.
func (a *AF) Content() []byte {
	var f byte
	var body []byte
	if a.DI {
		f |= 0x80
	}
	if a.RAI {
		f |= 0x40
	}
	if a.ESPI {
		f |= 0x20
	}
	if a.PCR != nil {
		f |= 0x10
		body = append(body, a.PCR[:]...)
	}
	if a.OPCR != nil {
		f |= 0x08
		body = append(body, a.OPCR[:]...)
	}
	if a.Splice != nil {
		f |= 0x04
		body = append(body, *a.Splice)
	}
	if a.TPD != nil {
		f |= 0x02
		body = append(body, byte(len(*a.TPD)))
		body = append(body, *a.TPD...)
	}
	if a.Ext != nil {
		f |= 0x01
		body = append(body, byte(len(*a.Ext)))
		body = append(body, *a.Ext...)
	}
	return append([]byte{f}, body...)
}

func (a *AF) Size() int { return len(a.Content()) }

func (a AF) Clone() AF {
	c := a
	if a.PCR != nil {
		v := *a.PCR
		c.PCR = &v
	}
	if a.OPCR != nil {
		v := *a.OPCR
		c.OPCR = &v
	}
	if a.Splice != nil {
		v := *a.Splice
		c.Splice = &v
	}
	if a.TPD != nil {
		v := append([]byte{}, *a.TPD...)
		c.TPD = &v
	}
	if a.Ext != nil {
		v := append([]byte{}, *a.Ext...)
		c.Ext = &v
	}
	return c
}

// TSPacket is a whole packet: 4 header bytes, optional adaptation field of
// length L (L == 0: only the length byte), payload.
type TSPacket struct {
	Hdr     [4]byte // AFC bits in Hdr[3] are authoritative
	L       int     // adaptation_field_length when the AF flag is set
	AF      AF      // meaningful when L > 0
	Payload []byte  // exactly the bytes after the header / adaptation field
}

func (m *TSPacket) HasAF() bool      { return m.Hdr[3]&0x20 != 0 }
func (m *TSPacket) HasPayload() bool { return m.Hdr[3]&0x10 != 0 }

// HeaderLen is 4, plus 1+L when an adaptation field is present.
func (m *TSPacket) HeaderLen() int {
	if m.HasAF() {
		return 5 + m.L
	}
	return 4
}

// Bytes serialises the packet; stuffing is 0xFF.
func (m *TSPacket) Bytes() Pkt {
	var p Pkt
	copy(p[:4], m.Hdr[:])
	at := 4
	if m.HasAF() {
		p[4] = byte(m.L)
		if m.L > 0 {
			c := m.AF.Content()
			copy(p[5:], c)
			for i := 5 + len(c); i < 5+m.L && i < 188; i++ {
				p[i] = 0xff
			}
		}
		at = 5 + m.L
	}
	if at < 188 {
		copy(p[at:], m.Payload)
	}
	return p
}

func (m TSPacket) Clone() TSPacket {
	c := m
	c.AF = m.AF.Clone()
	c.Payload = append([]byte{}, m.Payload...)
	return c
}
