package ref

import "time"

// EBP is the ground truth of an encoder boundary point of either flavour
// (Comcast private data tag 0xA9; CableLabs OC-SP-EBP-I01 tag 0xDF with
// format identifier "EBP0").
type EBP struct {
	CableLabs  bool
	Flags      byte   // fragment 80, segment 40, SAP 20, grouping 10, time 08, concealment/discontinuity 04, reserved 02, extension 01
	Ext        byte   // present when Flags&01; CableLabs: partition flag 80
	Sap        byte   // present when Flags&20
	Groups     []byte // present when Flags&10; CableLabs: chain of 7-bit ids, Comcast: exactly one 8-bit id
	Sec, Frac  uint32 // present when Flags&08
	Partitions byte   // CableLabs, present when Flags&01 and Ext&80
	Reserved   []byte // trailing bytes
}

func (e *EBP) Tag() byte {
	if e.CableLabs {
		return 0xDF
	}
	return 0xA9
}

// Bytes serialises the EBP: tag, length, body.
func (e *EBP) Bytes() []byte {
	var b []byte
	if e.CableLabs {
		b = append(b, 'E', 'B', 'P', '0')
	}
	b = append(b, e.Flags)
	if e.Flags&0x01 != 0 {
		b = append(b, e.Ext)
	}
	if e.Flags&0x20 != 0 {
		b = append(b, e.Sap)
	}
	if e.Flags&0x10 != 0 {
		if e.CableLabs {
			for i, g := range e.Groups {
				x := g & 0x7f
				if i < len(e.Groups)-1 {
					x |= 0x80
				}
				b = append(b, x)
			}
		} else {
			b = append(b, e.Groups[0])
		}
	}
	if e.Flags&0x08 != 0 {
		b = append(b, BE32(e.Sec)...)
		b = append(b, BE32(e.Frac)...)
	}
	if e.CableLabs && e.Flags&0x01 != 0 && e.Ext&0x80 != 0 {
		b = append(b, e.Partitions)
	}
	b = append(b, e.Reserved...)
	return append([]byte{e.Tag(), byte(len(b))}, b...)
}

// NTP era bases used by the EBP time field.
var (
	NTPEra0 = time.Date(1900, 1, 1, 0, 0, 0, 0, time.UTC)
	NTPEra1 = time.Date(2036, 2, 7, 6, 28, 16, 0, time.UTC)
)

// NTPInstant converts a 32.32 NTP-style timestamp to an instant: seconds with
// the top bit set count from 1900, others from 2036-02-07T06:28:16Z; the
// fraction is converted to whole nanoseconds (truncated).
func NTPInstant(sec, frac uint32) time.Time {
	base := NTPEra1
	if sec&0x80000000 != 0 {
		base = NTPEra0
	}
	ns := (uint64(frac) * 1000000000) >> 32
	// time.Duration holds ~292 years: add in two steps to stay exact
	return base.Add(time.Duration(sec) * time.Second).Add(time.Duration(ns))
}

// EBPTimeRange is the representable range of the field: [lo, hi).
func EBPTimeRange() (lo, hi time.Time) {
	lo = NTPEra0.Add(time.Duration(1<<31) * time.Second) // 1968-01-20T03:14:08Z
	hi = NTPEra1.Add(time.Duration(1<<31) * time.Second) // 2104-02-26T09:42:24Z
	return
}

// SyncSignal is the first grouping id equal to 0x1C / 0x1D, else 0xFF.
func (e *EBP) SyncSignal() byte {
	if e.Flags&0x10 == 0 {
		return 0xff
	}
	for _, g := range e.Groups {
		if !e.CableLabs || true {
			v := g
			if e.CableLabs {
				v &= 0x7f
			}
			if v == 0x1c || v == 0x1d {
				return v
			}
		}
	}
	return 0xff
}
