// Package ref holds the reference models the monitors compare the library
// against: bit tables transcribed from ISO/IEC 13818-1, SCTE 35 and the EBP
// specifications, serialisers built on them, CRC-32/MPEG-2, and small
// sequential models. Nothing in this package imports the library under test.
package ref

// GetBits reads width bits starting at bit offset off (bit 0 = MSB of b[0]).
func GetBits(b []byte, off, width int) uint64 {
	var v uint64
	for i := 0; i < width; i++ {
		bit := off + i
		v = v<<1 | uint64(b[bit>>3]>>(7-uint(bit&7))&1)
	}
	return v
}

// SetBits writes the low width bits of v at bit offset off.
func SetBits(b []byte, off, width int, v uint64) {
	for i := 0; i < width; i++ {
		bit := off + i
		mask := byte(1) << (7 - uint(bit&7))
		if v>>(uint(width-1-i))&1 == 1 {
			b[bit>>3] |= mask
		} else {
			b[bit>>3] &^= mask
		}
	}
}

// Transport packet header fields (ISO/IEC 13818-1 table 2-2): bit offset, width.
type HField struct {
	Name       string
	Off, Width int
}

var (
	HSync = HField{"sync_byte", 0, 8}
	HTEI  = HField{"transport_error_indicator", 8, 1}
	HPUSI = HField{"payload_unit_start_indicator", 9, 1}
	HTP   = HField{"transport_priority", 10, 1}
	HPID  = HField{"PID", 11, 13}
	HTSC  = HField{"transport_scrambling_control", 24, 2}
	HAFC  = HField{"adaptation_field_control", 26, 2}
	HCC   = HField{"continuity_counter", 28, 4}
)

func (f HField) Get(p []byte) uint64    { return GetBits(p, f.Off, f.Width) }
func (f HField) Set(p []byte, v uint64) { SetBits(p, f.Off, f.Width, v) }

// FirstDiff returns the first index at which a and b differ, or -1.
func FirstDiff(a, b []byte) int {
	n := len(a)
	if len(b) < n {
		n = len(b)
	}
	for i := 0; i < n; i++ {
		if a[i] != b[i] {
			return i
		}
	}
	if len(a) != len(b) {
		return n
	}
	return -1
}
