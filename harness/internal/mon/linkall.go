package mon

// Every worker links the whole library, as a program that demultiplexes a
// transport stream does: what one package registers or initialises when it is
// loaded (init functions, package-level tables, hooks installed in another
// package) is then in effect for the calls the worker makes, whichever package
// they go to.
import (
	_ "github.com/Comcast/gots/v2"
	_ "github.com/Comcast/gots/v2/ebp"
	_ "github.com/Comcast/gots/v2/packet"
	_ "github.com/Comcast/gots/v2/packet/adaptationfield"
	_ "github.com/Comcast/gots/v2/pes"
	_ "github.com/Comcast/gots/v2/psi"
	_ "github.com/Comcast/gots/v2/scte35"
)
