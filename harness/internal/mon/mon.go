// Package mon is the monitor runtime shared by every property worker: it
// drives named case streams under recover(), gives each case its own PRNG,
// collects evaluations / distinct case classes / counters / samples /
// violations and writes one JSON result per worker process for verifctl to
// merge. It never imports the library under test.
package mon

import (
	"bufio"
	"encoding/json"
	"flag"
	"fmt"
	"os"
	"reflect"
	"regexp"
	"runtime"
	"runtime/debug"
	"runtime/metrics"
	"sort"
	"strings"
	"sync"
	"sync/atomic"
	"syscall"
	"time"

	"verif/harness/internal/gen"
)

// Viol is one de-duplicated violation signature with its first witness.
type Viol struct {
	Sig     string      `json:"sig"`
	What    string      `json:"what"`
	Witness interface{} `json:"witness,omitempty"`
	Stream  string      `json:"stream"`
	Index   int         `json:"index"`
	Count   int64       `json:"count"`
}

// Result is what one worker process reports.
type Result struct {
	Prop        string            `json:"prop"`
	Tier        string            `json:"tier"`
	Seed        uint64            `json:"seed"`
	Shard       int               `json:"shard"`
	NShards     int               `json:"nshards"`
	Evaluations int64             `json:"evaluations"`
	Classes     []string          `json:"classes"`
	Counters    map[string]int64  `json:"counters"`
	Floors      map[string]int64  `json:"floors"`
	Exhaustive  map[string]int64  `json:"exhaustive_subspaces"`
	Streams     map[string]int64  `json:"streams"`
	Samples     []interface{}     `json:"samples"`
	Violations  []*Viol           `json:"violations"`
	Rule        string            `json:"rule"`
	Assumptions []string          `json:"assumptions"`
	Notes       map[string]string `json:"notes,omitempty"`
	Completed   bool              `json:"completed"`
}

// Ctx is handed to the property's run function.
type Ctx struct {
	Prop    string
	Tier    string
	Seed    uint64
	Shard   int
	NShards int

	replay       bool
	replayStream string
	replayIndex  int
	resumeStream string // skip everything up to and including (resumeStream,resumeIndex)
	resumeIndex  int
	resuming     bool
	outPath      string
	curPath      string
	curFile      *os.File
	curMap       []byte

	res          Result
	classes      map[string]struct{}
	viol         map[string]*Viol
	maxSamp      int
	curS         string
	curI         int
	caseSeq      uint64 // bumped at the start of each guarded call (watchdog)
	externalWait int32
	curInput     atomic.Value

	// stream rotation (see streamTurn)
	pass, ord, rotStart, nStreams int
	inCase, firstSeen             bool
	only                          []string // when set, only streams whose name starts with one of these run
}

// maxClasses caps the class signatures one worker keeps in memory.
const maxClasses = 60000

// Thorough reports whether the thorough tier was requested.
func (c *Ctx) Thorough() bool { return c.Tier == "thorough" }

// N picks a size by tier.
func (c *Ctx) N(quick, thorough int) int {
	if c.Thorough() {
		return thorough
	}
	return quick
}

// Replaying is true when a single recorded case is being re-executed.
func (c *Ctx) Replaying() bool { return c.replay }

// Tracef prints only while replaying.
func (c *Ctx) Tracef(format string, a ...interface{}) {
	if c.replay {
		fmt.Printf("  | "+format+"\n", a...)
	}
}

// Rule sets the evidence rule text.
func (c *Ctx) Rule(s string) { c.res.Rule = s }

// Assume records an assumption for the evidence file.
func (c *Ctx) Assume(s string) { c.res.Assumptions = append(c.res.Assumptions, s) }

// Note attaches a free-form key/value to the evidence.
func (c *Ctx) Note(k, v string) {
	if c.res.Notes == nil {
		c.res.Notes = map[string]string{}
	}
	c.res.Notes[k] = v
}

// Floor declares that the (summed) counter must reach at least n for the run
// to be conclusive.
func (c *Ctx) Floor(counter string, n int64) { c.res.Floors[counter] = n }

// Exhaustive records that a finite sub-space of the given size is enumerated
// completely by this run (across all shards).
func (c *Ctx) Exhaustive(name string, size int64) { c.res.Exhaustive[name] = size }

// Eval counts n evaluated cases.
func (c *Ctx) Eval(n int) {
	if c.counting() {
		c.res.Evaluations += int64(n)
	}
}

// counting: code of the run function outside any stream is executed once per pass; it counts in the first
// executing pass only.
func (c *Ctx) counting() bool { return c.inCase || c.pass == 1 }

// Count bumps a named counter.
func (c *Ctx) Count(name string) {
	if c.counting() {
		c.res.Counters[name]++
	}
}

// CountN adds to a named counter.
func (c *Ctx) CountN(name string, n int) {
	if c.counting() {
		c.res.Counters[name] += int64(n)
	}
}

// Class registers the signature of a non-trivial case class; it returns true
// when the class was not seen before in this worker.
func (c *Ctx) Class(sig string) bool {
	if _, ok := c.classes[sig]; ok {
		return false
	}
	if len(c.classes) >= maxClasses {
		// counted conservatively: further classes are not recorded (the evidence says so)
		c.res.Counters["classes_not_recorded_after_cap"]++
		return false
	}
	c.classes[sig] = struct{}{}
	return true
}

// Sample keeps up to a handful of fully written-out cases.
func (c *Ctx) Sample(f func() interface{}) {
	if len(c.res.Samples) < c.maxSamp {
		c.res.Samples = append(c.res.Samples, f())
	}
}

// WantSample reports whether another sample would be kept.
func (c *Ctx) WantSample() bool { return len(c.res.Samples) < c.maxSamp }

// Fail records a violation. sig must be a precise, stable signature (no line
// numbers, no addresses); witness is kept for the first occurrence only.
func (c *Ctx) Fail(sig, what string, witness interface{}) {
	if c.replay {
		fmt.Printf("  ! VIOLATED sig=%s\n  ! %s\n", sig, what)
	}
	v := c.viol[sig]
	if v == nil {
		v = &Viol{Sig: sig, What: what, Witness: witness, Stream: c.curS, Index: c.curI}
		c.viol[sig] = v
	}
	v.Count++
}

// Failf is Fail with a formatted description and no separate witness.
func (c *Ctx) Failf(sig string, witness interface{}, format string, a ...interface{}) {
	c.Fail(sig, fmt.Sprintf(format, a...), witness)
}

var frameRe = regexp.MustCompile(`github\.com/Comcast/gots/v2[/a-z0-9]*\.(\(\*?[A-Za-z0-9_]+\)\.)?[A-Za-z0-9_]+`)
var numRe = regexp.MustCompile(`\[[^\]]*\]|-?[0-9]+`)

// PanicSite returns "innermost gots frame : panic class" for a recovered
// value, using the current goroutine's stack (call it inside the deferred
// function that recovered).
func PanicSite(r interface{}) string {
	st := string(debug.Stack())
	fr := frameRe.FindAllString(st, -1)
	top := "?"
	if len(fr) > 0 {
		top = strings.TrimPrefix(fr[0], "github.com/Comcast/gots/v2")
		top = strings.TrimPrefix(top, "/")
	}
	msg := fmt.Sprint(r)
	msg = numRe.ReplaceAllString(msg, "N")
	if len(msg) > 80 {
		msg = msg[:80]
	}
	return top + " : " + msg
}

// Guard runs f and converts a panic into a violation of the calling stream's
// property. entry names the API entry point. It returns false if f panicked.
func (c *Ctx) Guard(entry string, witness func() interface{}, f func()) (ok bool) {
	atomic.AddUint64(&c.caseSeq, 1)
	defer func() {
		if r := recover(); r != nil {
			site := PanicSite(r)
			var w interface{}
			if witness != nil {
				w = witness()
			}
			c.Fail("panic: "+entry+" > "+site, fmt.Sprintf("%s panicked: %v", entry, r), w)
			ok = false
		}
	}()
	f()
	return true
}

// Stream runs cases 0..total-1 of a named generator; this worker executes the
// indices of its shard. Every case gets a PRNG that depends only on
// (seed, property, stream name, index).
func (c *Ctx) Stream(name string, total int, f func(i int, r *gen.Rand)) {
	if !c.streamTurn(name) {
		return
	}
	c.res.Streams[name] = int64(total)
	h := gen.HashString(c.Prop + "/" + name)
	for i := c.Shard; i < total; i += c.NShards {
		if c.replay && (name != c.replayStream || i != c.replayIndex) {
			continue
		}
		if c.resuming {
			if name == c.resumeStream && i == c.resumeIndex {
				c.resuming = false
			}
			continue
		}
		c.curS, c.curI = name, i
		r := gen.New(c.Seed, h, uint64(i))
		c.runCase(name, i, r, f)
	}
}

// StreamSeedless is Stream for exhaustive enumerations: the PRNG handed to the
// case does not depend on VERIF_SEED.
func (c *Ctx) StreamSeedless(name string, total int, f func(i int, r *gen.Rand)) {
	if !c.streamTurn(name) {
		return
	}
	c.res.Streams[name] = int64(total)
	h := gen.HashString(c.Prop + "/" + name)
	for i := c.Shard; i < total; i += c.NShards {
		if c.replay && (name != c.replayStream || i != c.replayIndex) {
			continue
		}
		if c.resuming {
			if name == c.resumeStream && i == c.resumeIndex {
				c.resuming = false
			}
			continue
		}
		c.curS, c.curI = name, i
		r := gen.New(0x5eed1e55, h, uint64(i))
		c.runCase(name, i, r, f)
	}
}

// streamTurn implements the rotation of the stream order: the run function is executed three times per worker
// process - a dry pass that only counts the streams, a pass that runs the streams from this shard's starting
// ordinal on, and a pass that runs the ones before it. Every stream of a worker is therefore the first thing
// some worker process asks of the library (state that the library builds on first use is built by a different
// operation in each process). Streams named "cold-start..." keep their place at the very beginning.
func (c *Ctx) streamTurn(name string) bool {
	ord := c.ord
	c.ord++
	cold := strings.HasPrefix(name, "cold-start")
	turn := false
	switch c.pass {
	case 0:
		c.nStreams++
	case 1:
		turn = cold || ord >= c.rotStart
	default:
		turn = !cold && ord < c.rotStart
	}
	if turn && len(c.only) > 0 {
		turn = false
		for _, p := range c.only {
			if strings.HasPrefix(name, p) {
				turn = true
			}
		}
	}
	if turn && !c.firstSeen && !c.replay {
		c.firstSeen = true
		c.res.Counters["process.first_stream/"+name]++
	}
	return turn
}

func (c *Ctx) runCase(name string, i int, r *gen.Rand, f func(i int, r *gen.Rand)) {
	atomic.AddUint64(&c.caseSeq, 1)
	if c.curMap != nil {
		c.persistCur(nil)
	}
	c.inCase = true
	defer func() {
		if rec := recover(); rec != nil {
			site := PanicSite(rec)
			c.Fail("panic: "+name+" > "+site, fmt.Sprintf("case %s[%d] panicked: %v", name, i, rec), nil)
		}
		c.inCase = false
	}()
	f(i, r)
}

// PersistInput records (on disk, before the call) the entry point and input
// about to be exercised, so that a child that dies can be attributed.
func (c *Ctx) PersistInput(entry string, input []byte) {
	atomic.AddUint64(&c.caseSeq, 1)
	c.curInput.Store(curIn{entry, input})
	if c.curMap != nil {
		c.persistCur(&curIn{entry, input})
	}
}

type curIn struct {
	Entry string
	Input []byte
}

// The "case about to run" record lives in a file mapped MAP_SHARED: updating
// it costs no system call, and the kernel keeps the pages when the process
// dies. Layout: 4-byte little-endian length, then one JSON header line
// followed by the raw input bytes.
const curMapSize = 1 << 20

func (c *Ctx) persistCur(in *curIn) {
	if c.curMap == nil {
		return
	}
	hdr := fmt.Sprintf("{\"stream\":%q,\"index\":%d", c.curS, c.curI)
	var raw []byte
	if in != nil {
		hdr += fmt.Sprintf(",\"entry\":%q", in.Entry)
		raw = in.Input
	}
	hdr += "}\n"
	c.writeCur(hdr, raw)
}

func (c *Ctx) writeCur(hdr string, raw []byte) {
	m := c.curMap
	m[0], m[1], m[2], m[3] = 0, 0, 0, 0
	n := copy(m[4:], hdr)
	n += copy(m[4+n:], raw)
	m[0], m[1], m[2], m[3] = byte(n), byte(n>>8), byte(n>>16), byte(n>>24)
}

// Watchdog starts a goroutine that ends the process (exit 3) when the heap
// in use crosses heapLimit bytes or when a single guarded call has consumed
// more than cpuLimit of process CPU time. The current case was persisted
// before the call, so verifctl can attribute the death.
func (c *Ctx) Watchdog(heapLimit uint64, cpuLimit time.Duration) {
	go func() {
		samples := []metrics.Sample{{Name: "/memory/classes/heap/objects:bytes"}}
		var lastSeq uint64
		var cpuAtSeq time.Duration
		var seqSince, lastStack time.Time
		blockedSamples := 0
		for {
			time.Sleep(25 * time.Millisecond)
			metrics.Read(samples)
			heap := samples[0].Value.Uint64()
			seq := atomic.LoadUint64(&c.caseSeq)
			cpu := processCPU()
			if seq != lastSeq {
				lastSeq, cpuAtSeq = seq, cpu
				seqSince, blockedSamples = time.Now(), 0
			}
			reason := ""
			// a call that neither returns nor burns CPU: the worker is single-goroutine, so a main goroutine
			// parked on a lock / channel can never be woken. Decided on the goroutine state seen in repeated
			// stack samples, not on elapsed time alone.
			if atomic.LoadInt32(&c.externalWait) == 0 && time.Since(seqSince) > 3*time.Second && time.Since(lastStack) > time.Second {
				lastStack = time.Now()
				if st := mainGoroutineState(); parked[st] {
					blockedSamples++
					if blockedSamples >= 8 {
						reason = "blocked-forever (" + st + ")"
					}
				} else {
					blockedSamples = 0
				}
			}
			if heap > heapLimit {
				reason = "heap-ceiling"
			} else if cpu-cpuAtSeq > cpuLimit {
				reason = "cpu-limit"
			}
			if reason != "" {
				if c.curMap != nil {
					in, _ := c.curInput.Load().(curIn)
					rec := map[string]interface{}{"stream": c.curS, "index": c.curI, "entry": in.Entry, "reason": reason, "heap": heap}
					b, _ := json.Marshal(rec)
					c.writeCur(string(b)+"\n", in.Input)
				}
				fmt.Fprintf(os.Stderr, "WATCHDOG %s stream=%s index=%d heap=%d\n", reason, c.curS, c.curI, heap)
				os.Exit(3)
			}
		}
	}()
}

var parked = map[string]bool{"semacquire": true, "sync.Mutex.Lock": true, "sync.RWMutex.Lock": true, "sync.RWMutex.RLock": true,
	"chan receive": true, "chan send": true, "select": true, "select (no cases)": true, "sync.Cond.Wait": true, "sync.WaitGroup.Wait": true,
	"chan receive (nil chan)": true, "chan send (nil chan)": true}

// mainGoroutineState returns the wait state of goroutine 1 as the runtime prints it.
func mainGoroutineState() string {
	buf := make([]byte, 1<<16)
	n := runtime.Stack(buf, true)
	s := string(buf[:n])
	i := strings.Index(s, "goroutine 1 [")
	if i < 0 {
		return ""
	}
	s = s[i+len("goroutine 1 ["):]
	j := strings.IndexAny(s, ",]")
	if j < 0 {
		return ""
	}
	return s[:j]
}

// ExternalWait brackets a section in which the main goroutine legitimately waits for something outside
// the library (a child process): the blocked-forever detector is off meanwhile.
func (c *Ctx) ExternalWait(f func()) {
	atomic.AddInt32(&c.externalWait, 1)
	defer atomic.AddInt32(&c.externalWait, -1)
	f()
}

func processCPU() time.Duration {
	var ru syscall.Rusage
	if err := syscall.Getrusage(syscall.RUSAGE_SELF, &ru); err != nil {
		return 0
	}
	return time.Duration(ru.Utime.Nano() + ru.Stime.Nano())
}

// ProcessCPU is the CPU time (user + system) this process has used so far: a load-independent clock for cost
// comparisons between two calls of one process.
func ProcessCPU() time.Duration { return processCPU() }

// Main is the worker entry point.
func Main(prop string, run func(c *Ctx)) {
	var (
		tier     = flag.String("tier", "quick", "quick|thorough")
		seed     = flag.Uint64("seed", 1, "VERIF_SEED")
		shard    = flag.Int("shard", 0, "")
		nshards  = flag.Int("nshards", 1, "")
		out      = flag.String("out", "", "result file")
		cur      = flag.String("cur", "", "file that receives the case about to run (C05)")
		rstream  = flag.String("replay-stream", "", "")
		rindex   = flag.Int("replay-index", -1, "")
		resumeS  = flag.String("resume-stream", "", "")
		resumeI  = flag.Int("resume-index", -1, "")
		maxprocs = flag.Int("maxprocs", 2, "")
		only     = flag.String("only", "", "comma-separated stream-name prefixes: run only these streams (race-detector pass)")
	)
	flag.Parse()
	runtime.GOMAXPROCS(*maxprocs)
	c := &Ctx{Prop: prop, Tier: *tier, Seed: *seed, Shard: *shard, NShards: *nshards, outPath: *out, curPath: *cur,
		classes: map[string]struct{}{}, viol: map[string]*Viol{}, maxSamp: 4}
	c.res = Result{Prop: prop, Tier: *tier, Seed: *seed, Shard: *shard, NShards: *nshards,
		Counters: map[string]int64{}, Floors: map[string]int64{}, Exhaustive: map[string]int64{}, Streams: map[string]int64{}}
	if *only != "" {
		c.only = strings.Split(*only, ",")
	}
	if *rindex >= 0 {
		c.replay, c.replayStream, c.replayIndex = true, *rstream, *rindex
		// a replay must visit the recorded index whatever the shard layout was
		c.Shard, c.NShards = 0, 1
		fmt.Printf("replaying %s case %s[%d] seed=%d tier=%s\n", prop, *rstream, *rindex, *seed, *tier)
	}
	if *resumeI >= 0 {
		c.resuming, c.resumeStream, c.resumeIndex = true, *resumeS, *resumeI
	}
	if *cur != "" {
		f, err := os.OpenFile(*cur, os.O_CREATE|os.O_RDWR|os.O_TRUNC, 0o644)
		if err == nil && f.Truncate(curMapSize) == nil {
			if m, err := syscall.Mmap(int(f.Fd()), 0, curMapSize, syscall.PROT_READ|syscall.PROT_WRITE, syscall.MAP_SHARED); err == nil {
				c.curFile, c.curMap = f, m
			}
		}
	}
	if c.replay {
		c.pass = 1
		run(c)
	} else {
		c.pass = 0
		run(c)
		if c.nStreams > 0 {
			c.rotStart = c.Shard % c.nStreams
		}
		c.res.Counters = map[string]int64{}
		c.res.Evaluations = 0
		c.pass, c.ord = 1, 0
		run(c)
		if c.rotStart > 0 {
			c.pass, c.ord = 2, 0
			run(c)
		}
	}
	c.finish()
}

func (c *Ctx) finish() {
	c.res.Completed = true
	for k := range c.classes {
		c.res.Classes = append(c.res.Classes, k)
	}
	sort.Strings(c.res.Classes)
	for _, v := range c.viol {
		c.res.Violations = append(c.res.Violations, v)
	}
	sort.Slice(c.res.Violations, func(i, j int) bool { return c.res.Violations[i].Sig < c.res.Violations[j].Sig })
	if c.replay {
		if len(c.res.Violations) == 0 {
			fmt.Println("replay verdict: held (the recorded case no longer violates the property)")
			os.Exit(0)
		}
		fmt.Printf("replay verdict: violated (%d signature(s))\n", len(c.res.Violations))
		os.Exit(1)
	}
	if c.outPath == "" {
		b, _ := json.MarshalIndent(c.res, "", " ")
		os.Stdout.Write(b)
		return
	}
	f, err := os.Create(c.outPath + ".tmp")
	if err != nil {
		fmt.Fprintln(os.Stderr, "mon: cannot write result:", err)
		os.Exit(4)
	}
	w := bufio.NewWriter(f)
	enc := json.NewEncoder(w)
	if err := enc.Encode(&c.res); err != nil {
		fmt.Fprintln(os.Stderr, "mon: cannot encode result:", err)
		os.Exit(4)
	}
	w.Flush()
	f.Close()
	os.Rename(c.outPath+".tmp", c.outPath)
}

// Hex renders bytes for witnesses.
func Hex(b []byte) string { return fmt.Sprintf("%x", b) }

// Concurrent runs f from g goroutines at once, n calls each, every goroutine with a PRNG of its own
// (derived from r, so the inputs are a fixed list; the interleaving is not). f builds its own input, calls
// the library and returns "" when the result is the expected one, or a description of the mismatch. The
// library functions exercised this way are functions of their arguments: what another goroutine is doing
// at the same time must not matter. A mismatch is reported under "concurrent:<name>".
func (c *Ctx) Concurrent(name string, g, n int, r *gen.Rand, f func(q *gen.Rand) string) {
	prev := runtime.GOMAXPROCS(4)
	defer runtime.GOMAXPROCS(prev)
	seeds := make([]uint64, g)
	for i := range seeds {
		seeds[i] = r.Uint64()
		if i%4 == 3 {
			seeds[i] = seeds[i-1] // two of every four goroutines ask exactly the same questions at the same time
		}
	}
	var mu sync.Mutex
	var bad []string
	var wg sync.WaitGroup
	for i := 0; i < g; i++ {
		wg.Add(1)
		go func(q *gen.Rand) {
			defer wg.Done()
			defer func() {
				if p := recover(); p != nil {
					mu.Lock()
					bad = append(bad, fmt.Sprintf("panic: %v", p))
					mu.Unlock()
				}
			}()
			for k := 0; k < n; k++ {
				if s := f(q); s != "" {
					mu.Lock()
					if len(bad) < 3 {
						bad = append(bad, s)
					}
					mu.Unlock()
				}
			}
		}(gen.New(seeds[i], 0xc0c0))
	}
	wg.Wait()
	c.Eval(g * n)
	c.CountN("concurrent.calls", g*n)
	if len(bad) > 0 {
		c.Fail("concurrent:"+name, fmt.Sprintf("with %d goroutines calling %s on inputs of their own at the same time: %s", g, name, bad[0]),
			map[string]interface{}{"mismatches": bad, "note": "the inputs are a fixed list, the interleaving is not reproducible; the sequential streams hold for inputs of the same kind"})
	}
}

// ConcurrentReaders builds one object per round (build returns a closure that reads it through read-only
// operations and returns "" when everything read is what was encoded, or a description of the mismatch) and lets
// eight goroutines, released together, run that closure twice each. Operations that only read their receiver may
// be called on one object from several goroutines at once; an implementation that fills something in lazily on
// first use has to do so without being seen half-way. A mismatch is reported under "concurrent-readers:<name>".
func (c *Ctx) ConcurrentReaders(name string, rounds int, r *gen.Rand, build func(q *gen.Rand) func() string) {
	prev := runtime.GOMAXPROCS(4)
	defer runtime.GOMAXPROCS(prev)
	const g = 8
	for round := 0; round < rounds; round++ {
		check := build(r)
		if check == nil {
			continue
		}
		var arrived int32
		var mu sync.Mutex
		var bad []string
		var wg sync.WaitGroup
		for i := 0; i < g; i++ {
			wg.Add(1)
			go func() {
				defer wg.Done()
				defer func() {
					if p := recover(); p != nil {
						mu.Lock()
						bad = append(bad, fmt.Sprintf("panic: %v", p))
						mu.Unlock()
					}
				}()
				for atomic.AddInt32(&arrived, 1); atomic.LoadInt32(&arrived) < g; {
					runtime.Gosched()
				}
				for k := 0; k < 2; k++ {
					if s := check(); s != "" {
						mu.Lock()
						if len(bad) < 3 {
							bad = append(bad, s)
						}
						mu.Unlock()
					}
				}
			}()
		}
		wg.Wait()
		c.Eval(2 * g)
		c.CountN("concurrent.reads_of_a_shared_object", 2*g)
		if len(bad) > 0 {
			c.Fail("concurrent-readers:"+name, fmt.Sprintf("with %d goroutines reading one %s at the same time (nobody writes to it): %s", g, name, bad[0]),
				map[string]interface{}{"mismatches": bad, "note": "the objects are a fixed list, the interleaving is not reproducible; a single goroutine reads the same values correctly"})
			return
		}
	}
}

// Keeper holds on to objects the code under test handed out and looks at them
// again after the process has made 1, 2, 63, 64, 65, ... 4095 further objects
// of the kind: what an object reports must not depend on how many were made
// after it (recycled storage, rings and pools with a fixed number of slots,
// counters that wrap). A kept item is a closure that compares what the object
// reports now with what it reported when it was new and returns "" if nothing
// changed.
type Keeper struct {
	ring [4096]func() string
	n    int
}

var keeperAges = []int{1, 2, 3, 15, 16, 17, 31, 32, 33, 63, 64, 65, 127, 128, 129, 255, 256, 257, 511, 512, 513, 1023, 1024, 1025, 2047, 2048, 2049, 4094, 4095}

// Keep stores the item and re-examines the items kept 1 ... 4095 objects ago
// (two of the listed ages per call, chosen by the case's generator; every age
// is reached many times over a stream). A changed object is reported as
// kept:<name>.
func (k *Keeper) Keep(c *Ctx, name string, r *gen.Rand, still func() string) {
	for j := 0; j < 2; j++ {
		age := keeperAges[r.Intn(len(keeperAges))]
		if age > k.n {
			continue
		}
		if f := k.ring[(k.n-age)%len(k.ring)]; f != nil {
			c.Count("kept." + name + ".looked_at_again")
			if age >= 64 {
				c.Count("kept." + name + ".looked_at_again_after_64_or_more_later_objects")
			}
			if msg := f(); msg != "" {
				c.Fail("kept:"+name, fmt.Sprintf("%s, looked at again after %d more had been made in the process: %s", name, age, msg), map[string]interface{}{"age": age, "what": msg})
			}
		}
	}
	k.ring[k.n%len(k.ring)] = still
	k.n++
}

// Printed calls everything that renders x as text - the fmt verbs and every
// exported method of the concrete type that takes no argument and returns one
// string (String, Format, GoString, ...) - and returns the texts. Rendering an
// object is a read: callers compare the object and the buffers it was made
// from before and after.
func Printed(x interface{}) []string {
	out := []string{fmt.Sprintf("%v", x), fmt.Sprintf("%+v", x)}
	v := reflect.ValueOf(x)
	if !v.IsValid() {
		return out
	}
	t := v.Type()
	for i := 0; i < t.NumMethod(); i++ {
		m := t.Method(i)
		if m.Type.NumIn() == 1 && m.Type.NumOut() == 1 && m.Type.Out(0).Kind() == reflect.String {
			out = append(out, v.Method(i).Call(nil)[0].String())
		}
	}
	return out
}
