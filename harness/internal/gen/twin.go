package gen

import (
	"hash/adler32"
	"hash/crc32"
	"hash/crc64"
)

// Twin returns a byte string of the same length as a that differs from a but
// agrees with it in a summary that a careless memo or pool might use as its
// key: one of the usual CRCs, Adler-32, the multiset of the bytes, or the first
// and last bytes. ok is false when a is too short (or too uniform) for the
// kind drawn. The caller decides what must hold for the twin: it is simply a
// different value.
func Twin(r *Rand, a []byte) (b []byte, kind string, ok bool) {
	b = append([]byte{}, a...)
	switch k := r.Intn(8); k {
	case 0, 1, 2, 3:
		kind = []string{"crc32-ieee", "crc32-castagnoli", "crc32-mpeg2", "crc64-ecma"}[k]
		var f func([]byte) uint64
		need := 5
		switch k {
		case 0:
			f = func(x []byte) uint64 { return uint64(crc32.ChecksumIEEE(x)) }
		case 1:
			t := crc32.MakeTable(crc32.Castagnoli)
			f = func(x []byte) uint64 { return uint64(crc32.Checksum(x, t)) }
		case 2:
			f = func(x []byte) uint64 { return uint64(crcMPEG2(x)) }
		default:
			t := crc64.MakeTable(crc64.ECMA)
			f = func(x []byte) uint64 { return crc64.Checksum(x, t) }
			need = 9
		}
		if len(a) < need {
			return nil, kind, false
		}
		// the checksums are affine over GF(2): among need*8 single-bit changes inside a window of `need`
		// bytes some combination leaves the checksum as it is
		w := r.Intn(len(a) - need + 1)
		zero := make([]byte, len(a))
		f0 := f(zero)
		type vec struct {
			v     uint64
			combo []byte
		}
		basis := map[int]vec{}
		for bit := 0; bit < need*8; bit++ {
			combo := make([]byte, len(a))
			combo[w+bit/8] = 1 << uint(bit%8)
			v := f(combo) ^ f0
			for v != 0 {
				hb := 63
				for v>>uint(hb)&1 == 0 {
					hb--
				}
				e, has := basis[hb]
				if !has {
					basis[hb] = vec{v, combo}
					break
				}
				v ^= e.v
				for i := range combo {
					combo[i] ^= e.combo[i]
				}
			}
			if v == 0 {
				for i := range b {
					b[i] ^= combo[i]
				}
				return b, kind, f(b) == f(a) && string(b) != string(a)
			}
		}
		return nil, kind, false
	case 4:
		kind = "adler32"
		for try := 0; try < 8 && len(a) >= 3; try++ {
			i := r.Intn(len(a) - 2)
			if b[i] < 255 && b[i+1] >= 2 && b[i+2] < 255 {
				b[i]++
				b[i+1] -= 2
				b[i+2]++
				return b, kind, adler32.Checksum(b) == adler32.Checksum(a)
			}
		}
		return nil, kind, false
	case 5:
		kind = "same-bytes-other-order"
		for try := 0; try < 8 && len(a) >= 2; try++ {
			i, j := r.Intn(len(a)), r.Intn(len(a))
			if b[i] != b[j] {
				b[i], b[j] = b[j], b[i]
				return b, kind, true
			}
		}
		return nil, kind, false
	case 6:
		kind = "same-first-and-last-four-bytes"
		if len(a) < 9 {
			return nil, kind, false
		}
		b[4+r.Intn(len(a)-8)] ^= byte(1 + r.Intn(255))
		return b, kind, true
	default:
		kind = "same-sum-and-xor"
		// two pairs of equal-valued bit flips: +x -x on bytes with the bit clear / set keeps the sum; doing it for
		// the same bit in two bytes keeps the xor as well
		for try := 0; try < 16 && len(a) >= 2; try++ {
			i, j, m := r.Intn(len(a)), r.Intn(len(a)), byte(1)<<uint(r.Intn(8))
			if i != j && b[i]&m == 0 && b[j]&m != 0 {
				b[i] |= m
				b[j] &^= m
				return b, kind, true
			}
		}
		return nil, kind, false
	}
}

func crcMPEG2(b []byte) uint32 {
	crc := uint32(0xffffffff)
	for _, x := range b {
		crc ^= uint32(x) << 24
		for i := 0; i < 8; i++ {
			if crc&0x80000000 != 0 {
				crc = crc<<1 ^ 0x04c11db7
			} else {
				crc <<= 1
			}
		}
	}
	return crc
}
