// Package gen holds the deterministic PRNG and small generator helpers used
// by every monitor. Nothing in here depends on the library under test.
package gen

// Rand is a splitmix64 generator. The zero value is usable but every case
// gets its own Rand derived from (seed, property, stream, index) so that a
// case does not depend on how the case list is sharded.
type Rand struct{ s uint64 }

func mix(z uint64) uint64 {
	z += 0x9e3779b97f4a7c15
	z = (z ^ (z >> 30)) * 0xbf58476d1ce4e5b9
	z = (z ^ (z >> 27)) * 0x94d049bb133111eb
	return z ^ (z >> 31)
}

// HashString folds a string into a 64-bit value (FNV-1a).
func HashString(s string) uint64 {
	h := uint64(0xcbf29ce484222325)
	for i := 0; i < len(s); i++ {
		h ^= uint64(s[i])
		h *= 0x100000001b3
	}
	return h
}

// New derives a generator from the given words.
func New(words ...uint64) *Rand {
	s := uint64(0x243f6a8885a308d3)
	for _, w := range words {
		s = mix(s ^ w)
	}
	return &Rand{s}
}

func (r *Rand) Uint64() uint64 {
	r.s += 0x9e3779b97f4a7c15
	z := r.s
	z = (z ^ (z >> 30)) * 0xbf58476d1ce4e5b9
	z = (z ^ (z >> 27)) * 0x94d049bb133111eb
	return z ^ (z >> 31)
}

func (r *Rand) Uint32() uint32 { return uint32(r.Uint64() >> 32) }

// Intn returns a value in [0,n). n must be > 0.
func (r *Rand) Intn(n int) int {
	if n <= 0 {
		panic("gen: Intn with n<=0")
	}
	return int(r.Uint64() % uint64(n))
}

// Range returns a value in [lo,hi].
func (r *Rand) Range(lo, hi int) int { return lo + r.Intn(hi-lo+1) }

func (r *Rand) Bool() bool { return r.Uint64()&1 == 1 }

// Chance is true with probability 1/n.
func (r *Rand) Chance(n int) bool { return r.Intn(n) == 0 }

func (r *Rand) Byte() byte { return byte(r.Uint64()) }

func (r *Rand) Bytes(n int) []byte {
	if n == 0 && r.Bool() {
		return nil // "no bytes" comes as nil as often as it comes as an empty slice
	}
	b := make([]byte, n)
	r.Fill(b)
	return b
}

func (r *Rand) Fill(b []byte) {
	for i := 0; i < len(b); {
		v := r.Uint64()
		for k := 0; k < 8 && i < len(b); k++ {
			b[i] = byte(v)
			v >>= 8
			i++
		}
	}
}

func (r *Rand) PickByte(xs []byte) byte { return xs[r.Intn(len(xs))] }
func (r *Rand) PickInt(xs []int) int    { return xs[r.Intn(len(xs))] }
func (r *Rand) PickU64(xs []uint64) uint64 {
	return xs[r.Intn(len(xs))]
}

// Perm returns a random permutation of 0..n-1.
func (r *Rand) Perm(n int) []int {
	p := make([]int, n)
	for i := range p {
		p[i] = i
	}
	for i := n - 1; i > 0; i-- {
		j := r.Intn(i + 1)
		p[i], p[j] = p[j], p[i]
	}
	return p
}

// U33 returns a 33-bit value biased towards the boundaries of the field.
func (r *Rand) U33() uint64 {
	if r.Chance(4) {
		return r.PickU64([]uint64{0, 1, 1<<33 - 1, 1 << 32, 1<<32 - 1, 1<<32 + 1, 1<<33 - 2})
	}
	return r.Uint64() & (1<<33 - 1)
}

// PickBytes4 returns a random 4-byte identifier, sometimes a near miss of "DOVI".
func (r *Rand) PickBytes4() []byte {
	switch r.Intn(4) {
	case 0:
		return []byte("DOVJ")
	case 1:
		return []byte("dovi")
	case 2:
		return []byte("CUEI")
	}
	return r.Bytes(4)
}

// Slack returns b in one of three memory shapes with identical contents: as
// it is, as a copy whose capacity equals its length, or as a copy followed by
// spare capacity filled with random bytes. A decoder must depend on the len(b)
// bytes only.
func (r *Rand) Slack(b []byte) []byte { return SlackBy(b, r.Uint64()) }

// SlackBy is Slack with the choice determined by k.
func SlackBy(b []byte, k uint64) []byte {
	switch k % 3 {
	case 0:
		return b
	case 1:
		return append(make([]byte, 0, len(b)), b...)
	}
	q := New(k, 0x51ac)
	buf := make([]byte, len(b)+1+q.Intn(64))
	q.Fill(buf)
	copy(buf, b)
	return buf[:len(b)]
}

func (r *Rand) PickString(xs []string) string { return xs[r.Intn(len(xs))] }
