// Package s35 holds the SCTE-35 comparison code shared by the C08 and C09
// monitors: every getter of a decoded signal against the ground truth.
package s35

import (
	"bytes"
	"fmt"

	"github.com/Comcast/gots/v2/scte35"

	"verif/harness/internal/mon"
	"verif/harness/internal/ref"
)

type Wit struct {
	Input  string `json:"input_hex"`
	Shape  string `json:"shape"`
	Detail string `json:"detail"`
}

func Shape(s *ref.Sig) string {
	cmd := map[byte]string{0: "splice_null", 5: "splice_insert", 6: "time_signal"}[s.Cmd]
	if cmd == "" {
		cmd = fmt.Sprintf("command %#02x", s.Cmd)
	}
	if s.Cmd == 5 {
		cmd += fmt.Sprintf("(cancel=%v out=%v program=%v duration=%v immediate=%v components=%d)", s.Cancel, s.Out, s.Prog, s.HasDur, s.Imm, len(s.Comps))
	}
	ds := ""
	for _, d := range s.Descs {
		switch {
		case d.Foreign:
			ds += fmt.Sprintf(" foreign(%#02x)", d.Tag)
		case d.Cancel:
			ds += " seg(cancel)"
		default:
			ds += fmt.Sprintf(" seg(type=%#02x prog=%v dur=%v restricted=%v comps=%d upid=%#02x mid=%d sub=%v)", d.Type, d.ProgSeg, d.HasDur, !d.NotRestricted, len(d.Comps), d.UPIDType, len(d.MID), d.HasSub)
		}
	}
	return fmt.Sprintf("pointer_field=%d %s pts_adjustment=%d descriptors:%s", s.Ptr, cmd, s.PTSAdj, ds)
}

const M33 = uint64(1)<<33 - 1

// CheckDecoded compares every getter with the ground truth. It is shared in
// spirit with C09, which re-decodes encoded sections.
func CheckDecoded(c *mon.Ctx, prefix string, s *ref.Sig, x scte35.SCTE35, in []byte) bool {
	ok := true
	bad := func(sig, d string) {
		c.Fail(prefix+":"+sig, d+" ["+Shape(s)+"]", Wit{mon.Hex(in), Shape(s), d})
		ok = false
	}
	if x.Tier() != s.Tier {
		bad("tier", fmt.Sprintf("Tier()=%#x, encoded %#x", x.Tier(), s.Tier))
	}
	if byte(x.Command()) != s.Cmd {
		bad("command-type", fmt.Sprintf("Command()=%#x, encoded %#x", x.Command(), s.Cmd))
		return false
	}
	ci := x.CommandInfo()
	if ci == nil {
		bad("command-info-nil", "CommandInfo() is nil")
		return false
	}
	if byte(ci.CommandType()) != s.Cmd {
		bad("command-info-type", fmt.Sprintf("CommandInfo().CommandType()=%#x, encoded %#x", ci.CommandType(), s.Cmd))
	}
	if has, t := s.CommandHasTime(); has {
		if !x.HasPTS() || !ci.HasPTS() {
			bad("has-pts", fmt.Sprintf("HasPTS()=%v / command HasPTS()=%v although the command carries a time", x.HasPTS(), ci.HasPTS()))
		}
		if uint64(ci.PTS()) != t {
			bad("command-pts", fmt.Sprintf("command PTS()=%d, encoded pts_time %d", ci.PTS(), t))
		}
		if want := (t + s.PTSAdj) & M33; uint64(x.PTS()) != want {
			bad("adjusted-pts", fmt.Sprintf("signal PTS()=%d, (pts_time %d + pts_adjustment %d) mod 2^33 = %d", x.PTS(), t, s.PTSAdj, want))
		}
	} else if s.Cmd == 0 && x.HasPTS() {
		bad("null-has-pts", "HasPTS() is true for splice_null")
	}
	if s.Cmd == 5 {
		in5, is := ci.(scte35.SpliceInsertCommand)
		if !is {
			bad("insert-type-assertion", "CommandInfo() of a splice_insert is not a SpliceInsertCommand")
			return false
		}
		if in5.EventID() != s.Event {
			bad("insert-event-id", fmt.Sprintf("EventID()=%#x, encoded %#x", in5.EventID(), s.Event))
		}
		if in5.IsEventCanceled() != s.Cancel {
			bad("insert-cancel", fmt.Sprintf("IsEventCanceled()=%v, encoded %v", in5.IsEventCanceled(), s.Cancel))
		}
		if !s.Cancel {
			if in5.IsOut() != s.Out || in5.IsProgramSplice() != s.Prog || in5.HasDuration() != s.HasDur || in5.SpliceImmediate() != s.Imm {
				bad("insert-flags", fmt.Sprintf("out=%v program=%v duration=%v immediate=%v decoded; encoded %v %v %v %v", in5.IsOut(), in5.IsProgramSplice(), in5.HasDuration(), in5.SpliceImmediate(), s.Out, s.Prog, s.HasDur, s.Imm))
			}
			if !s.Prog {
				cs := in5.Components()
				if len(cs) != len(s.Comps) {
					bad("insert-component-count", fmt.Sprintf("%d components decoded, %d encoded", len(cs), len(s.Comps)))
				} else {
					for i, cp := range cs {
						if cp.ComponentTag() != s.Comps[i].Tag {
							bad("insert-component-tag", fmt.Sprintf("component %d tag %#x, encoded %#x", i, cp.ComponentTag(), s.Comps[i].Tag))
						}
						if !s.Imm {
							if cp.HasPTS() != s.Comps[i].HasPTS {
								bad("insert-component-time-flag", fmt.Sprintf("component %d HasPTS()=%v, encoded %v", i, cp.HasPTS(), s.Comps[i].HasPTS))
							} else if cp.HasPTS() && uint64(cp.PTS()) != s.Comps[i].PTS {
								bad("insert-component-pts", fmt.Sprintf("component %d PTS()=%d, encoded %d", i, cp.PTS(), s.Comps[i].PTS))
							}
						}
					}
				}
			}
			if s.HasDur {
				if in5.IsAutoReturn() != s.AutoRet {
					bad("insert-auto-return", fmt.Sprintf("IsAutoReturn()=%v, encoded %v", in5.IsAutoReturn(), s.AutoRet))
				}
				if uint64(in5.Duration()) != s.Dur {
					bad("insert-duration", fmt.Sprintf("Duration()=%d, encoded %d", in5.Duration(), s.Dur))
				}
			}
			if in5.UniqueProgramId() != s.UPID16 || in5.AvailNum() != s.Avail || in5.AvailsExpected() != s.Avails {
				bad("insert-program-id-avails", fmt.Sprintf("unique_program_id/avail_num/avails_expected decoded %d/%d/%d, encoded %d/%d/%d", in5.UniqueProgramId(), in5.AvailNum(), in5.AvailsExpected(), s.UPID16, s.Avail, s.Avails))
			}
		}
	}
	want := s.SegDescs()
	ds := x.Descriptors()
	if len(ds) != len(want) {
		bad("descriptor-count", fmt.Sprintf("%d segmentation descriptors decoded, %d encoded", len(ds), len(want)))
		return false
	}
	for i, d := range ds {
		w := want[i]
		pre := fmt.Sprintf("descriptor %d: ", i)
		if d.SCTE35() != x {
			bad("descriptor-backref", pre+"SCTE35() is not the enclosing signal")
		}
		if d.EventID() != w.Event {
			bad("descriptor-event-id", fmt.Sprintf(pre+"EventID()=%#x, encoded %#x", d.EventID(), w.Event))
		}
		if d.IsEventCanceled() != w.Cancel {
			bad("descriptor-cancel", fmt.Sprintf(pre+"IsEventCanceled()=%v, encoded %v", d.IsEventCanceled(), w.Cancel))
		}
		if w.Cancel {
			continue
		}
		if d.HasProgramSegmentation() != w.ProgSeg || d.HasDuration() != w.HasDur || d.IsDeliveryNotRestricted() != w.NotRestricted {
			bad("descriptor-flags", fmt.Sprintf(pre+"program_segmentation/duration/not_restricted decoded %v/%v/%v, encoded %v/%v/%v", d.HasProgramSegmentation(), d.HasDuration(), d.IsDeliveryNotRestricted(), w.ProgSeg, w.HasDur, w.NotRestricted))
		}
		if !w.NotRestricted && (d.IsWebDeliveryAllowed() != w.Web || d.HasNoRegionalBlackout() != w.NoBlackout || d.IsArchiveAllowed() != w.Archive || byte(d.DeviceRestrictions()) != w.DevRestr) {
			bad("descriptor-restrictions", fmt.Sprintf(pre+"web/no_blackout/archive/device decoded %v/%v/%v/%d, encoded %v/%v/%v/%d", d.IsWebDeliveryAllowed(), d.HasNoRegionalBlackout(), d.IsArchiveAllowed(), d.DeviceRestrictions(), w.Web, w.NoBlackout, w.Archive, w.DevRestr))
		}
		if !w.ProgSeg {
			cs := d.Components()
			if len(cs) != len(w.Comps) {
				bad("descriptor-component-count", fmt.Sprintf(pre+"%d components decoded, %d encoded", len(cs), len(w.Comps)))
			} else {
				for j, cp := range cs {
					if cp.ComponentTag() != w.Comps[j].Tag {
						bad("descriptor-component-tag", fmt.Sprintf(pre+"component %d tag %#x, encoded %#x", j, cp.ComponentTag(), w.Comps[j].Tag))
					}
					if uint64(cp.PTSOffset()) != w.Comps[j].Off {
						bad("descriptor-component-pts-offset", fmt.Sprintf(pre+"component %d PTSOffset()=%#x, encoded %#x", j, uint64(cp.PTSOffset()), w.Comps[j].Off))
					}
				}
			}
		}
		if w.HasDur && uint64(d.Duration()) != w.Dur {
			bad("descriptor-duration", fmt.Sprintf(pre+"Duration()=%#x, encoded 40-bit value %#x", uint64(d.Duration()), w.Dur))
		}
		if byte(d.UPIDType()) != w.UPIDType {
			bad("descriptor-upid-type", fmt.Sprintf(pre+"UPIDType()=%#x, encoded %#x", d.UPIDType(), w.UPIDType))
		}
		if w.UPIDType == 0x0d {
			m := d.MID()
			if len(m) != len(w.MID) {
				bad("descriptor-mid-count", fmt.Sprintf(pre+"%d UPIDs in the MID decoded, %d encoded", len(m), len(w.MID)))
			} else {
				for j, u := range m {
					if byte(u.UPIDType()) != w.MID[j].Type || !bytes.Equal(u.UPID(), w.MID[j].Data) {
						bad("descriptor-mid-element", fmt.Sprintf(pre+"MID element %d decoded type %#x %x, encoded type %#x %x", j, u.UPIDType(), u.UPID(), w.MID[j].Type, w.MID[j].Data))
					}
				}
			}
		} else if !bytes.Equal(d.UPID(), w.UPID) {
			bad("descriptor-upid", fmt.Sprintf(pre+"UPID()=%x, encoded %x", d.UPID(), w.UPID))
		}
		if byte(d.TypeID()) != w.Type || d.SegmentNumber() != w.Num || d.SegmentsExpected() != w.Exp || d.SegmentNum() != w.Num {
			bad("descriptor-type-num-expected", fmt.Sprintf(pre+"type/segment_num/segments_expected decoded %#x/%d/%d, encoded %#x/%d/%d", d.TypeID(), d.SegmentNumber(), d.SegmentsExpected(), w.Type, w.Num, w.Exp))
		}
		if d.HasSubSegments() != w.HasSub || (w.HasSub && (d.SubSegmentNumber() != w.SubNum || d.SubSegmentsExpected() != w.SubExp)) {
			bad("descriptor-sub-segments", fmt.Sprintf(pre+"sub-segments decoded %v %d/%d, encoded %v %d/%d", d.HasSubSegments(), d.SubSegmentNumber(), d.SubSegmentsExpected(), w.HasSub, w.SubNum, w.SubExp))
		}
	}
	return ok
}

func CmdShape(s *ref.Sig) string {
	switch s.Cmd {
	case 0:
		return "null"
	case 6:
		return "time_signal"
	}
	if s.Cancel {
		return "insert/cancel"
	}
	return fmt.Sprintf("insert/out=%v/prog=%v/dur=%v/imm=%v/comps=%v", s.Out, s.Prog, s.HasDur, s.Imm, len(s.Comps) > 0)
}

func DescShape(d *ref.SegDesc) string {
	if d.Foreign {
		return "F"
	}
	if d.Cancel {
		return "C"
	}
	u := "u"
	if d.UPIDType == 0x0d {
		u = "m"
	} else if d.UPIDType == 0 {
		u = "-"
	}
	return fmt.Sprintf("S%v%v%v%v%s%v", b2i(d.ProgSeg), b2i(d.HasDur), b2i(d.NotRestricted), b2i(len(d.Comps) > 0), u, b2i(d.HasSub))
}

func b2i(b bool) int {
	if b {
		return 1
	}
	return 0
}

func SortedKeys(m map[string]int) []string {
	var ks []string
	for k := range m {
		ks = append(ks, k)
	}
	for i := 1; i < len(ks); i++ {
		for j := i; j > 0 && ks[j] < ks[j-1]; j-- {
			ks[j], ks[j-1] = ks[j-1], ks[j]
		}
	}
	return ks
}
