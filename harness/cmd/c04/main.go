// C04 — PCR and PTS/DTS codecs are exact, bit-positioned per ISO 13818-1, and round-trip.
package main

import (
	"bytes"
	"fmt"
	"runtime"
	"sync"

	gots "github.com/Comcast/gots/v2"
	"github.com/Comcast/gots/v2/packet"
	"github.com/Comcast/gots/v2/packet/adaptationfield"
	"github.com/Comcast/gots/v2/pes"

	"verif/harness/internal/gen"
	"verif/harness/internal/mon"
	"verif/harness/internal/ref"
)

func main() { mon.Main("C04", run) }

type wit struct {
	Op    string `json:"op"`
	Value uint64 `json:"value"`
	Prior string `json:"prior_bytes,omitempty"`
	Got   string `json:"got,omitempty"`
	Want  string `json:"want,omitempty"`
	Note  string `json:"note,omitempty"`
}

func prior(kind int, r *gen.Rand) []byte {
	b := make([]byte, 16)
	switch kind {
	case 1:
		for i := range b {
			b[i] = 0xff
		}
	case 2:
		r.Fill(b)
	}
	return b
}

func popclass(v uint64) string {
	n := 0
	for x := v; x != 0; x &= x - 1 {
		n++
	}
	hi := 0
	for x := v; x > 1; x >>= 1 {
		hi++
	}
	return fmt.Sprintf("pop=%d/hi=%d", n, hi)
}

// priorPCR: prior contents related to the value about to be written: its own encoding, the encoding of a
// neighbouring value, and (where there is one) the non-canonical spelling that decodes to the same number
// (base-1 with an extension of 300 or more), each with the reserved bits set or cleared.
func priorPCR(kind int, v uint64, r *gen.Rand) []byte {
	b := make([]byte, 16)
	r.Fill(b)
	var e [6]byte
	switch kind {
	case 3:
		e = ref.EncPCR(v)
	case 4:
		e = ref.EncPCR((v + uint64(r.PickInt([]int{1, 300, 299, 27000000}))) % ref.PCRMax)
	default:
		base, ext := v/300, v%300
		if base == 0 || ext+300 > 511 {
			e = ref.EncPCR(v)
			e[4] &^= 0x7e
		} else {
			base, ext = base-1, ext+300
			e = [6]byte{byte(base >> 25), byte(base >> 17), byte(base >> 9), byte(base >> 1), byte(base<<7) | 0x7e | byte(ext>>8), byte(ext)}
		}
	}
	if r.Chance(3) {
		e[4] &^= byte(r.Intn(64)) << 1
	}
	copy(b[5:11], e[:])
	return b
}

func pcr(c *mon.Ctx, v uint64, r *gen.Rand, class string) {
	want := ref.EncPCR(v)
	for kind := 0; kind < 6; kind++ {
		buf := prior(kind, r)
		if kind >= 3 {
			buf = priorPCR(kind, v, r)
		}
		orig := append([]byte{}, buf...)
		// the destination is handed over as the six bytes, or as the rest of the buffer that begins with them
		if kind%2 == 0 {
			gots.InsertPCR(buf[5:11:16], v)
		} else {
			gots.InsertPCR(buf[5:], v)
			c.Count("pcr.destination_longer_than_the_field")
		}
		c.Eval(1)
		if !bytes.Equal(buf[5:11], want[:]) {
			c.Fail("pcr:insert-bytes", fmt.Sprintf("InsertPCR(%d) wrote %x, ISO 13818-1 encoding is %x", v, buf[5:11], want[:]),
				wit{"InsertPCR", v, mon.Hex(orig[5:11]), mon.Hex(buf[5:11]), mon.Hex(want[:]), ""})
			return
		}
		if !bytes.Equal(buf[:5], orig[:5]) || !bytes.Equal(buf[11:], orig[11:]) {
			c.Fail("pcr:insert-overrun", fmt.Sprintf("InsertPCR(%d) changed bytes outside its 6-byte field", v), wit{"InsertPCR", v, mon.Hex(orig), mon.Hex(buf), "", "16-byte buffer, field at [5:11]"})
		}
		if g := gots.ExtractPCR(buf[5:11]); g != v {
			c.Fail("pcr:roundtrip", fmt.Sprintf("ExtractPCR(InsertPCR(%d)) = %d", v, g), wit{"ExtractPCR", v, "", fmt.Sprint(g), fmt.Sprint(v), ""})
		}
		// reserved bits must not influence decoding
		for bit := 33; bit < 39; bit++ {
			f := append([]byte{}, buf[5:11]...)
			f[bit>>3] ^= 1 << uint(7-bit&7)
			if g := gots.ExtractPCR(f); g != v {
				c.Fail("pcr:reserved-bit-influences-decode", fmt.Sprintf("flipping reserved bit %d changes ExtractPCR from %d to %d", bit, v, g), wit{"ExtractPCR", v, "", mon.Hex(f), "", ""})
			}
		}
	}
	c.Class("pcr/" + class)
}

func pts(c *mon.Ctx, v uint64, r *gen.Rand, class string) {
	want := ref.EncPTS(2, v)
	for kind := 0; kind < 5; kind++ {
		buf := prior(kind, r)
		if kind >= 3 {
			// prior contents that already spell this value (or its neighbour), marker bits set or cleared
			r.Fill(buf)
			e := ref.EncPTS(byte(r.PickInt([]int{2, 3, 1, 0})), (v+uint64(kind-3))&(1<<33-1))
			if r.Bool() {
				e[0] &^= 1
				e[2] &^= 1
				e[4] &^= 1
			}
			copy(buf[5:10], e[:])
		}
		orig := append([]byte{}, buf...)
		if kind%2 == 0 {
			gots.InsertPTS(buf[5:10:16], v)
		} else {
			gots.InsertPTS(buf[5:], v)
			c.Count("pts.destination_longer_than_the_field")
		}
		c.Eval(1)
		for i := 0; i < 5; i++ {
			m := ref.PTSValueMask[i] | ref.PTSMarkerMask[i]
			if buf[5+i]&m != want[i]&m {
				c.Fail("pts:insert-bytes", fmt.Sprintf("InsertPTS(%d) wrote %x; value/marker bits of the ISO 13818-1 encoding are %x (mask %x)", v, buf[5:10], want[:], ref.PTSValueMask),
					wit{"InsertPTS", v, mon.Hex(orig[5:10]), mon.Hex(buf[5:10]), mon.Hex(want[:]), "the 4-bit prefix is not asserted"})
				return
			}
		}
		if !bytes.Equal(buf[:5], orig[:5]) || !bytes.Equal(buf[10:], orig[10:]) {
			c.Fail("pts:insert-overrun", fmt.Sprintf("InsertPTS(%d) changed bytes outside its 5-byte field", v), wit{"InsertPTS", v, mon.Hex(orig), mon.Hex(buf), "", ""})
		}
		g1, g2 := gots.ExtractTime(buf[5:10]), pes.ExtractTime(buf[5:10])
		if g1 != v || g2 != v {
			c.Fail("pts:roundtrip", fmt.Sprintf("ExtractTime(InsertPTS(%d)) = %d (gots) / %d (pes)", v, g1, g2), wit{"ExtractTime", v, "", fmt.Sprint(g1, " ", g2), fmt.Sprint(v), ""})
		}
		for bit := 0; bit < 40; bit++ {
			if ref.PTSValueMask[bit>>3]&(1<<uint(7-bit&7)) != 0 {
				continue
			}
			f := append([]byte{}, buf[5:10]...)
			f[bit>>3] ^= 1 << uint(7-bit&7)
			if a, b := gots.ExtractTime(f), pes.ExtractTime(f); a != v || b != v {
				c.Fail("pts:marker-bit-influences-decode", fmt.Sprintf("flipping non-value bit %d changes the decoded time from %d to %d / %d", bit, v, a, b), wit{"ExtractTime", v, "", mon.Hex(f), "", ""})
			}
		}
		// all non-value bits set, and all of them clear (for the largest value the first is FF FF FF FF FF)
		for _, fill := range []byte{0xff, 0x00} {
			f := append([]byte{}, buf[5:10]...)
			for i := range f {
				f[i] = f[i]&ref.PTSValueMask[i] | fill&^ref.PTSValueMask[i]
			}
			if a, b := gots.ExtractTime(f), pes.ExtractTime(f); a != v || b != v {
				c.Fail("pts:marker-bit-influences-decode", fmt.Sprintf("with every non-value bit set to %d the bytes %x decode to %d / %d instead of %d", fill&1, f, a, b, v), wit{"ExtractTime", v, "", mon.Hex(f), "", ""})
			}
		}
	}
	c.Class("pts/" + class)
}

var (
	heldPCR, heldOPCR       []byte
	heldPCRVal, heldOPCRVal uint64
)

func endToEnd(c *mon.Ctx, r *gen.Rand) {
	// PCR / OPCR through the adaptation-field API
	v, o := r.Uint64()%ref.PCRMax, r.Uint64()%ref.PCRMax
	if r.Chance(4) {
		v = r.PickU64([]uint64{0, 299, 300, ref.PCRMax - 1, ref.PCRMax - 300, 1<<32*300 + 299})
	}
	p := packet.New()
	p.SetAdaptationFieldControl(packet.PayloadAndAdaptationFieldFlag)
	af, err := p.AdaptationField()
	c.Eval(1)
	if err != nil {
		c.Fail("e2e:af-setup", "cannot obtain the adaptation field of a fresh packet: "+err.Error(), nil)
		return
	}
	withO := r.Bool()
	withP := withO && r.Chance(3) == false || !withO
	if r.Chance(4) {
		withP, withO = false, true // an OPCR without a PCR is legal and moves the field
	}
	if r.Chance(4) {
		// original clock references at the top of their range (first byte 0xFF, 0xFE)
		o = r.PickU64([]uint64{ref.PCRMax - 1, ref.PCRMax - 300, 0xff << 25 * 300, 0xff<<25*300 + 17, 0xfe << 25 * 300, 0x7f<<26*300 + 299})
	}
	// the PCR may be added after the OPCR has been written (the setters come in any order)
	latePCR := withP && withO && r.Chance(3)
	var e1, e2 error
	if withP && !latePCR {
		e1 = af.SetHasPCR(true)
	}
	if withO {
		e2 = af.SetHasOPCR(true)
	}
	hasSplice := r.Chance(3)
	if hasSplice { // further optional fields behind the clock references
		af.SetHasSplicingPoint(true)
		af.SetSpliceCountdown(r.Byte())
	}
	if e1 != nil || e2 != nil {
		c.Fail("e2e:af-setup", fmt.Sprintf("SetHasPCR/SetHasOPCR on an empty 182-byte adaptation field failed: %v %v", e1, e2), nil)
		return
	}
	if withP && !latePCR {
		if err := af.SetPCR(v); err != nil {
			c.Fail("e2e:setpcr", "SetPCR failed: "+err.Error(), wit{Op: "SetPCR", Value: v})
		}
	}
	if withO {
		if err := af.SetOPCR(o); err != nil {
			c.Fail("e2e:setopcr", "SetOPCR failed: "+err.Error(), wit{Op: "SetOPCR", Value: o})
		}
	}
	if latePCR {
		c.Count("e2e.pcr_added_after_the_opcr_was_written")
		if err := af.SetHasPCR(true); err != nil {
			c.Fail("e2e:af-setup", "SetHasPCR(true) after the OPCR was written failed: "+err.Error(), nil)
			return
		}
		if err := af.SetPCR(v); err != nil {
			c.Fail("e2e:setpcr", "SetPCR failed: "+err.Error(), wit{Op: "SetPCR", Value: v})
		}
	}
	if hasSplice && r.Bool() {
		// the field behind the clock references is written after them (the setters come in any order)
		af.SetSpliceCountdown(r.Byte())
		c.Count("e2e.splice_countdown_set_after_the_clocks")
	}
	afOnly := false
	if r.Chance(3) {
		// header setters that leave the adaptation field where it is come between the write and the read
		switch r.Intn(5) {
		case 0:
			p.SetPID(r.Intn(8192))
		case 1:
			p.SetContinuityCounter(r.Intn(16))
		case 2:
			p.SetPayloadUnitStartIndicator(r.Bool())
			p.SetTransportPriority(r.Bool())
		default:
			// the packet becomes one that only carries the clock references (no payload): the field stays
			if err := p.SetAdaptationFieldControl(packet.AdaptationFieldFlag); err != nil {
				c.Fail("e2e:af-setup", "SetAdaptationFieldControl(adaptation field only) on a packet with adaptation field and payload failed: "+err.Error(), nil)
				return
			}
			afOnly = true
			c.Count("e2e.payload_dropped_between_write_and_read")
		}
		c.Count("e2e.header_setter_between_write_and_read")
	}
	if r.Chance(3) {
		// enabling a field that is already enabled changes nothing
		if withP {
			af.SetHasPCR(true)
		}
		if withO {
			af.SetHasOPCR(true)
		}
	}
	if withP {
		if g, err := af.PCR(); err != nil || g != v {
			c.Fail("e2e:pcr", fmt.Sprintf("PCR() after SetPCR(%d) = %d, %v", v, g, err), wit{Op: "PCR", Value: v, Got: fmt.Sprint(g)})
		}
		if b, err := adaptationfield.PCR(p); err != nil || ref.DecPCR(b) != v || !bytes.Equal(b, sl(ref.EncPCR(v))) {
			c.Fail("e2e:pcr-func", fmt.Sprintf("adaptationfield.PCR bytes %x do not encode %d (%v)", b, v, err), wit{Op: "adaptationfield.PCR", Value: v, Got: mon.Hex(b)})
		}
	}
	if withO {
		if g, err := af.OPCR(); err != nil || g != o {
			c.Fail("e2e:opcr", fmt.Sprintf("OPCR() after SetOPCR(%d) = %d, %v", o, g, err), wit{Op: "OPCR", Value: o, Got: fmt.Sprint(g)})
		}
		if b, err := adaptationfield.OPCR(p); err != nil || ref.DecPCR(b) != o {
			c.Fail("e2e:opcr-func", fmt.Sprintf("adaptationfield.OPCR bytes %x do not encode %d (%v)", b, o, err), wit{Op: "adaptationfield.OPCR", Value: o, Got: mon.Hex(b)})
		}
		if g, _ := af.PCR(); withP && g != v {
			c.Fail("e2e:pcr-after-opcr", "setting the OPCR changed the PCR", wit{Op: "PCR", Value: v, Got: fmt.Sprint(g)})
		}
	}
	// the adaptation field travels to another packet (SetAdaptationField) that had fewer, as many or more optional
	// fields of its own: the clock references read back from there are the ones that were set
	if r.Chance(3) {
		q := packet.New()
		q.SetAdaptationFieldControl(packet.PayloadAndAdaptationFieldFlag)
		if qa, err := q.AdaptationField(); err == nil {
			switch r.Intn(4) {
			case 1:
				qa.SetHasPCR(true)
				qa.SetPCR(r.Uint64() % ref.PCRMax)
			case 2:
				qa.SetHasPCR(true)
				qa.SetHasOPCR(true)
				qa.SetHasTransportPrivateData(true)
				qa.SetTransportPrivateData(r.Bytes(1 + r.Intn(30)))
			case 3:
				qa.SetHasOPCR(true)
				qa.SetOPCR(r.Uint64() % ref.PCRMax)
			}
		}
		if err := q.SetAdaptationField(af); err != nil {
			c.Fail("e2e:af-copy", "SetAdaptationField of a field with clock references into a packet with a 182-byte field failed: "+err.Error(), nil)
		} else if qa, err := q.AdaptationField(); err == nil {
			c.Count("e2e.field_copied_to_another_packet")
			if g, err := qa.PCR(); withP && (err != nil || g != v) {
				c.Fail("e2e:pcr-after-copy", fmt.Sprintf("PCR() of the packet the adaptation field was copied to = %d, %v; the PCR set is %d", g, err, v), wit{Op: "SetAdaptationField, PCR", Value: v, Got: fmt.Sprint(g)})
			}
			if g, err := qa.OPCR(); withO && (err != nil || g != o) {
				c.Fail("e2e:opcr-after-copy", fmt.Sprintf("OPCR() of the packet the adaptation field was copied to = %d, %v; the OPCR set is %d", g, err, o), wit{Op: "SetAdaptationField, OPCR", Value: o, Got: fmt.Sprint(g)})
			}
		}
	}
	// one clock reference is taken away again (with further fields behind it): the other one stays what it was
	if withP && withO && !afOnly && r.Chance(3) {
		tpd := r.Bytes(1 + r.Intn(40))
		eT := af.SetHasTransportPrivateData(true)
		if eT == nil {
			eT = af.SetTransportPrivateData(tpd)
		}
		if r.Bool() {
			af.SetHasAdaptationFieldExtension(true)
			af.SetAdaptationFieldExtension(r.Bytes(r.Intn(20)))
		}
		if r.Bool() {
			if err := af.SetHasPCR(false); err != nil {
				c.Fail("e2e:remove-pcr", "SetHasPCR(false) failed: "+err.Error(), wit{Op: "SetHasPCR(false)"})
			}
			c.Count("e2e.pcr_removed_opcr_kept")
			if g, err := af.OPCR(); err != nil || g != o {
				c.Fail("e2e:opcr-after-pcr-removed", fmt.Sprintf("OPCR() = %d, %v after the PCR in front of it was removed; the OPCR set is %d", g, err, o), wit{Op: "OPCR", Value: o, Got: fmt.Sprint(g)})
			}
			if b, err := adaptationfield.OPCR(p); err != nil || ref.DecPCR(b) != o {
				c.Fail("e2e:opcr-after-pcr-removed", fmt.Sprintf("adaptationfield.OPCR bytes %x do not encode %d after the PCR was removed (%v)", b, o, err), wit{Op: "adaptationfield.OPCR", Value: o, Got: mon.Hex(b)})
			}
		} else {
			if err := af.SetHasOPCR(false); err != nil {
				c.Fail("e2e:remove-opcr", "SetHasOPCR(false) failed: "+err.Error(), wit{Op: "SetHasOPCR(false)"})
			}
			c.Count("e2e.opcr_removed_pcr_kept")
			if g, err := af.PCR(); err != nil || g != v {
				c.Fail("e2e:pcr-after-opcr-removed", fmt.Sprintf("PCR() = %d, %v after the OPCR behind it was removed; the PCR set is %d", g, err, v), wit{Op: "PCR", Value: v, Got: fmt.Sprint(g)})
			}
		}
		if eT == nil {
			if b, err := adaptationfield.TransportPrivateData(p); err != nil || !bytes.Equal(b, tpd) {
				c.Fail("e2e:private-data-after-clock-removed", fmt.Sprintf("the transport private data behind the clock references reads %x (%v) after one of them was removed; set %x", b, err, tpd), wit{Op: "TransportPrivateData", Got: mon.Hex(b)})
			}
		}
	}
	// the byte slices the function-style accessors returned for the previous packet (which is not touched any
	// more) still hold that packet's clocks after the accessors were called on this one
	if b, err := adaptationfield.PCR(p); err == nil && len(b) == 6 {
		if heldPCR != nil && ref.DecPCR(heldPCR) != heldPCRVal {
			c.Fail("e2e:pcr-func-earlier-result-changed", fmt.Sprintf("the slice adaptationfield.PCR returned for an earlier packet (PCR %d) now decodes to %d, after the accessor was called on another packet", heldPCRVal, ref.DecPCR(heldPCR)), wit{Op: "adaptationfield.PCR", Value: heldPCRVal})
		}
		heldPCR, heldPCRVal = b, ref.DecPCR(b)
	}
	if b, err := adaptationfield.OPCR(p); err == nil && len(b) == 6 {
		if heldOPCR != nil && ref.DecPCR(heldOPCR) != heldOPCRVal {
			c.Fail("e2e:opcr-func-earlier-result-changed", fmt.Sprintf("the slice adaptationfield.OPCR returned for an earlier packet (OPCR %d) now decodes to %d, after the accessor was called on another packet", heldOPCRVal, ref.DecPCR(heldOPCR)), wit{Op: "adaptationfield.OPCR", Value: heldOPCRVal})
		}
		heldOPCR, heldOPCRVal = b, ref.DecPCR(b)
	}
	tightField(c, r)
	// PTS / DTS through a PES header, on every stream id that has the optional header (0xBC, program_stream_map,
	// has a syntax of its own in ISO/IEC 13818-1 and is left out)
	sid := byte(0xe0)
	if r.Bool() {
		for {
			sid = byte(0xbd + r.Intn(0x43))
			if !ref.PESNoOptionalHeader(sid) {
				break
			}
		}
	}
	fl2 := byte(0)
	if r.Bool() {
		fl2 = byte(r.Intn(64)) // further optional fields behind the timestamps (ESCR, ES_rate, ..., previous_PES_packet_CRC, extension)
	}
	h := ref.PES{StreamID: sid, Flags1: byte(r.Intn(64)), Flags2Low6: fl2, PTSDTS: []byte{2, 3}[r.Intn(2)], PTS: r.U33(), DTS: r.U33(), Extra: ref.PESOptionalFields(fl2, r.Bytes, r.PickInt([]int{0, 0, 1, 3})), Payload: r.Bytes(1 + r.Intn(8))}
	if r.Chance(3) {
		h.Payload = r.Bytes(r.Intn(6))
	}
	if r.Chance(6) {
		// stuffing up to the largest PES_header_data_length the 8-bit field can announce (and just below it)
		ts := map[byte]int{2: 5, 3: 10}[h.PTSDTS]
		base := len(ref.PESOptionalFields(fl2, r.Bytes, 0))
		if target := r.PickInt([]int{200, 240, 245, 246, 247, 248, 250, 254, 255, 255}); target-ts-base >= 0 {
			h.Extra = ref.PESOptionalFields(fl2, r.Bytes, target-ts-base)
			c.Count("e2e.pes_header_data_length_200_or_more")
		}
	}
	hb, _ := h.Bytes()
	if r.Bool() {
		hb[4], hb[5] = byte((len(hb)-6)>>8), byte(len(hb)-6) // PES_packet_length = bytes that follow the field
	}
	if r.Chance(3) {
		// marker bits and the 4-bit prefixes are not value bits: clearing them must not matter
		for _, off := range []int{9, 11, 13, 14, 16, 18} {
			if off < len(hb)-len(h.Payload) && (h.PTSDTS == 3 || off < 14) && r.Bool() {
				hb[off] &^= 0x01
			}
		}
	}
	ph, err := pes.NewPESHeader(hb)
	c.Eval(1)
	if err != nil {
		c.Fail("e2e:pes-decode", "NewPESHeader rejected a well-formed header: "+err.Error(), wit{Op: "NewPESHeader", Got: mon.Hex(hb)})
		return
	}
	if !ph.HasPTS() || ph.PTS() != h.PTS {
		c.Fail("e2e:pes-pts", fmt.Sprintf("PES PTS read back %d, carried %d", ph.PTS(), h.PTS), wit{Op: "PTS", Value: h.PTS, Got: mon.Hex(hb)})
	}
	if h.PTSDTS == 3 && (!ph.HasDTS() || ph.DTS() != h.DTS) {
		c.Fail("e2e:pes-dts", fmt.Sprintf("PES DTS read back %d, carried %d", ph.DTS(), h.DTS), wit{Op: "DTS", Value: h.DTS, Got: mon.Hex(hb)})
	}
	// the same PES start carried in a transport packet (payload only, behind a zero-length adaptation field, behind
	// stuffing): the header bytes the packet yields carry the same times
	if len(hb) <= 184 && r.Chance(2) {
		pay := append([]byte{}, hb...)
		switch r.Intn(3) {
		case 0:
			pay = append(pay, r.Bytes(183-min(183, len(pay)))...)
		case 1:
			pay = append(pay, r.Bytes(184-len(pay))...)
		}
		pk := packet.Packet(ref.PayloadPacket(r.PickInt([]int{16 + r.Intn(8000), 0x1fff, 0x1ffe, 32}), r.Intn(16), true, pay))
		c.Count(fmt.Sprintf("e2e.pes_start_in_a_transport_packet/adaptation_field_control_%d%d", pk[3]>>5&1, pk[3]>>4&1))
		if pk[3]&0x20 != 0 && pk[4] == 0 {
			c.Count("e2e.pes_start_behind_a_zero_length_adaptation_field")
		}
		got, err := packet.PESHeader(&pk)
		var ph5 pes.PESHeader
		if err == nil {
			ph5, err = pes.NewPESHeader(got)
		}
		c.Eval(1)
		if err != nil || ph5 == nil || !ph5.HasPTS() || ph5.PTS() != h.PTS || (h.PTSDTS == 3 && (!ph5.HasDTS() || ph5.DTS() != h.DTS)) {
			c.Fail("e2e:pes-times-through-a-transport-packet", fmt.Sprintf("a PES start with PTS %d (DTS %d, PTS_DTS_flags %d) carried in a transport packet (adaptation_field_control %d%d, adaptation_field_length %d): packet.PESHeader + NewPESHeader gave err=%v or other times", h.PTS, h.DTS, h.PTSDTS, pk[3]>>5&1, pk[3]>>4&1, pk[4], err), wit{Op: "packet.PESHeader, NewPESHeader", Value: h.PTS, Got: mon.Hex(pk[:])})
		}
	}
	// the header object is kept and looked at again after many later headers have been decoded
	{
		ptsdts, pts, dts := h.PTSDTS, h.PTS, h.DTS
		keptHeaders.Keep(c, "decoded PES header", r, func() string {
			if !ph.HasPTS() || ph.PTS() != pts || (ptsdts == 3) != ph.HasDTS() || (ptsdts == 3 && ph.DTS() != dts) {
				return fmt.Sprintf("it reports PTS %d (%v) / DTS %d (%v), it was decoded from PTS %d / DTS %d (PTS_DTS_flags %d)", ph.PTS(), ph.HasPTS(), ph.DTS(), ph.HasDTS(), pts, dts, ptsdts)
			}
			return ""
		})
	}
	// the same buffer receives the next header of the stream (same fixed bytes, other times) and is decoded again
	{
		hbk := append([]byte{}, hb...)
		h3 := h
		h3.PTS, h3.DTS = (h.PTS+3003)&(1<<33-1), (h.DTS+1501)&(1<<33-1)
		if nb3, _ := h3.Bytes(); len(nb3) == len(hb) {
			copy(hb, nb3)
			copy(hb[4:6], hbk[4:6]) // keep whatever PES_packet_length the first header had
			c.Count("e2e.same_buffer_next_header")
			if ph4, err := pes.NewPESHeader(hb); err != nil || ph4 == nil || ph4.PTS() != h3.PTS || (h.PTSDTS == 3 && ph4.DTS() != h3.DTS) {
				c.Fail("e2e:pes-stale-times-for-next-header-in-same-buffer", fmt.Sprintf("the buffer was refilled with the next header of the stream (PTS %d, DTS %d) and decoded again; the times read back are not those", h3.PTS, h3.DTS), wit{Op: "NewPESHeader on a refilled buffer", Value: h3.PTS})
			}
		}
		copy(hb, hbk)
	}
	// a second header decoded from its own buffer which is re-used before the first query
	hb3 := append([]byte{}, hb...)
	if ph3, err := pes.NewPESHeader(hb3); err == nil {
		for i := range hb3 {
			hb3[i] ^= 0x3c
		}
		if !ph3.HasPTS() || ph3.PTS() != h.PTS || (h.PTSDTS == 3 && ph3.DTS() != h.DTS) {
			c.Fail("e2e:pes-times-follow-callers-buffer", fmt.Sprintf("the caller overwrote its buffer before the first query and the decoded header reports PTS %d / DTS %d instead of %d / %d", ph3.PTS(), ph3.DTS(), h.PTS, h.DTS), wit{Op: "PTS after buffer re-use", Value: h.PTS})
		}
	}
	// the caller re-uses its buffer for the next packet: the values already decoded must not follow it
	h2 := ref.PES{StreamID: 0xe0, PTSDTS: 3, PTS: r.U33(), DTS: r.U33(), Payload: r.Bytes(len(hb))}
	nb, _ := h2.Bytes()
	copy(hb, nb)
	if !ph.HasPTS() || ph.PTS() != h.PTS || (h.PTSDTS == 3 && ph.DTS() != h.DTS) {
		c.Fail("e2e:pes-times-follow-callers-buffer", fmt.Sprintf("after the caller overwrote its buffer the decoded header reports PTS %d / DTS %d instead of %d / %d", ph.PTS(), ph.DTS(), h.PTS, h.DTS), wit{Op: "PTS after buffer re-use", Value: h.PTS})
	}
	c.Class(fmt.Sprintf("e2e/pcr=%v/opcr=%v/ptsdts=%d/pcrclass=%s/sid=%x", withP, withO, h.PTSDTS, popclass(v>>36), sid>>4))
}

// keptHeaders: decoded PES headers that are looked at again after many later ones were decoded.
var keptHeaders mon.Keeper

// tightField: clock references in an adaptation field that is exactly as long as its content, in front of a
// payload (the field cannot grow). They are read, overwritten in place and read back; then a setter that would
// have to grow the field is called, and whether or not it is refused the clock references still read what was set.
func tightField(c *mon.Ctx, r *gen.Rand) {
	hasP, hasO := r.Bool(), r.Bool()
	if !hasP && !hasO {
		hasO = true
	}
	v, o := r.Uint64()%ref.PCRMax, r.Uint64()%ref.PCRMax
	var p packet.Packet
	r.Fill(p[:])
	p[0], p[1], p[3] = 0x47, p[1]&0x5f, 0x30|p[3]&0x0f
	n, fl := 1, byte(0)
	if hasP {
		copy(p[5+n:], sl(ref.EncPCR(v)))
		n, fl = n+6, fl|0x10
	}
	if hasO {
		copy(p[5+n:], sl(ref.EncPCR(o)))
		n, fl = n+6, fl|0x08
	}
	p[4], p[5] = byte(n), fl|byte(r.Intn(8))<<5
	pay := append([]byte{}, p[5+n:]...)
	af, err := p.AdaptationField()
	if err != nil {
		c.Fail("e2e:tight-field-setup", "cannot obtain the adaptation field of a packet whose field is exactly as long as its content: "+err.Error(), wit{Op: "AdaptationField"})
		return
	}
	c.Count("e2e.tight_field")
	check := func(when string) bool {
		c.Eval(1)
		if hasP {
			if g, err := af.PCR(); err != nil || g != v {
				c.Fail("e2e:tight-field-pcr", fmt.Sprintf("%s: PCR() = %d, %v; the PCR in the field is %d", when, g, err, v), wit{Op: "PCR", Value: v, Got: fmt.Sprint(g)})
				return false
			}
		}
		if hasO {
			if g, err := af.OPCR(); err != nil || g != o {
				c.Fail("e2e:tight-field-opcr", fmt.Sprintf("%s: OPCR() = %d, %v; the OPCR in the field is %d", when, g, err, o), wit{Op: "OPCR", Value: o, Got: fmt.Sprint(g)})
				return false
			}
			if b, err := adaptationfield.OPCR(&p); err != nil || ref.DecPCR(b) != o {
				c.Fail("e2e:tight-field-opcr", fmt.Sprintf("%s: adaptationfield.OPCR bytes %x (%v) do not encode %d", when, b, err, o), wit{Op: "adaptationfield.OPCR", Value: o, Got: mon.Hex(b)})
				return false
			}
		}
		if got, err := p.Payload(); err != nil || !bytes.Equal(got, pay) {
			c.Fail("e2e:tight-field-payload", fmt.Sprintf("%s: the payload behind the adaptation field changed (%v)", when, err), wit{Op: "Payload"})
			return false
		}
		return true
	}
	if !check("as received") {
		return
	}
	if hasP {
		v = r.Uint64() % ref.PCRMax
		if err := af.SetPCR(v); err != nil {
			c.Fail("e2e:setpcr", "SetPCR on a present PCR failed: "+err.Error(), wit{Op: "SetPCR", Value: v})
			return
		}
	}
	if hasO {
		o = r.Uint64() % ref.PCRMax
		if err := af.SetOPCR(o); err != nil {
			c.Fail("e2e:setopcr", "SetOPCR on a present OPCR failed: "+err.Error(), wit{Op: "SetOPCR", Value: o})
			return
		}
	}
	if !check("after the clock references were overwritten in place") {
		return
	}
	// a field that is not there is asked for: there is no room, the call is expected to be refused
	var e error
	what := ""
	switch k := r.Intn(4); {
	case k == 0 && !hasP:
		what, e = "SetHasPCR(true)", af.SetHasPCR(true)
	case k == 1 && !hasO:
		what, e = "SetHasOPCR(true)", af.SetHasOPCR(true)
	case k == 2:
		what, e = "SetHasSplicingPoint(true)", af.SetHasSplicingPoint(true)
	default:
		what, e = "SetHasTransportPrivateData(true)", af.SetHasTransportPrivateData(true)
	}
	if e != nil {
		c.Count("e2e.tight_field_growth_refused")
		check("after " + what + " was refused (" + e.Error() + ")")
	}
}

func sl(a [6]byte) []byte { return a[:] }

func run(c *mon.Ctx) {
	c.Rule("values: every single bit and every bit pair of the 33-bit base / PTS, all 300 PCR extensions x 40 base patterns, slice-boundary patterns, maxima, PRNG values; each written over three prior contents (00, FF, random) inside a 16-byte canary buffer. distinct non-trivial = distinct (codec, population count, highest set bit / structured pattern id) with a non-zero value")
	c.Assume("reference encoders transcribed from ISO/IEC 13818-1 2.4.3.5 (PCR) and 2.4.3.7 (PTS/DTS); the 4-bit prefix written by InsertPTS is not asserted")
	c.Exhaustive("all single bits and bit pairs of a 33-bit value (PCR base and PTS)", 2*(33+33*32/2))
	c.StreamSeedless("bit-patterns", 33, func(i int, r *gen.Rand) {
		for j := i; j < 33; j++ {
			v := uint64(1)<<uint(i) | uint64(1)<<uint(j)
			pts(c, v, r, fmt.Sprintf("bits=%d,%d", i, j))
			pts(c, (1<<33-1)&^v, r, fmt.Sprintf("allbut=%d,%d", i, j))
			for _, ext := range []uint64{0, 1, 255, 256, 299} {
				pcr(c, v*300+ext, r, fmt.Sprintf("basebits=%d,%d/ext=%d", i, j, ext))
			}
		}
	})
	bases := []uint64{0, 1, 2, 1<<33 - 1, 1 << 32, 1<<32 - 1, 0x0aaaaaaaa, 0x155555555, 1 << 25, 1<<25 - 1, 1 << 17, 1<<17 - 1, 1 << 9, 1<<9 - 1, 1 << 1, 0x1fffffffe, 0x100000001, 0x0ffffffff,
		0x1fe000000, 0x001fe0000, 0x00001fe00, 0x0000001fe, 0x000000001, 0x1ffffffff >> 1, 0x123456789 & (1<<33 - 1), 0x0fedcba98, 3, 7, 0xff, 0xff00, 0xff0000, 0xff000000, 0x100, 0x10000, 0x1000000, 0x80, 0x8000, 0x800000, 0x80000000, 0x180000000}
	c.Exhaustive("all 300 PCR extensions x 40 base patterns", int64(300*len(bases)))
	c.StreamSeedless("pcr-extensions", 300, func(ext int, r *gen.Rand) {
		for bi, b := range bases {
			pcr(c, b*300+uint64(ext), r, fmt.Sprintf("base#%d/ext=%d", bi, ext))
		}
	})
	c.StreamSeedless("pts-boundaries", 1, func(_ int, r *gen.Rand) {
		for _, v := range []uint64{0, 1, 1<<33 - 1, 1 << 32, 1 << 30, 1<<30 - 1, 1 << 29, 1 << 15, 1<<15 - 1, 1 << 14, 1 << 8, 1 << 7, 1<<7 - 1, 1 << 22, 1<<22 - 1, 7 << 30, 0x7fff << 15, 0x7fff, 0x3fffffff, 0x1c0000000} {
			pts(c, v, r, fmt.Sprintf("boundary=%x", v))
		}
	})
	c.Stream("random", c.N(4000, 3000000), func(i int, r *gen.Rand) {
		for k := 0; k < 50; k++ {
			v := r.Uint64() % ref.PCRMax
			pcr(c, v, r, popclass(v))
			w := r.U33()
			pts(c, w, r, popclass(w))
		}
	})
	c.Stream("decoder-agreement", c.N(2000, 3000000), func(i int, r *gen.Rand) {
		for k := 0; k < 100; k++ {
			b := r.Bytes(5)
			if k%4 == 3 {
				b = r.Bytes(5 + r.Intn(12)) // a longer slice: only the first five bytes are the field
			}
			a, d := gots.ExtractTime(b), pes.ExtractTime(b)
			c.Eval(1)
			if a != d || a != ref.DecPTS(b) {
				c.Fail("pts:decoders-disagree", fmt.Sprintf("gots.ExtractTime(%x)=%d, pes.ExtractTime=%d, reference=%d", b, a, d, ref.DecPTS(b)), wit{Op: "ExtractTime", Got: mon.Hex(b)})
			}
			p := r.Bytes(6)
			ext := int(p[4]&1)<<8 | int(p[5])
			g := gots.ExtractPCR(p)
			if ext <= 299 {
				// a valid extension: the value is base*300+extension whatever the reserved bits are
				if g != ref.DecPCR(p) {
					c.Fail("pcr:decode-arbitrary", fmt.Sprintf("ExtractPCR(%x)=%d, reference=%d", p, g, ref.DecPCR(p)), wit{Op: "ExtractPCR", Got: mon.Hex(p)})
				}
			} else {
				c.Count("pcr.extension_above_299") // no PCR value is written like this; the statement fixes no result
			}
			// in either case the result depends on the value bits only
			q := append([]byte{}, p...)
			q[4] ^= byte(r.Intn(64)) << 1
			if g2 := gots.ExtractPCR(q); g2 != g {
				c.Fail("pcr:decode-depends-on-reserved-bits", fmt.Sprintf("ExtractPCR(%x)=%d but ExtractPCR(%x)=%d: the two differ in reserved bits only", p, g, q, g2), wit{Op: "ExtractPCR", Got: mon.Hex(p)})
			}
		}
		if c.WantSample() {
			v := r.U33()
			e := ref.EncPTS(2, v)
			c.Sample(func() interface{} { return wit{Op: "InsertPTS", Value: v, Want: mon.Hex(e[:])} })
		}
	})
	c.Floor("kept.decoded PES header.looked_at_again_after_64_or_more_later_objects", 4000)
	c.Floor("concurrent.calls", 20000)
	c.Stream("concurrent-codecs", c.N(8, 200), func(i int, r *gen.Rand) {
		c.Concurrent("InsertPCR/ExtractPCR/InsertPTS/ExtractTime", 8, 20000, r, func(q *gen.Rand) string {
			v, w := q.Uint64()%ref.PCRMax, q.U33()
			b := q.Bytes(16)
			gots.InsertPCR(b[0:6], v)
			gots.InsertPTS(b[8:13], w)
			e := ref.EncPCR(v)
			if !bytes.Equal(b[0:6], e[:]) || gots.ExtractPCR(b[0:6]) != v {
				return fmt.Sprintf("InsertPCR(%d) wrote %x (ISO encoding %x) and reads back %d", v, b[0:6], e, gots.ExtractPCR(b[0:6]))
			}
			if gots.ExtractTime(b[8:13]) != w || pes.ExtractTime(b[8:13]) != w || ref.DecPTS(b[8:13]) != w {
				return fmt.Sprintf("InsertPTS(%d) wrote %x which reads back %d / %d", w, b[8:13], gots.ExtractTime(b[8:13]), pes.ExtractTime(b[8:13]))
			}
			return ""
		})
		c.Class("concurrent-codecs")
	})
	// "no byte beyond the 6 (resp. 5) is touched", also not re-written with the value just read: a second
	// goroutine owns the bytes next to the field and must always read back what it wrote last
	c.Floor("neighbour_bytes.rounds", 100000)
	c.Stream("concurrent-neighbour-bytes", c.N(16, 160), func(i int, r *gen.Rand) {
		prev := runtime.GOMAXPROCS(4)
		defer runtime.GOMAXPROCS(prev)
		buf := make([]byte, 32)
		const rounds = 100000
		var lost int64
		var wg sync.WaitGroup
		stop := make(chan struct{})
		wg.Add(2)
		v0, w0 := r.Uint64()%ref.PCRMax, r.U33()
		go func() { // the codec writes the two fields over and over
			defer wg.Done()
			v, w := v0, w0
			for {
				select {
				case <-stop:
					return
				default:
				}
				gots.InsertPCR(buf[8:14], v)
				gots.InsertPTS(buf[20:25], w)
				v, w = (v+27000000)%ref.PCRMax, (w+3003)&(1<<33-1)
			}
		}()
		go func() { // the owner of the neighbouring bytes
			defer wg.Done()
			defer close(stop)
			for k := 0; k < rounds; k++ {
				x := byte(k)
				buf[14], buf[15], buf[7], buf[25], buf[26], buf[19] = x, x, x, x, x, x
				for spin := 0; spin < 20; spin++ {
					if buf[14] != x || buf[15] != x || buf[7] != x || buf[25] != x || buf[26] != x || buf[19] != x {
						lost++
						break
					}
				}
			}
		}()
		wg.Wait()
		c.Eval(rounds)
		c.CountN("neighbour_bytes.rounds", rounds)
		if lost > 0 {
			c.Fail("codec:touches-neighbouring-bytes", fmt.Sprintf("while InsertPCR / InsertPTS were writing their 6 / 5 bytes, the goroutine that owns the bytes next to the fields read back a value it had overwritten already (%d of %d rounds): the codec stores into bytes beyond its field", lost, rounds), wit{Op: "InsertPCR/InsertPTS next to bytes owned by another goroutine", Note: "the interleaving is not reproducible"})
		}
		c.Class("concurrent-neighbour-bytes")
	})
	c.Floor("e2e.tight_field_growth_refused", 2000)
	c.Floor("e2e.pes_header_data_length_200_or_more", 500)
	c.Stream("end-to-end", c.N(20000, 30000000), func(i int, r *gen.Rand) { endToEnd(c, r) })
}

func min(a, b int) int {
	if a < b {
		return a
	}
	return b
}
