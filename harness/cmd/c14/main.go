// C14 — PMT filtering emits exactly the well-formed PMT of the selected streams.
package main

import (
	"bytes"
	"fmt"
	"strings"

	"github.com/Comcast/gots/v2/packet"
	"github.com/Comcast/gots/v2/psi"

	"verif/harness/internal/gen"
	"verif/harness/internal/mon"
	"verif/harness/internal/ref"
)

func main() { mon.Main("C14", run) }

type wit struct {
	Shape     string   `json:"shape"`
	Requested []int    `json:"requested_pids"`
	PMTPID    int      `json:"pmt_pid"`
	Streams   []int    `json:"stream_pids"`
	Packets   []string `json:"input_packets_hex,omitempty"`
	Detail    string   `json:"detail"`
}

var reqStore = make([]int, 0, 512) // the caller's request list, re-used for every call

func run(c *mon.Ctx) {
	c.Rule("PMTs generated from ground truth (1..50 streams, descriptors, program descriptors) carried as pointer_field + section + 0xFF stuffing in random packetisations (splits 1..184, adaptation-field stuffing or 0xFF padding) x PID requests: subsets in random order, duplicates, absent PIDs, PAT / PMT PID mixed in, empty list; output compared with an independent re-assembly. distinct non-trivial = distinct (kept/total class, missing PIDs present, ignorable PIDs present, duplicates, packet count class, pointer class, last-packet padding style) with at least one stream removed or one PID missing")
	c.Assume("a request that consists only of the PAT/PMT PIDs is exercised for no-panic and input-untouched only (the statement is vacuous both ways); stream PIDs never equal the PAT or PMT PID")
	c.Floor("contract.all_present", 2000)
	c.Floor("contract.some_missing", 1000)
	c.Floor("contract.many_missing_pids", 300)
	c.Floor("contract.none_present", 500)
	c.Floor("contract.empty_request", 200)
	c.Floor("concurrent.calls", 5000)
	c.Stream("concurrent-filters", c.N(8, 200), func(i int, r *gen.Rand) {
		c.Concurrent("psi.FilterPMTPacketsToPids on packets of their own", 8, 2400, r, func(q *gen.Rand) string {
			p := ref.GenPMT(q, 2+q.Intn(10))
			const pmtPid = 0x1f00
			seen := map[int]bool{}
			for _, st := range p.Streams {
				if seen[st.PID] || st.PID == pmtPid || st.PID == 0 {
					return "" // this probe wants distinct stream PIDs
				}
				seen[st.PID] = true
			}
			keep := map[int]bool{}
			var req []int
			for _, st := range p.Streams {
				if q.Bool() {
					keep[st.PID] = true
					req = append(req, st.PID)
				}
			}
			if len(req) == 0 {
				return ""
			}
			pay := append([]byte{0}, p.Section()...)
			pk, _ := ref.Packetise(pmtPid, q.Intn(16), pay, ref.RandChunks(q, 1+len(pay)/60), q.Bool())
			var in []*packet.Packet
			for k := range pk {
				x := packet.Packet(pk[k])
				in = append(in, &x)
			}
			out, err := psi.FilterPMTPacketsToPids(in, req)
			if err != nil || len(out) == 0 {
				return fmt.Sprintf("filtering to present PIDs failed: %v (%d packets)", err, len(out))
			}
			var got []byte
			for _, o := range out {
				off := 4
				if o[3]&0x20 != 0 {
					off += 1 + int(o[4])
				}
				if o[3]&0x10 != 0 && off < 188 {
					got = append(got, o[off:]...)
				}
			}
			want := append([]byte{0}, p.SectionWith(func(pid int) bool { return keep[pid] })...)
			if len(got) < len(want) || !bytes.Equal(got[:len(want)], want) {
				return fmt.Sprintf("the filtered payload differs from pointer_field + the section of the selected streams at byte %d", ref.FirstDiff(got, want))
			}
			return ""
		})
		c.Class("concurrent-filters")
	})
	c.Stream("filter", c.N(20000, 15000000), func(i int, r *gen.Rand) {
		p := ref.GenPMT(r, -1)
		pmtPid := 32 + r.Intn(8000)
		for again := true; again; {
			again = false
			for k := range p.Streams {
				if p.Streams[k].PID == pmtPid {
					pmtPid = 32 + (pmtPid+1)%8000 // stream PIDs never equal the PMT PID (assumption above)
					again = true
				}
			}
		}
		ptr := 0
		if r.Chance(3) {
			ptr = r.PickInt([]int{1, 2, 7, 50, 100, 182, 183, 184, 200, 254, 255})
		}
		sec := p.Section()
		payload := append(ref.PointerPrefix(ptr), sec...)
		trailing := 0
		if r.Chance(3) {
			trailing = r.Intn(40)
			payload = append(payload, bytes.Repeat([]byte{0xff}, trailing)...)
		}
		padLast := r.Bool()
		raw, _ := ref.Packetise(pmtPid, r.Intn(16), payload, ref.RandChunks(r, 1+len(payload)/60), padLast)
		var pkts []*packet.Packet
		var snap []packet.Packet
		for k := range raw {
			q := packet.Packet(raw[k])
			if r.Chance(5) { // header variety: priority / scrambling bits must be carried over
				q[1] |= 0x20
			}
			pkts = append(pkts, &q)
			snap = append(snap, q)
		}
		// ---- build the request
		var streamPids []int
		for _, s := range p.Streams {
			streamPids = append(streamPids, s.PID)
		}
		perm := r.Perm(len(streamPids))
		keepN := r.Intn(len(streamPids) + 1)
		if r.Chance(5) {
			keepN = len(streamPids)
		}
		if r.Chance(6) {
			keepN = 0
		}
		var req []int
		keep := map[int]bool{}
		for _, ix := range perm[:keepN] {
			req = append(req, streamPids[ix])
			keep[streamPids[ix]] = true
		}
		dup := false
		if keepN > 0 && r.Chance(4) {
			req = append(req, req[r.Intn(len(req))])
			dup = true
		}
		var missing []int
		nMissing := r.Intn(3)
		if r.Chance(12) {
			nMissing = r.PickInt([]int{15, 16, 17, 18, 33, 40, 64, 100}) // a long request against a short table: every one is named
			c.Count("contract.many_missing_pids")
		}
		for k := nMissing; k > 0 && (nMissing > 2 || r.Chance(2)); k-- {
			m := 8190 - r.Intn(5)
			if r.Bool() {
				// any 13-bit value that is not a stream of the table is a missing PID: low table PIDs, the null PID, ...
				m = r.PickInt([]int{1, 2, 3, 15, 16, 17, 31, 32, 0x1ffe, 0x1fff, 0x1fff, 1 + r.Intn(8191)})
			}
			isStream := false
			for _, s := range streamPids {
				if s == m {
					isStream = true
				}
			}
			if !isStream && m != pmtPid {
				missing = append(missing, m)
				req = append(req, m)
			}
		}
		ign := false
		if r.Chance(4) {
			req = append(req, 0)
			ign = true
		}
		if r.Chance(4) {
			req = append(req, pmtPid)
			ign = true
		}
		// shuffle the request
		for k := len(req) - 1; k > 0; k-- {
			j := r.Intn(k + 1)
			req[k], req[j] = req[j], req[k]
		}
		reqSnap := append([]int{}, req...)
		shape := fmt.Sprintf("pointer_field=%d section=%d bytes streams=%d packets=%d trailing_ff=%d pad_last=%v", ptr, len(sec), len(p.Streams), len(pkts), trailing, padLast)
		w := func(d string) wit {
			x := wit{Shape: shape, Requested: reqSnap, PMTPID: pmtPid, Streams: streamPids, Detail: d}
			for k := range snap {
				x.Packets = append(x.Packets, mon.Hex(snap[k][:]))
			}
			return x
		}
		// the request is handed over in one and the same slice every time (a caller's scratch list, refilled for every
		// PMT): what it held for an earlier call is of no concern to this one
		reqCall := append(reqStore[:0], req...)
		out, err := psi.FilterPMTPacketsToPids(pkts, reqCall)
		c.Eval(1)
		for k := range req {
			if reqCall[k] != req[k] {
				c.Fail("filter:request-modified", "FilterPMTPacketsToPids modified the list of requested PIDs", w(""))
				return
			}
		}
		for k := range pkts {
			if *pkts[k] != snap[k] {
				c.Fail("filter:input-modified", fmt.Sprintf("FilterPMTPacketsToPids modified input packet %d", k), w(""))
				return
			}
		}
		for k := range req {
			if req[k] != reqSnap[k] {
				c.Fail("filter:request-modified", "FilterPMTPacketsToPids modified the PID list", w(""))
				return
			}
		}
		if len(req) == 0 {
			c.Count("contract.empty_request")
			same := err == nil && len(out) == len(pkts)
			for k := 0; same && k < len(out); k++ {
				same = out[k] != nil && *out[k] == snap[k]
			}
			if !same {
				c.Fail("contract:empty-request", fmt.Sprintf("an empty PID list did not return the input unchanged (%d packets, err %v)", len(out), err), w(""))
			}
			return
		}
		nonIgn := len(missing) + keepN
		if nonIgn == 0 {
			c.Count("contract.only_ignorable_pids")
			return // vacuous both ways
		}
		switch {
		case len(missing) == 0:
			c.Count("contract.all_present")
			if err != nil {
				c.Fail("contract:error-although-all-present", fmt.Sprintf("every requested PID is in the PMT (ignoring PAT/PMT PIDs) but an error was returned: %v", err), w(""))
				return
			}
		case keepN > 0:
			c.Count("contract.some_missing")
			if err == nil || len(out) == 0 {
				c.Fail("contract:some-missing", fmt.Sprintf("PIDs %v are missing and others are present: expected packets plus an error, got %d packets, err %v", missing, len(out), err), w(""))
				return
			}
		default:
			c.Count("contract.none_present")
			if err == nil || len(out) != 0 {
				sig := "contract:none-present"
				if ign {
					sig = "contract:none-present-with-ignorable-pid"
				}
				c.Fail(sig, fmt.Sprintf("none of the requested PIDs %v is in the PMT: expected no packets plus an error, got %d packets, err %v", reqSnap, len(out), err), w(""))
			}
			return
		}
		if err != nil {
			for _, m := range missing {
				if !strings.Contains(err.Error(), fmt.Sprint(m)) {
					c.Fail("contract:error-does-not-name-pid", fmt.Sprintf("the error %q does not name the missing PID %d", err, m), w(""))
				}
			}
		}
		// ---- expected payload: pointer_field + rebuilt section, then 0xFF
		want := append(ref.PointerPrefix(ptr), p.SectionWith(func(pid int) bool { return keep[pid] })...)
		if len(out) > len(pkts) || len(out) == 0 {
			c.Fail("filter:packet-count", fmt.Sprintf("%d packets returned for %d input packets", len(out), len(pkts)), w(""))
			return
		}
		var got []byte
		for k, o := range out {
			if o == nil {
				c.Fail("filter:nil-packet", "a returned packet is nil", w(""))
				return
			}
			hl := 4
			if snap[k][3]&0x20 != 0 {
				hl = 5 + int(snap[k][4])
			}
			if !bytes.Equal(o[:hl], snap[k][:hl]) {
				c.Fail("filter:header-differs", fmt.Sprintf("output packet %d does not carry the header (incl. adaptation field) of input packet %d: %x vs %x", k, k, o[:hl], snap[k][:hl]), w(""))
				return
			}
			got = append(got, o[hl:]...)
		}
		if len(got) < len(want) {
			c.Fail("filter:payload-short", fmt.Sprintf("the returned packets carry %d payload bytes, the filtered section needs %d", len(got), len(want)), w(""))
			return
		}
		if !bytes.Equal(got[:len(want)], want) {
			d := ref.FirstDiff(got[:len(want)], want)
			where := "stream loop"
			switch {
			case d <= ptr:
				where = "pointer field"
			case d < ptr+4:
				where = "table id / section_length"
			case d < ptr+1+12:
				where = "program header"
			case d >= len(want)-4:
				where = "CRC_32"
			}
			c.Fail("filter:payload-differs/"+where, fmt.Sprintf("filtered payload differs from the re-assembled section at byte %d (%s): got %#02x want %#02x (%s)", d, where, got[d], want[d], shape), w(fmt.Sprintf("got %x\nwant %x", got[:len(want)], want)))
			return
		}
		for _, b := range got[len(want):] {
			if b != 0xff {
				c.Fail("filter:padding", "bytes after the filtered section are not 0xFF padding", w(""))
				break
			}
		}
		// a second call on the same input with another request: the first result stays what it was,
		// and the second result is right on its own
		if len(streamPids) >= 2 && r.Chance(3) {
			var outSnap []packet.Packet
			for _, o := range out {
				outSnap = append(outSnap, *o)
			}
			keep2 := map[int]bool{streamPids[r.Intn(len(streamPids))]: true}
			var req2 []int
			for pid := range keep2 {
				req2 = append(req2, pid)
			}
			out2, err2 := psi.FilterPMTPacketsToPids(pkts, req2)
			c.Count("second_call_on_same_input")
			for k := range out {
				if *out[k] != outSnap[k] {
					c.Fail("filter:earlier-result-changed", "packets returned by an earlier call changed when the same input was filtered again", w(""))
					return
				}
			}
			for k := range pkts {
				if *pkts[k] != snap[k] {
					c.Fail("filter:input-modified", fmt.Sprintf("the second FilterPMTPacketsToPids call modified input packet %d", k), w(""))
					return
				}
			}
			want2 := append(ref.PointerPrefix(ptr), p.SectionWith(func(pid int) bool { return keep2[pid] })...)
			var got2 []byte
			for k, o := range out2 {
				hl := 4
				if snap[k][3]&0x20 != 0 {
					hl = 5 + int(snap[k][4])
				}
				got2 = append(got2, o[hl:]...)
			}
			if err2 != nil || len(got2) < len(want2) || !bytes.Equal(got2[:len(want2)], want2) {
				c.Fail("filter:second-call-differs", fmt.Sprintf("a second call on the same input (request %v after %v) does not yield the PMT of the requested stream (err %v)", req2, reqSnap, err2), w(""))
				return
			}
		}
		// the same section carried differently (other pointer_field, other split), same request:
		// the result follows the new carrier
		if r.Chance(3) {
			ptr3 := r.PickInt([]int{0, 1, 5, 9, 40})
			if ptr3 == ptr {
				ptr3 = ptr + 3
			}
			payload3 := append(ref.PointerPrefix(ptr3), sec...)
			raw3, _ := ref.Packetise(pmtPid, r.Intn(16), payload3, ref.RandChunks(r, 1+len(payload3)/60), r.Bool())
			var pkts3 []*packet.Packet
			for k := range raw3 {
				q := packet.Packet(raw3[k])
				pkts3 = append(pkts3, &q)
			}
			out3, err3 := psi.FilterPMTPacketsToPids(pkts3, req)
			c.Count("same_section_other_carrier")
			want3 := append(ref.PointerPrefix(ptr3), p.SectionWith(func(pid int) bool { return keep[pid] })...)
			var got3 []byte
			for k, o := range out3 {
				hl := 4
				if raw3[k][3]&0x20 != 0 {
					hl = 5 + int(raw3[k][4])
				}
				if !bytes.Equal(o[:hl], raw3[k][:hl]) {
					c.Fail("filter:header-differs", "output packet does not carry the header of its input packet (same section, other carrier)", w(""))
					return
				}
				got3 = append(got3, o[hl:]...)
			}
			if (err3 != nil) != (len(missing) > 0) || len(got3) < len(want3) || !bytes.Equal(got3[:len(want3)], want3) {
				c.Fail("filter:same-section-other-carrier", fmt.Sprintf("the same section carried with pointer_field %d (after a call with pointer_field %d and the same request) is not filtered to pointer_field + section (err %v)", ptr3, ptr, err3), w(""))
				return
			}
		}
		if keepN < len(streamPids) || len(missing) > 0 {
			kc := "some"
			if keepN == len(streamPids) {
				kc = "all"
			} else if keepN == 1 {
				kc = "one"
			}
			cls := fmt.Sprintf("kept=%s/missing=%v/ignorable=%v/dup=%v/pkts=%d/ptr=%v/padlast=%v", kc, len(missing) > 0, ign, dup, min(len(pkts), 4), ptr > 0, padLast)
			if c.Class(cls) && c.WantSample() && len(pkts) == 1 && len(sec) < 90 {
				c.Sample(func() interface{} { return w("filtered payload " + mon.Hex(want)) })
			}
		}
	})

	c.Stream("remove-streams", c.N(10000, 6000000), func(i int, r *gen.Rand) {
		p := ref.GenPMT(r, -1)
		payload := append([]byte{0}, p.Section()...)
		m, err := psi.NewPMT(payload)
		c.Eval(1)
		if err != nil || len(m.ElementaryStreams()) != len(p.Streams) {
			c.Fail("remove:setup", fmt.Sprintf("NewPMT did not decode the generated PMT: %v", err), nil)
			return
		}
		var rm []int
		gone := map[int]bool{}
		for _, s := range p.Streams {
			if r.Chance(3) {
				rm = append(rm, s.PID)
				gone[s.PID] = true
			}
		}
		if r.Chance(3) {
			absent := 8191 // a PID that is not a stream of this table
			for {
				is := false
				for _, s := range p.Streams {
					is = is || s.PID == absent
				}
				if !is {
					break
				}
				absent--
			}
			rm = append(rm, absent)
		}
		if len(rm) > 0 && r.Chance(3) {
			rm = append(rm, rm[0])
		}
		for k := len(rm) - 1; k > 0; k-- {
			j := r.Intn(k + 1)
			rm[k], rm[j] = rm[j], rm[k]
		}
		// queries before the removal must not influence the answers after it
		if r.Bool() {
			for _, s := range p.Streams {
				if !m.PIDExists(s.PID) {
					c.Fail("remove:pid-exists-before", fmt.Sprintf("PIDExists(%#x) is false for a listed stream", s.PID), nil)
				}
			}
			m.Pids()
			m.PIDExists(8191)
		}
		if own := m.Pids(); len(own) >= 2 && r.Chance(5) {
			// the list of PIDs to remove is (part of) the slice the PMT itself handed out
			a := r.Intn(len(own) - 1)
			bnd := a + 2 + r.Intn(len(own)-a-1)
			rm = own[a:bnd]
			gone = map[int]bool{}
			for _, pid := range rm {
				gone[pid] = true
			}
			c.Count("remove.list_is_own_pid_slice")
		}
		rmVals := append([]int{}, rm...)
		m.RemoveElementaryStreams(rm)
		rm = rmVals
		var want []ref.ES
		for _, s := range p.Streams {
			if !gone[s.PID] {
				want = append(want, s)
			}
		}
		ess, pids := m.ElementaryStreams(), m.Pids()
		w := wit{Shape: fmt.Sprintf("streams=%d", len(p.Streams)), Requested: rm, Detail: "RemoveElementaryStreams"}
		for _, s := range p.Streams {
			w.Streams = append(w.Streams, s.PID)
		}
		if len(ess) != len(want) || len(pids) != len(want) {
			c.Fail("remove:count", fmt.Sprintf("after removing %v there are %d streams / %d PIDs, expected %d", rm, len(ess), len(pids), len(want)), w)
			return
		}
		for k := range want {
			if ess[k].ElementaryPid() != want[k].PID || ess[k].StreamType() != want[k].Type || pids[k] != want[k].PID || len(ess[k].Descriptors()) != len(want[k].Descs) {
				c.Fail("remove:order-or-content", fmt.Sprintf("after removing %v stream %d is PID %#x (Pids()[%d]=%#x), expected PID %#x", rm, k, ess[k].ElementaryPid(), k, pids[k], want[k].PID), w)
				return
			}
		}
		for _, s := range p.Streams {
			if m.PIDExists(s.PID) == gone[s.PID] {
				c.Fail("remove:pid-exists", fmt.Sprintf("PIDExists(%#x)=%v after removing %v", s.PID, m.PIDExists(s.PID), rm), w)
				return
			}
		}
		// a second removal on the same object
		var rm2 []int
		for _, s := range want {
			if r.Chance(3) {
				rm2 = append(rm2, s.PID)
				gone[s.PID] = true
			}
		}
		m.RemoveElementaryStreams(rm2)
		left := 0
		for _, s := range p.Streams {
			if !gone[s.PID] {
				left++
			}
			if m.PIDExists(s.PID) == gone[s.PID] {
				c.Fail("remove:pid-exists-after-second-removal", fmt.Sprintf("PIDExists(%#x)=%v after removing %v and then %v", s.PID, m.PIDExists(s.PID), rm, rm2), w)
				return
			}
		}
		if len(m.ElementaryStreams()) != left || len(m.Pids()) != left {
			c.Fail("remove:count-after-second-removal", fmt.Sprintf("%d streams / %d PIDs left after two removals, expected %d", len(m.ElementaryStreams()), len(m.Pids()), left), w)
		}
		// the same bytes decoded again after streams were removed from the first result: all streams are there
		// again, and removing from the new result leaves exactly the others
		if m2, err := psi.NewPMT(append([]byte{}, payload...)); err != nil || m2 == nil {
			c.Fail("remove:decode-again", fmt.Sprintf("the same payload was rejected when decoded again: %v", err), w)
		} else {
			c.Count("remove.decoded_again_after_removal")
			ess2, pids2 := m2.ElementaryStreams(), m2.Pids()
			ok := len(ess2) == len(p.Streams) && len(pids2) == len(p.Streams)
			for k := 0; ok && k < len(p.Streams); k++ {
				ok = ess2[k].ElementaryPid() == p.Streams[k].PID && pids2[k] == p.Streams[k].PID && ess2[k].StreamType() == p.Streams[k].Type
			}
			if !ok {
				c.Fail("remove:decode-again-after-removal", fmt.Sprintf("after %v were removed from an earlier result, decoding the same bytes again yields %d streams / PIDs %v; the section lists %d", rm, len(ess2), pids2, len(p.Streams)), w)
				return
			}
			var rm3 []int
			gone3 := map[int]bool{}
			for _, s := range p.Streams {
				if r.Chance(3) {
					rm3 = append(rm3, s.PID)
					gone3[s.PID] = true
				}
			}
			m2.RemoveElementaryStreams(rm3)
			var left3 []int
			for _, s := range p.Streams {
				if !gone3[s.PID] {
					left3 = append(left3, s.PID)
				}
			}
			ess3 := m2.ElementaryStreams()
			ok = len(ess3) == len(left3) && len(m2.Pids()) == len(left3)
			for k := 0; ok && k < len(left3); k++ {
				ok = ess3[k].ElementaryPid() == left3[k] && m2.Pids()[k] == left3[k]
			}
			if !ok {
				c.Fail("remove:on-a-second-decode-of-the-same-bytes", fmt.Sprintf("removing %v from a second decode of the same bytes leaves %v, expected %v", rm3, m2.Pids(), left3), w)
			}
		}
		if len(rm) > 0 {
			c.Class(fmt.Sprintf("remove/removed=%d/of=%d", min(len(gone), 4), min(len(p.Streams), 9)))
		}
	})
}

func min(a, b int) int {
	if a < b {
		return a
	}
	return b
}
