// C11 — PES header decoding matches ISO 13818-1 for every header shape.
package main

import (
	"bytes"
	"fmt"

	"github.com/Comcast/gots/v2/packet"
	"github.com/Comcast/gots/v2/pes"

	"verif/harness/internal/gen"
	"verif/harness/internal/mon"
	"verif/harness/internal/ref"
)

func main() { mon.Main("C11", run) }

type wit struct {
	Input  string `json:"input_hex"`
	Shape  string `json:"shape"`
	Detail string `json:"detail"`
}

func genPES(r *gen.Rand, sid int, ptsdts byte) ref.PES {
	h := ref.PES{StreamID: byte(sid), PacketLen: uint16(r.Intn(65536)), Flags1: byte(r.Intn(64)), Flags2Low6: byte(r.Intn(64)),
		PTSDTS: ptsdts, PTS: r.U33(), DTS: r.U33()}
	if r.Chance(4) {
		h.PacketLen = uint16(r.PickInt([]int{0, 1, 0xff, 0x100, 0xffff}))
	}
	// the optional fields the flags announce, each with its ISO size, followed by 0xFF stuffing: the header is
	// consistent in itself (PES_header_data_length covers exactly what is announced, plus stuffing)
	h.Extra = nil
	for _, f := range []struct {
		bit  byte
		size int
	}{{0x20, 6}, {0x10, 3}, {0x08, 1}, {0x04, 1}, {0x02, 2}} { // ESCR, ES_rate, DSM_trick_mode, additional_copy_info, previous_PES_packet_CRC
		if h.Flags2Low6&f.bit != 0 {
			h.Extra = append(h.Extra, r.Bytes(f.size)...)
		}
	}
	if h.Flags2Low6&0x01 != 0 {
		h.Extra = append(h.Extra, 0x0e) // PES_extension with none of its own optional fields
	}
	switch r.Intn(4) {
	case 0: // exactly the announced fields: the header ends with the last of them
	default:
		h.Extra = append(h.Extra, bytes.Repeat([]byte{0xff}, r.Intn(12))...)
	}
	if r.Chance(25) { // the largest header_data_length
		need := map[byte]int{0: 0, 2: 5, 3: 10}[h.PTSDTS] + len(h.Extra)
		h.Extra = append(h.Extra, bytes.Repeat([]byte{0xff}, 255-need)...)
	}
	h.Payload = r.Bytes(r.Intn(24))
	if r.Chance(3) {
		h.Payload = r.Bytes(r.Intn(6)) // a bounded PES packet with very little (or no) payload
	}
	if ref.PESNoOptionalHeader(h.StreamID) && len(h.Payload) == 0 {
		h.Payload = r.Bytes(1 + r.Intn(8))
	}
	if r.Chance(6) {
		// the PES bytes fill the packet payload (no adaptation field) or leave 1..3 bytes: in a packet the
		// adaptation field in front of them then has length 0 (a single stuffing byte), 1 or 2
		h.Payload = nil
		b0, _ := h.Bytes()
		if want := r.PickInt([]int{183, 183, 184, 182, 181}); want > len(b0) {
			h.Payload = r.Bytes(want - len(b0))
		}
	}
	if r.Chance(2) {
		// PES_packet_length as ISO defines it: the number of bytes that follow the field
		b, _ := h.Bytes()
		h.PacketLen = uint16(len(b) - 6)
	}
	return h
}

func shape(h *ref.PES) string {
	return fmt.Sprintf("stream_id=%#02x optional_header=%v pts_dts=%d extra=%d payload=%d dai=%v", h.StreamID, !ref.PESNoOptionalHeader(h.StreamID), h.PTSDTS, len(h.Extra), len(h.Payload), h.DataAligned())
}

// keptHeaders: decoded PES headers that are looked at again after many later ones were decoded.
var keptHeaders mon.Keeper

func checkHeader(c *mon.Ctx, h *ref.PES) (b []byte, hdrEnd int, ok bool) {
	b, hdrEnd = h.Bytes()
	b = gen.SlackBy(b, gen.HashString(string(b)))
	snap := append([]byte{}, b...)
	if gen.HashString(string(b))%8 == 3 {
		// right after calls that fail: no state is carried over
		pes.NewPESHeader(b[:3])
		pes.NewPESHeader(nil)
		c.Count("decode_after_failed_decode")
	}
	if k := gen.HashString(string(b)); k%4 == 1 && len(b) > 7 {
		// the front of the same buffer is looked at first (a caller that only has the first bytes so far, or
		// peeks at the stream id): the buffer behind the view is the caller's and stays what it is
		n := 7 + int(k>>8)%min(12, len(b)-7)
		pes.NewPESHeader(b[:n])
		pes.NewPESHeader(b[:n:n])
		c.Count("front_of_the_buffer_decoded_first")
		if !bytes.Equal(b, snap) {
			c.Fail("input-modified-behind-the-view", fmt.Sprintf("NewPESHeader on the first %d bytes of a buffer changed the buffer behind them (first difference at byte %d)", n, ref.FirstDiff(b, snap)), wit{mon.Hex(snap), shape(h), ""})
			copy(b, snap)
		}
	}
	ph, err := pes.NewPESHeader(b)
	c.Eval(1)
	w := func(d string) wit { return wit{mon.Hex(snap), shape(h), d} }
	if err != nil || ph == nil {
		c.Fail("decode-error", fmt.Sprintf("NewPESHeader rejected a well-formed PES start (%s): %v", shape(h), err), w(fmt.Sprint(err)))
		return b, hdrEnd, false
	}
	ok = true
	bad := func(sig, d string) { c.Fail(sig, d+" ("+shape(h)+")", w(d)); ok = false }
	if !bytes.Equal(b, snap) {
		bad("input-modified", "NewPESHeader modified its input")
	}
	if h.StreamID == 0xBC {
		// program_stream_map: totality only (DESIGN section 3)
		_ = ph.Data()
		_ = ph.PTS()
		return b, hdrEnd, true
	}
	if g := ph.PacketStartCodePrefix(); g != 1 {
		bad("start-code-prefix", fmt.Sprintf("PacketStartCodePrefix()=%#x, want 0x000001", g))
	}
	if g := ph.StreamId(); g != h.StreamID {
		bad("stream-id", fmt.Sprintf("StreamId()=%#x", g))
	}
	if !bytes.Equal(ph.Data(), snap[hdrEnd:]) {
		sig := "data-offset"
		if ref.PESNoOptionalHeader(h.StreamID) {
			sig = "data-offset-no-optional-header"
		}
		bad(sig, fmt.Sprintf("Data() returned %d bytes %x..., the bytes after the header are %d bytes %x...", len(ph.Data()), head(ph.Data(), 6), len(snap)-hdrEnd, head(snap[hdrEnd:], 6)))
	}
	if !ref.PESNoOptionalHeader(h.StreamID) {
		if g := ph.DataAligned(); g != h.DataAligned() {
			bad("data-alignment", fmt.Sprintf("DataAligned()=%v", g))
		}
		if g := ph.HasPTS(); g != (h.PTSDTS >= 2) {
			bad("has-pts", fmt.Sprintf("HasPTS()=%v with PTS_DTS_flags=%02b", g, h.PTSDTS))
		}
		if g := ph.HasDTS(); g != (h.PTSDTS == 3) {
			bad("has-dts", fmt.Sprintf("HasDTS()=%v with PTS_DTS_flags=%02b", g, h.PTSDTS))
		}
		if h.PTSDTS >= 2 && ph.PTS() != h.PTS {
			bad("pts-value", fmt.Sprintf("PTS()=%d, encoded %d", ph.PTS(), h.PTS))
		}
		if h.PTSDTS == 3 && ph.DTS() != h.DTS {
			bad("dts-value", fmt.Sprintf("DTS()=%d, encoded %d", ph.DTS(), h.DTS))
		}
	}
	// an object of its own is kept and looked at again after 1 ... 4095 later headers were decoded
	if hk := gen.HashString(string(snap)); ok && hk%4 == 0 && !ref.PESNoOptionalHeader(h.StreamID) {
		own := append([]byte{}, snap...)
		if pk, err := pes.NewPESHeader(own); err == nil && pk != nil {
			truth, end := *h, hdrEnd
			keptHeaders.Keep(c, "decoded PES header", gen.New(hk, 7), func() string {
				if pk.StreamId() != truth.StreamID || pk.DataAligned() != truth.DataAligned() || pk.HasPTS() != (truth.PTSDTS >= 2) || pk.HasDTS() != (truth.PTSDTS == 3) ||
					(truth.PTSDTS >= 2 && pk.PTS() != truth.PTS) || (truth.PTSDTS == 3 && pk.DTS() != truth.DTS) || !bytes.Equal(pk.Data(), own[end:]) {
					return fmt.Sprintf("it reports stream id %#02x, flags %v/%v/%v, PTS %d, DTS %d, %d data bytes; it was decoded from %s", pk.StreamId(), pk.DataAligned(), pk.HasPTS(), pk.HasDTS(), pk.PTS(), pk.DTS(), len(pk.Data()), shape(&truth))
				}
				return ""
			})
		}
	}
	// the header is rendered as text (every method of the object that returns one string): a read like the getters
	if ok {
		for _, t := range mon.Printed(ph) {
			_ = t
		}
		c.Count("header_rendered_as_text")
		if !bytes.Equal(b, snap) {
			bad("input-modified-by-printing", fmt.Sprintf("rendering the decoded header as text (String / Format ...) changed the caller's buffer at byte %d", ref.FirstDiff(b, snap)))
			copy(b, snap)
		} else if !bytes.Equal(ph.Data(), snap[hdrEnd:]) {
			bad("data-changed-by-printing", "Data() no longer returns the bytes after the header once the header was rendered as text")
		}
	}
	// the scalar getters of a decoded header do not follow later writes to the caller's buffer
	// (Data() may alias the input and is not included)
	if ok && !ref.PESNoOptionalHeader(h.StreamID) && len(b) > 0 {
		for i := range b {
			b[i] ^= 0xa5
		}
		if ph.StreamId() != h.StreamID || ph.DataAligned() != h.DataAligned() || ph.HasPTS() != (h.PTSDTS >= 2) || ph.HasDTS() != (h.PTSDTS == 3) ||
			(h.PTSDTS >= 2 && ph.PTS() != h.PTS) || (h.PTSDTS == 3 && ph.DTS() != h.DTS) {
			bad("getters-follow-callers-buffer", "after the caller overwrote its buffer the decoded header reports different stream id / flags / PTS / DTS")
		}
		copy(b, snap)
		// the caller's buffer receives the next PES header of the same stream (same length, same fixed
		// bytes, other timestamps) and is decoded again: the new header reports the new times
		if h.PTSDTS >= 2 {
			h2 := *h
			h2.PTS, h2.DTS = (h.PTS+3003)&(1<<33-1), (h.DTS^0x155555555)&(1<<33-1)
			nb, _ := h2.Bytes()
			if len(nb) == len(b) {
				copy(b, nb)
				c.Count("same_buffer_next_header")
				if ph3, err := pes.NewPESHeader(b); err != nil || ph3 == nil || ph3.PTS() != h2.PTS || (h.PTSDTS == 3 && ph3.DTS() != h2.DTS) {
					bad("stale-times-for-next-header-in-same-buffer", fmt.Sprintf("the buffer was refilled with the next header of the stream (PTS %d) and decoded again: PTS()=%d", h2.PTS, func() uint64 {
						if ph3 == nil {
							return 0
						}
						return ph3.PTS()
					}()))
				}
				if ph.PTS() != h.PTS {
					bad("getters-follow-callers-buffer", "the header decoded first reports the times of the header decoded later from the same buffer")
				}
				copy(b, snap)
			}
		}
		// and the same when the buffer is re-used before the first query
		b2 := append([]byte{}, snap...)
		if ph2, err := pes.NewPESHeader(b2); err == nil && ph2 != nil {
			for i := range b2 {
				b2[i] ^= 0x5a
			}
			if ph2.StreamId() != h.StreamID || ph2.DataAligned() != h.DataAligned() || ph2.HasPTS() != (h.PTSDTS >= 2) || ph2.HasDTS() != (h.PTSDTS == 3) ||
				(h.PTSDTS >= 2 && ph2.PTS() != h.PTS) || (h.PTSDTS == 3 && ph2.DTS() != h.DTS) {
				bad("getters-follow-callers-buffer", "the caller overwrote its buffer before the first query and the decoded header reports different stream id / flags / PTS / DTS")
			}
		}
	}
	return b, hdrEnd, ok
}

func head(b []byte, n int) []byte {
	if len(b) > n {
		return b[:n]
	}
	return b
}

// carry puts payload bytes at the end of a packet with adaptation-field stuffing.
func carry(r *gen.Rand, pay []byte, pusi bool) packet.Packet {
	// any PID of the 13-bit field, its ends and the PIDs with a meaning of their own included: the condition
	// names none
	pid := 16 + r.Intn(8000)
	if r.Chance(6) {
		pid = r.PickInt([]int{0x1fff, 0x1fff, 0x1ffe, 0, 1, 2, 0x10, 0x11, 0x12, 15, 8016 + r.Intn(175)})
	}
	pk := ref.PayloadPacket(pid, r.Intn(16), pusi, pay)
	// header bits the condition does not mention: scrambling control, priority, error indicator
	pk[3] |= byte(r.PickInt([]int{0, 0, 1, 2, 3})) << 6
	if r.Chance(4) {
		pk[1] |= 0x20
	}
	if r.Chance(8) {
		pk[1] |= 0x80
	}
	// the adaptation field in front of the payload is any well-formed one of its length: optional fields in any
	// combination, also filling the field to the last byte or leaving one to three bytes of stuffing
	if L := int(pk[4]); pk[3]&0x20 != 0 && L >= 1 && r.Chance(2) {
		a := ref.GenAF(r, L)
		if room := L - 1 - 2; room >= 2 && r.Chance(3) {
			// transport private data and an adaptation field extension together, the first longer than the second
			e := r.Intn(min(4, room/2))
			t := room - e - r.Intn(min(4, room-e-e))
			if t > e {
				a = ref.AF{RAI: r.Bool()}
				tv, ev := r.Bytes(t), r.Bytes(e)
				a.TPD, a.Ext = &tv, &ev
			}
		}
		cnt := a.Content()
		if len(cnt) <= L {
			copy(pk[5:], cnt)
			for k := 5 + len(cnt); k < 5+L; k++ {
				pk[k] = 0xff
			}
		}
	}
	return packet.Packet(pk)
}

func packetLevel(c *mon.Ctx, r *gen.Rand, h *ref.PES, b []byte, hdrEnd int) {
	if len(b) > 184 || len(b) == 0 {
		return
	}
	w := func(p *packet.Packet, d string) wit { return wit{mon.Hex(p[:]), shape(h), d} }
	// 1. PUSI set, intact start code
	p := carry(r, b, true)
	snap := p
	if r.Chance(6) {
		// the unit starts seen on this PID before were not PES starts (sections, a stream that was scrambled until
		// now): what a packet is does not depend on what came before it on its PID
		for k := 4 + r.Intn(6); k > 0; k-- {
			o := ref.PaddedPacket(int(p[1]&0x1f)<<8|int(p[2]), k&15, true, append([]byte{0x00, byte(r.Intn(256)) | 0x02, 0xb0}, r.Bytes(20)...))
			op := packet.Packet(o)
			pes.AlignedPUSI(&op)
			packet.PESHeader(&op)
		}
		c.Count("packet.after_unit_starts_on_the_same_pid_that_were_not_pes")
	}
	if p[3]&0x20 != 0 && p[4] > 0 && p[5]&0x03 == 0x03 {
		c.Count("packet.pes_start_behind_private_data_and_extension")
	}
	hb, err := packet.PESHeader(&p)
	c.Eval(1)
	if err != nil || !bytes.Equal(hb, b) {
		c.Fail("packet:pes-header-missing", fmt.Sprintf("packet.PESHeader on a PUSI packet whose %d-byte payload starts 00 00 01 returned %d bytes, %v", len(b), len(hb), err), w(&snap, ""))
	}
	if !ref.PESNoOptionalHeader(h.StreamID) && h.StreamID != 0xBC && len(b) >= 9 {
		d, ok := pes.AlignedPUSI(&p)
		if ok != h.DataAligned() {
			c.Fail("packet:aligned-pusi-verdict", fmt.Sprintf("AlignedPUSI reported %v, data_alignment_indicator is %v", ok, h.DataAligned()), w(&snap, ""))
		} else if ok && !bytes.Equal(d, b[hdrEnd:]) {
			c.Fail("packet:aligned-pusi-data", "AlignedPUSI did not return the PES data bytes", w(&snap, ""))
		}
		c.Count(fmt.Sprintf("aligned_pusi.%v", ok))
		if len(b) == 183 {
			c.Count("packet.adaptation_field_length_0")
		}
	}
	if p != snap {
		c.Fail("packet:input-modified", "a packet-level PES accessor modified the packet", w(&snap, ""))
	}
	// 2. PUSI clear
	p = carry(r, b, false)
	if hb, err := packet.PESHeader(&p); err == nil || hb != nil {
		c.Fail("packet:pes-header-without-pusi", "packet.PESHeader returned bytes for a packet without payload_unit_start_indicator", w(&p, ""))
	}
	if _, ok := pes.AlignedPUSI(&p); ok {
		c.Fail("packet:aligned-without-pusi", "AlignedPUSI matched a packet without payload_unit_start_indicator", w(&p, ""))
	}
	// 3. damaged start code
	k := r.Intn(3)
	dmg := append([]byte{}, b...)
	dmg[k] ^= byte(1 << uint(r.Intn(8)))
	switch r.Intn(4) {
	case 0: // two wrong bytes that cancel in 8-bit arithmetic
		x := byte(1 + r.Intn(255))
		dmg[0], dmg[1], dmg[2] = x, byte(256-int(x)), 1
	case 1:
		copy(dmg, [][]byte{{0, 0, 0}, {0, 0, 2}, {0, 1, 0}, {1, 0, 0}, {0, 1, 1}, {1, 0, 1}, {0xff, 0xff, 0x01}, {0x00, 0x00, 0x81}, {0x80, 0x80, 0x01}}[r.Intn(9)])
	}
	p = carry(r, dmg, true)
	if hb, err := packet.PESHeader(&p); err == nil || hb != nil {
		c.Fail("packet:pes-header-bad-start-code", fmt.Sprintf("packet.PESHeader returned bytes although the payload starts %x", dmg[:3]), w(&p, ""))
	}
	if _, ok := pes.AlignedPUSI(&p); ok {
		c.Fail("packet:aligned-bad-start-code", "AlignedPUSI matched a payload without the 00 00 01 prefix", w(&p, ""))
	}
	// 4. adaptation-field-only packet with PUSI
	p = carry(r, b, true)
	p[3] = p[3]&^0x30 | 0x20
	if hb, err := packet.PESHeader(&p); err == nil || hb != nil {
		c.Fail("packet:pes-header-without-payload", "packet.PESHeader returned bytes for a packet without the payload flag", w(&p, ""))
	}
	// 5. the payload flag is clear in the other way as well (adaptation_field_control 00): the start code then sits
	// where a payload-only packet would have it, but the packet has no payload
	p = ref.PaddedPacket(int(p[1]&0x1f)<<8|int(p[2]), int(p[3]&0x0f), true, b)
	p[3] &^= 0x30
	if hb, err := packet.PESHeader(&p); err == nil || hb != nil {
		c.Fail("packet:pes-header-without-payload", "packet.PESHeader returned bytes for a packet with neither the payload nor the adaptation-field flag", w(&p, ""))
	}
	if _, ok := pes.AlignedPUSI(&p); ok {
		c.Fail("packet:aligned-without-payload", "AlignedPUSI matched a packet without the payload flag", w(&p, ""))
	}
	c.Eval(6)
}

func run(c *mon.Ctx) {
	c.Rule("PES starts built by a reference builder: all 256 stream ids x PTS_DTS_flags {00,10,11} x flag bytes x PES_header_data_length = needed..255 (extra optional / stuffing bytes) x payload 0..23 bytes, each also carried in a transport packet (PUSI on/off, damaged start code, no payload flag) and short payloads 0..5 bytes. distinct non-trivial = distinct (stream id, PTS_DTS_flags, has extra header bytes, has payload, data_alignment) for headers with at least one optional or payload byte")
	c.Assume("stream_id 0xBC (program_stream_map) is exercised for totality only; AlignedPUSI is asserted only for stream ids that carry the optional header and complete headers (>= 9 bytes)")
	c.Floor("kept.decoded PES header.looked_at_again_after_64_or_more_later_objects", 200)
	c.Floor("packet.adaptation_field_length_0", 200)
	c.Floor("front_of_the_buffer_decoded_first", 1000)
	c.Floor("packet.pes_start_behind_private_data_and_extension", 300)
	c.Floor("aligned_pusi.true", 500)
	c.Floor("aligned_pusi.false", 500)
	per := c.N(40, 300000)
	c.Exhaustive("all 256 stream ids x 3 PTS_DTS_flags values", 768)
	c.Floor("concurrent.calls", 5000)
	c.Stream("concurrent-decoders", c.N(8, 200), func(i int, r *gen.Rand) {
		c.Concurrent("pes.NewPESHeader", 8, 2000, r, func(q *gen.Rand) string {
			sid := 0xc0 + q.Intn(0x30)
			h := genPES(q, sid, q.PickByte([]byte{0, 2, 3}))
			b, hdrEnd := h.Bytes()
			ph, err := pes.NewPESHeader(q.Slack(b))
			if err != nil || ph == nil {
				return fmt.Sprintf("a well-formed header was rejected: %v (%s)", err, shape(&h))
			}
			if ph.StreamId() != h.StreamID || ph.HasPTS() != (h.PTSDTS >= 2) || ph.HasDTS() != (h.PTSDTS == 3) || (h.PTSDTS >= 2 && ph.PTS() != h.PTS) || (h.PTSDTS == 3 && ph.DTS() != h.DTS) || !bytes.Equal(ph.Data(), b[hdrEnd:]) {
				return "decoded values differ from the encoded ones (" + shape(&h) + ")"
			}
			return ""
		})
		c.Class("concurrent-decoders")
	})
	c.Stream("concurrent-readers-of-one-header", c.N(8, 200), func(i int, r *gen.Rand) {
		c.ConcurrentReaders("decoded PES header", c.N(300, 300), r, func(q *gen.Rand) func() string {
			h := genPES(q, 0xc0+q.Intn(0x30), q.PickByte([]byte{0, 2, 3}))
			b, hdrEnd := h.Bytes()
			ph, err := pes.NewPESHeader(b)
			if err != nil || ph == nil {
				return func() string { return fmt.Sprintf("a well-formed header was rejected: %v (%s)", err, shape(&h)) }
			}
			return func() string {
				if ph.StreamId() != h.StreamID || ph.HasPTS() != (h.PTSDTS >= 2) || ph.HasDTS() != (h.PTSDTS == 3) || (h.PTSDTS >= 2 && ph.PTS() != h.PTS) || (h.PTSDTS == 3 && ph.DTS() != h.DTS) || ph.DataAligned() != h.DataAligned() || !bytes.Equal(ph.Data(), b[hdrEnd:]) {
					return "values read differ from the encoded ones (" + shape(&h) + ")"
				}
				return ""
			}
		})
		c.Class("concurrent-readers-of-one-header")
	})
	// PES packets of video streams are unbounded (PES_packet_length 0): the bytes that follow the header are the data,
	// however many there are (64 KiB and more when a caller hands over a whole access unit)
	c.StreamSeedless("large-pes-data", 8, func(i int, r *gen.Rand) {
		h := genPES(r, 0xe0+i, []byte{0, 2, 3}[i%3])
		h.PacketLen = 0
		h.Payload = r.Bytes([]int{65535, 65536, 65537, 70000, 131072, 200000, 65536 - 9, 65536 + 19}[i])
		b, hdrEnd := h.Bytes()
		ph, err := pes.NewPESHeader(b)
		c.Eval(1)
		c.Count("large_pes_data.cases")
		if err != nil || ph == nil {
			c.Fail("decode-error", fmt.Sprintf("NewPESHeader rejected a well-formed PES start with %d data bytes: %v", len(h.Payload), err), wit{"", shape(&h), fmt.Sprint(err)})
			return
		}
		if d := ph.Data(); !bytes.Equal(d, b[hdrEnd:]) {
			c.Fail("data-offset-large-data", fmt.Sprintf("Data() returned %d bytes, %d bytes follow the header", len(d), len(b)-hdrEnd), wit{"", shape(&h), fmt.Sprintf("%d data bytes", len(h.Payload))})
		}
		if ph.StreamId() != h.StreamID || ph.HasPTS() != (h.PTSDTS >= 2) || (h.PTSDTS >= 2 && ph.PTS() != h.PTS) || (h.PTSDTS == 3 && ph.DTS() != h.DTS) {
			c.Fail("large-data-values", "stream id or timestamps of a PES start with a large payload differ from the encoded ones", wit{"", shape(&h), ""})
		}
		c.Class(fmt.Sprintf("large-data/%d", len(h.Payload)/60000))
	})
	c.Stream("by-stream-id", 256, func(sid int, r *gen.Rand) {
		for k := 0; k < per; k++ {
			h := genPES(r, sid, []byte{0, 2, 3}[k%3])
			b, hdrEnd, ok := checkHeader(c, &h)
			if ok {
				packetLevel(c, r, &h, b, hdrEnd)
			}
			if c.Class(fmt.Sprintf("sid=%02x/ptsdts=%d/extra=%v/payload=%v/dai=%v", sid, h.PTSDTS, len(h.Extra) > 0, len(h.Payload) > 0, h.DataAligned())) && c.WantSample() && sid >= 0xe0 && h.PTSDTS == 3 && len(b) < 40 {
				c.Sample(func() interface{} {
					return wit{mon.Hex(b), shape(&h), fmt.Sprintf("pts=%d dts=%d data starts at %d", h.PTS, h.DTS, hdrEnd)}
				})
			}
		}
	})
	// short payloads: 0..5 bytes with a start-code prefix as far as it fits
	c.Stream("short-payloads", c.N(3000, 10000000), func(i int, r *gen.Rand) {
		n := r.Intn(6)
		pay := []byte{0, 0, 1, byte(r.Intn(256)), byte(r.Intn(256))}[:min(n, 5)]
		if n > len(pay) {
			n = len(pay)
		}
		p := carry(r, pay, true)
		if n == 0 {
			// AFC=11 with adaptation_field_length 183 is not well-formed; use an AF-only packet instead
			p[3] = p[3]&^0x30 | 0x20
		}
		hb, err := packet.PESHeader(&p)
		c.Eval(1)
		if n >= 4 {
			if err != nil || !bytes.Equal(hb, pay) {
				c.Fail("packet:pes-header-4-byte-payload", fmt.Sprintf("a %d-byte payload starting 00 00 01 was not returned (%v)", n, err), wit{mon.Hex(p[:]), "short payload", ""})
			}
		} else if err == nil || hb != nil {
			c.Fail("packet:pes-header-short-payload", fmt.Sprintf("packet.PESHeader returned bytes for a %d-byte payload", n), wit{mon.Hex(p[:]), "short payload", ""})
		}
		c.Class(fmt.Sprintf("short/n=%d", n))
	})
}

func min(a, b int) int {
	if a < b {
		return a
	}
	return b
}
