// C03 — adaptation field stays a faithful ISO 13818-1 encoding under any edit history.
package main

import (
	"bytes"
	"fmt"
	"sort"
	"strings"

	"github.com/Comcast/gots/v2/packet"
	"github.com/Comcast/gots/v2/packet/adaptationfield"

	"verif/harness/internal/gen"
	"verif/harness/internal/mon"
	"verif/harness/internal/ref"
)

func main() { mon.Main("C03", run) }

type wit struct {
	Initial string   `json:"initial_packet"`
	History []string `json:"history"`
	Detail  string   `json:"detail"`
	Got     string   `json:"packet_after,omitempty"`
	Want    string   `json:"packet_expected,omitempty"`
}

// op kinds
const (
	opDI = iota
	opRAI
	opESPI
	opHasPCR
	opHasOPCR
	opHasSplice
	opHasTPD
	opHasExt
	opPCR
	opOPCR
	opSplice
	opTPD
	opExt
	opSetAF
	nOps
)

var opNames = []string{"SetDiscontinuity", "SetRandomAccess", "SetElementaryStreamPriority", "SetHasPCR", "SetHasOPCR", "SetHasSplicingPoint",
	"SetHasTransportPrivateData", "SetHasAdaptationFieldExtension", "SetPCR", "SetOPCR", "SetSpliceCountdown", "SetTransportPrivateData",
	"SetAdaptationFieldExtension", "SetAdaptationField"}

type op struct {
	kind   int
	flag   bool
	val    uint64
	data   []byte
	src    *ref.TSPacket
	srcPkt *packet.Packet // when set: the live packet of the other history is the source
	alias  int            // opTPD / opExt: 1, 2 = the argument is cut from the slice a getter of this very packet returned, 3 = from the buffer the packet lies in
}

func (o op) String() string {
	switch o.kind {
	case opDI, opRAI, opESPI, opHasPCR, opHasOPCR, opHasSplice, opHasTPD, opHasExt:
		return fmt.Sprintf("%s(%v)", opNames[o.kind], o.flag)
	case opPCR, opOPCR, opSplice:
		return fmt.Sprintf("%s(%d)", opNames[o.kind], o.val)
	case opTPD, opExt:
		return fmt.Sprintf("%s(%d bytes)", opNames[o.kind], len(o.data))
	}
	return fmt.Sprintf("SetAdaptationField(source with %d content bytes, flags %02x)", o.src.AF.Size(), o.src.AF.Content()[0])
}

type runner struct {
	c                   *mon.Ctx
	m                   ref.TSPacket
	buf                 [3 * 188]byte
	off                 int
	p                   *packet.Packet // buf[off : off+188]
	init                packet.Packet
	hist                []string
	kinds               map[string]bool
	maxFil              int
	refused, structural int
	dead                bool
}

func (x *runner) fail(sig, detail string, want *ref.Pkt) {
	w := wit{Initial: mon.Hex(x.init[:]), History: append([]string{}, x.hist...), Detail: detail, Got: mon.Hex(x.p[:])}
	if want != nil {
		w.Want = mon.Hex(want[:])
	}
	x.c.Fail(sig, detail, w)
	x.dead = true
}

// apply performs one operation on the real packet and on the model.
func (x *runner) apply(o op) {
	c := x.c
	af, err := x.p.AdaptationField()
	if err != nil {
		x.fail("setup:no-adaptation-field", "AdaptationField() failed on a packet with the adaptation field flag: "+err.Error(), nil)
		return
	}
	aliased := false
	if (o.kind == opTPD || o.kind == opExt) && o.alias != 0 {
		// the argument is (part of) what a getter of this packet returned: a view into the packet itself.
		// The value to be stored is what the argument holds when the call is made.
		var view []byte
		switch o.alias {
		case 1:
			view, _ = adaptationfield.TransportPrivateData(x.p)
		case 2:
			view, _ = af.AdaptationFieldExtension()
		default:
			// ... or a stretch of the enclosing buffer that begins in front of the packet (or anywhere in it) and
			// runs into it (or on behind it)
			lo := x.off - 30
			if lo < 0 {
				lo = 0
			}
			s0 := lo + int((o.val>>32)%uint64(x.off+150-lo))
			view = x.buf[s0:]
			if len(view) > 200 {
				view = view[:200]
			}
			x.c.Count("argument_is_cut_from_the_enclosing_buffer")
		}
		if len(view) >= 2 {
			a0 := int(o.val % uint64(len(view)))
			b0 := a0 + int((o.val>>16)%uint64(len(view)-a0+1))
			o.data = view[a0:b0:b0]
			aliased = true
			x.c.Count("argument_aliases_the_packet")
			x.kinds["aliased-argument"] = true
		}
	}
	next := x.m.Clone()
	a := &next.AF
	wantErr := false
	before := *x.p
	var got error
	x.hist = append(x.hist, o.String())
	c.Tracef("%s", o.String())
	adopt := func(off, n int) []byte { // bytes the library left in a freshly created fixed-size field
		b := make([]byte, n)
		if off+n <= 188 {
			copy(b, x.p[off:off+n])
		}
		return b
	}
	switch o.kind {
	case opDI:
		a.DI = o.flag
		got = af.SetDiscontinuity(o.flag)
	case opRAI:
		a.RAI = o.flag
		got = af.SetRandomAccess(o.flag)
	case opESPI:
		a.ESPI = o.flag
		got = af.SetElementaryStreamPriority(o.flag)
	case opHasPCR:
		created := o.flag && x.m.AF.PCR == nil
		if created {
			a.PCR = &[6]byte{}
		} else if !o.flag {
			a.PCR = nil
		}
		if next.AF.Size() > next.L {
			wantErr = true
		}
		got = af.SetHasPCR(o.flag)
		if created && got == nil {
			copy(a.PCR[:], adopt(6, 6))
		}
	case opHasOPCR:
		created := o.flag && x.m.AF.OPCR == nil
		if created {
			a.OPCR = &[6]byte{}
		} else if !o.flag {
			a.OPCR = nil
		}
		if next.AF.Size() > next.L {
			wantErr = true
		}
		got = af.SetHasOPCR(o.flag)
		if created && got == nil {
			off := 6
			if a.PCR != nil {
				off += 6
			}
			copy(a.OPCR[:], adopt(off, 6))
		}
	case opHasSplice:
		created := o.flag && x.m.AF.Splice == nil
		if created {
			a.Splice = new(byte)
		} else if !o.flag {
			a.Splice = nil
		}
		if next.AF.Size() > next.L {
			wantErr = true
		}
		got = af.SetHasSplicingPoint(o.flag)
		if created && got == nil {
			off := 6
			if a.PCR != nil {
				off += 6
			}
			if a.OPCR != nil {
				off += 6
			}
			*a.Splice = adopt(off, 1)[0]
		}
	case opHasTPD:
		if o.flag && x.m.AF.TPD == nil {
			a.TPD = &[]byte{}
		} else if !o.flag {
			a.TPD = nil
		}
		got = af.SetHasTransportPrivateData(o.flag)
	case opHasExt:
		if o.flag && x.m.AF.Ext == nil {
			a.Ext = &[]byte{}
		} else if !o.flag {
			a.Ext = nil
		}
		got = af.SetHasAdaptationFieldExtension(o.flag)
	case opPCR:
		if x.m.AF.PCR == nil {
			wantErr = true
		} else {
			e := ref.EncPCR(o.val)
			a.PCR = &e
		}
		got = af.SetPCR(o.val)
	case opOPCR:
		if x.m.AF.OPCR == nil {
			wantErr = true
		} else {
			e := ref.EncPCR(o.val)
			a.OPCR = &e
		}
		got = af.SetOPCR(o.val)
	case opSplice:
		if x.m.AF.Splice == nil {
			wantErr = true
		} else {
			v := byte(o.val)
			a.Splice = &v
		}
		got = af.SetSpliceCountdown(byte(o.val))
	case opTPD:
		if x.m.AF.TPD == nil {
			wantErr = true
		} else {
			v := append([]byte{}, o.data...)
			a.TPD = &v
		}
		got = af.SetTransportPrivateData(o.data)
	case opExt:
		if x.m.AF.Ext == nil {
			wantErr = true
		} else {
			v := append([]byte{}, o.data...)
			a.Ext = &v
		}
		got = af.SetAdaptationFieldExtension(o.data)
	case opSetAF:
		next.AF = o.src.AF.Clone()
		sp := packet.Packet(o.src.Bytes())
		srcp := &sp
		if o.srcPkt != nil {
			srcp = o.srcPkt
		}
		snap := *srcp
		got = x.p.SetAdaptationField((*packet.AdaptationField)(srcp))
		if *srcp != snap {
			x.fail("setaf:source-modified", "SetAdaptationField modified the source adaptation field", nil)
			return
		}
	}
	c.Eval(1)
	if !wantErr && next.AF.Size() > next.L {
		wantErr = true
	}
	name := opNames[o.kind]
	if aliased {
		if o.alias == 3 {
			name += "(argument cut from the buffer the packet lies in)"
		} else {
			name += "(argument cut from a getter result of the same packet)"
		}
	}
	if wantErr {
		x.refused++
		c.Count("refused")
		x.kinds["refusal"] = true
		if got == nil {
			why := "the result does not fit in adaptation_field_length"
			if next.AF.Size() <= next.L {
				why = "the field is absent"
			}
			x.fail("no-error:"+name, fmt.Sprintf("%s succeeded although %s (L=%d, content would be %d bytes)", o, why, next.L, next.AF.Size()), nil)
			return
		}
		if *x.p != before {
			d := ref.FirstDiff(x.p[:], before[:])
			x.fail("error-but-modified:"+name, fmt.Sprintf("%s returned %q but changed the packet (first difference at byte %d)", o, got, d), nil)
			return
		}
		c.Count("refused_and_unchanged")
		return
	}
	if got != nil {
		x.fail("spurious-error:"+name, fmt.Sprintf("%s failed with %q although the result fits (L=%d, content %d bytes)", o, got, next.L, next.AF.Size()), nil)
		return
	}
	if next.AF.Size() != x.m.AF.Size() {
		x.structural++
		x.kinds["resize"] = true
	}
	if next.AF.Size() == next.L && next.AF.Size() != x.m.AF.Size() {
		c.Count("capacity_exact_success")
		x.kinds["filled-exactly"] = true
	}
	x.m = next
	want := x.m.Bytes()
	if *x.p != packet.Packet(want) {
		d := ref.FirstDiff(x.p[:], want[:])
		where := "adaptation field"
		switch {
		case d < 4:
			where = "header"
		case d == 4:
			where = "adaptation_field_length"
		case d >= 5+x.m.L:
			where = "payload"
		case d >= 5+x.m.AF.Size():
			where = "stuffing"
		}
		x.fail("bytes:"+name+"/"+where, fmt.Sprintf("after %s byte %d (%s) is %#02x, the ISO serialisation of the logical values has %#02x", o, d, where, x.p[d], want[d]), &want)
		return
	}
	x.kinds[name] = true
	if f := x.m.AF.Size() * 8 / (x.m.L + 1); f > x.maxFil {
		x.maxFil = f
	}
	x.getters(o)
}

func (x *runner) getters(o op) {
	c, m := x.c, &x.m
	af, _ := x.p.AdaptationField()
	bad := func(sig, d string) { x.fail("getter:"+sig, "after "+o.String()+": "+d, nil) }
	if g, err := af.Discontinuity(); err != nil || g != m.AF.DI || adaptationfield.IsDiscontinuous(x.p) != m.AF.DI {
		bad("discontinuity", fmt.Sprintf("Discontinuity()=%v,%v / IsDiscontinuous=%v, set %v", g, err, adaptationfield.IsDiscontinuous(x.p), m.AF.DI))
	}
	if g, err := af.RandomAccess(); err != nil || g != m.AF.RAI || adaptationfield.IsRandomAccess(x.p) != m.AF.RAI {
		bad("random-access", fmt.Sprintf("RandomAccess()=%v,%v, set %v", g, err, m.AF.RAI))
	}
	if g, err := af.ElementaryStreamPriority(); err != nil || g != m.AF.ESPI || adaptationfield.IsESHigherPriority(x.p) != m.AF.ESPI {
		bad("es-priority", fmt.Sprintf("ElementaryStreamPriority()=%v,%v, set %v", g, err, m.AF.ESPI))
	}
	if af.Length() != m.L || int(adaptationfield.Length(x.p)) != m.L {
		bad("length", fmt.Sprintf("Length()=%d / %d, adaptation_field_length is %d", af.Length(), adaptationfield.Length(x.p), m.L))
	}
	// PCR
	if g, err := af.HasPCR(); err != nil || g != (m.AF.PCR != nil) || adaptationfield.HasPCR(x.p) != (m.AF.PCR != nil) {
		bad("has-pcr", fmt.Sprintf("HasPCR()=%v,%v present=%v", g, err, m.AF.PCR != nil))
	}
	if m.AF.PCR != nil {
		if g, err := af.PCR(); err != nil || g != ref.DecPCR(m.AF.PCR[:]) {
			bad("pcr", fmt.Sprintf("PCR()=%d,%v, last value set %d", g, err, ref.DecPCR(m.AF.PCR[:])))
		}
		if b, err := adaptationfield.PCR(x.p); err != nil || !bytes.Equal(b, m.AF.PCR[:]) {
			bad("pcr-func", fmt.Sprintf("adaptationfield.PCR=%x,%v, field bytes %x", b, err, m.AF.PCR[:]))
		}
	} else {
		if _, err := af.PCR(); err == nil {
			bad("pcr-absent", "PCR() returned no error for an absent PCR")
		}
		if _, err := adaptationfield.PCR(x.p); err == nil {
			bad("pcr-func-absent", "adaptationfield.PCR returned no error for an absent PCR")
		}
	}
	// OPCR
	if g, err := af.HasOPCR(); err != nil || g != (m.AF.OPCR != nil) || adaptationfield.HasOPCR(x.p) != (m.AF.OPCR != nil) {
		bad("has-opcr", fmt.Sprintf("HasOPCR()=%v,%v present=%v", g, err, m.AF.OPCR != nil))
	}
	if m.AF.OPCR != nil {
		if g, err := af.OPCR(); err != nil || g != ref.DecPCR(m.AF.OPCR[:]) {
			bad("opcr", fmt.Sprintf("OPCR()=%d,%v, last value set %d", g, err, ref.DecPCR(m.AF.OPCR[:])))
		}
		if b, err := adaptationfield.OPCR(x.p); err != nil || !bytes.Equal(b, m.AF.OPCR[:]) {
			bad("opcr-func", fmt.Sprintf("adaptationfield.OPCR=%x,%v, field bytes %x", b, err, m.AF.OPCR[:]))
		}
	} else {
		if _, err := af.OPCR(); err == nil {
			bad("opcr-absent", "OPCR() returned no error for an absent OPCR")
		}
		if _, err := adaptationfield.OPCR(x.p); err == nil {
			bad("opcr-func-absent", "adaptationfield.OPCR returned no error for an absent OPCR")
		}
	}
	// splice countdown
	if g, err := af.HasSplicingPoint(); err != nil || g != (m.AF.Splice != nil) || adaptationfield.HasSplicingPoint(x.p) != (m.AF.Splice != nil) {
		bad("has-splice", fmt.Sprintf("HasSplicingPoint()=%v,%v present=%v", g, err, m.AF.Splice != nil))
	}
	if m.AF.Splice != nil {
		if g, err := af.SpliceCountdown(); err != nil || g != int(int8(*m.AF.Splice)) {
			bad("splice", fmt.Sprintf("SpliceCountdown()=%d,%v, last value set %d", g, err, int8(*m.AF.Splice)))
		}
		if g, err := adaptationfield.SpliceCountdown(x.p); err != nil || g != *m.AF.Splice {
			bad("splice-func", fmt.Sprintf("adaptationfield.SpliceCountdown=%d,%v, last value set %d", g, err, *m.AF.Splice))
		}
	} else {
		if _, err := af.SpliceCountdown(); err == nil {
			bad("splice-absent", "SpliceCountdown() returned no error for an absent field")
		}
		if _, err := adaptationfield.SpliceCountdown(x.p); err == nil {
			bad("splice-func-absent", "adaptationfield.SpliceCountdown returned no error for an absent field")
		}
	}
	// transport private data
	if g, err := af.HasTransportPrivateData(); err != nil || g != (m.AF.TPD != nil) || adaptationfield.HasTransportPrivateData(x.p) != (m.AF.TPD != nil) {
		bad("has-tpd", fmt.Sprintf("HasTransportPrivateData()=%v,%v present=%v", g, err, m.AF.TPD != nil))
	}
	if m.AF.TPD != nil {
		v := *m.AF.TPD
		g, err := af.TransportPrivateData()
		switch {
		case err == nil && bytes.Equal(g, v):
		case err == nil && bytes.Equal(g, append([]byte{byte(len(v))}, v...)):
			// precise classifier of the recorded finding: result = [length byte] ++ value
			c.Fail("getter:method-TransportPrivateData-includes-length-byte", "(*AdaptationField).TransportPrivateData() returns the field with its length byte in front, unlike adaptationfield.TransportPrivateData",
				wit{Initial: mon.Hex(x.init[:]), History: append([]string{}, x.hist...), Detail: fmt.Sprintf("set %x, got %x", v, g)})
		default:
			bad("tpd", fmt.Sprintf("TransportPrivateData()=%x,%v, last value set %x", g, err, v))
		}
		if g2, err := adaptationfield.TransportPrivateData(x.p); err != nil || !bytes.Equal(g2, v) {
			bad("tpd-func", fmt.Sprintf("adaptationfield.TransportPrivateData=%x,%v, last value set %x", g2, err, v))
		}
		if g3, err := adaptationfield.EncoderBoundaryPoint(x.p); err != nil || !bytes.Equal(g3, v) {
			bad("ebp-func", fmt.Sprintf("adaptationfield.EncoderBoundaryPoint=%x,%v, private data is %x", g3, err, v))
		}
	} else {
		if _, err := af.TransportPrivateData(); err == nil {
			bad("tpd-absent", "TransportPrivateData() returned no error for an absent field")
		}
		if _, err := adaptationfield.TransportPrivateData(x.p); err == nil {
			bad("tpd-func-absent", "adaptationfield.TransportPrivateData returned no error for an absent field")
		}
		if _, err := adaptationfield.EncoderBoundaryPoint(x.p); err == nil {
			bad("ebp-func-absent", "adaptationfield.EncoderBoundaryPoint returned no error without private data")
		}
	}
	// extension
	if g, err := af.HasAdaptationFieldExtension(); err != nil || g != (m.AF.Ext != nil) || adaptationfield.HasAdaptationFieldExtension(x.p) != (m.AF.Ext != nil) {
		bad("has-ext", fmt.Sprintf("HasAdaptationFieldExtension()=%v,%v present=%v", g, err, m.AF.Ext != nil))
	}
	if m.AF.Ext != nil {
		v := *m.AF.Ext
		g, err := af.AdaptationFieldExtension()
		switch {
		case err == nil && bytes.Equal(g, v):
		case err == nil && bytes.Equal(g, append([]byte{byte(len(v))}, v...)):
			c.Fail("getter:method-AdaptationFieldExtension-includes-length-byte", "(*AdaptationField).AdaptationFieldExtension() returns the field with its length byte in front",
				wit{Initial: mon.Hex(x.init[:]), History: append([]string{}, x.hist...), Detail: fmt.Sprintf("set %x, got %x", v, g)})
		default:
			bad("ext", fmt.Sprintf("AdaptationFieldExtension()=%x,%v, last value set %x", g, err, v))
		}
	} else if _, err := af.AdaptationFieldExtension(); err == nil {
		bad("ext-absent", "AdaptationFieldExtension() returned no error for an absent field")
	}
	if *x.p != packet.Packet(m.Bytes()) {
		x.fail("getter:mutates", "a getter modified the packet", nil)
	}
}

func randomOp(r *gen.Rand, m *ref.TSPacket) op {
	o := op{kind: r.Intn(nOps), flag: r.Bool()}
	room := func(cur *[]byte) int { // bytes available to this variable field
		used := m.AF.Size()
		if cur != nil {
			used -= len(*cur)
		}
		return m.L - used
	}
	switch o.kind {
	case opPCR, opOPCR:
		o.val = r.Uint64() % ref.PCRMax
	case opSplice:
		o.val = uint64(r.Byte())
	case opTPD:
		k := r.Intn(16)
		switch r.Intn(6) {
		case 0:
			k = r.Intn(190)
		case 1, 2:
			if m.AF.TPD != nil {
				k = room(m.AF.TPD) + r.Intn(3) - 1
			}
		}
		if k < 0 {
			k = 0
		}
		if k > 255 {
			k = 255
		}
		if r.Chance(25) {
			// far more than any field can hold (also lengths that look small once narrowed to 8 bits)
			k = r.PickInt([]int{256, 257, 256 + r.Intn(40), 300, 511, 512, 512 + r.Intn(20), 1024, 65536 + r.Intn(10)})
		}
		o.data = r.Bytes(k)
		if r.Chance(10) {
			o.alias, o.val = 1+r.Intn(3), r.Uint64()
		}
	case opExt:
		k := r.Intn(10)
		switch r.Intn(6) {
		case 0:
			k = r.Intn(190)
		case 1, 2:
			if m.AF.Ext != nil {
				k = room(m.AF.Ext) + r.Intn(3) - 1
			}
		}
		if k < 0 {
			k = 0
		}
		if k > 255 {
			k = 255
		}
		if r.Chance(25) {
			// far more than any field can hold (also lengths that look small once narrowed to 8 bits)
			k = r.PickInt([]int{256, 257, 256 + r.Intn(40), 300, 511, 512, 512 + r.Intn(20), 1024, 65536 + r.Intn(10)})
		}
		o.data = r.Bytes(k)
		if r.Chance(10) {
			o.alias, o.val = 1+r.Intn(3), r.Uint64()
		}
	case opSetAF:
		L := 1 + r.Intn(183)
		if r.Chance(3) {
			L = m.L + r.Intn(3) - 1
			if L < 1 {
				L = 1
			}
			if L > 183 {
				L = 183
			}
		}
		afc := 3
		if L == 183 {
			afc = 2
		}
		s := ref.GenTSPacket(r, afc, L)
		o.src = &s
	}
	return o
}

// the packets under test live in three objects that are used over and over (the way a muxer re-uses its
// packet buffers): what the library learnt about a previous occupant of the same object must not matter
var (
	runners    [3]runner
	nextRunner int
)

func newRunner(c *mon.Ctx, m ref.TSPacket) *runner {
	x := &runners[nextRunner%len(runners)]
	nextRunner++
	*x = runner{c: c, m: m, kinds: map[string]bool{}}
	// ... at any position inside a larger buffer (a receive buffer cut into packets)
	x.off = int(func() uint64 { b := m.Bytes(); return gen.HashString(string(b[:])) }() % uint64(len(x.buf)-188+1))
	x.p = (*packet.Packet)(x.buf[x.off : x.off+188])
	*x.p = packet.Packet(m.Bytes())
	x.init = *x.p
	x.hist = nil
	return x
}

func lClass(L int) string {
	switch {
	case L <= 2:
		return fmt.Sprint(L)
	case L < 14:
		return "3-13"
	case L < 181:
		return "14-180"
	}
	return fmt.Sprint(L)
}

func (x *runner) finish() {
	if x.dead {
		return
	}
	if x.structural >= 1 && x.refused >= 1 {
		var ks []string
		for k := range x.kinds {
			ks = append(ks, k)
		}
		sort.Strings(ks)
		sig := fmt.Sprintf("L=%s/fill=%d/%s", lClass(x.m.L), x.maxFil, strings.Join(ks, "+"))
		if x.c.Class(sig) && x.c.WantSample() && len(x.hist) >= 6 && len(x.hist) <= 12 {
			x.c.Sample(func() interface{} {
				return wit{Initial: mon.Hex(x.init[:]), History: x.hist, Detail: "final packet " + mon.Hex(x.p[:])}
			})
		}
	}
}

func initialState(r *gen.Rand) ref.TSPacket {
	if r.Chance(3) {
		return ref.GenTSPacket(r, 2, 183)
	}
	L := 1 + r.Intn(182)
	if r.Chance(3) {
		L = r.PickInt([]int{1, 2, 7, 8, 13, 14, 181, 182})
	}
	m := ref.GenTSPacket(r, 3, L)
	if r.Chance(8) {
		// "adaptation_field_length 1..183, with or without payload": the payload flag is clear although the
		// field ends before byte 188; the bytes behind the field are still not the setters' to touch
		m.Hdr[3] &^= 0x10
	}
	return m
}

// concrete alphabet for the bounded-exhaustive sequences
func exhaustiveOp(i int, m *ref.TSPacket, r *gen.Rand) op {
	room := func(cur *[]byte) int {
		used := m.AF.Size()
		if cur != nil {
			used -= len(*cur)
		}
		return m.L - used
	}
	clip := func(k int) int {
		if k < 0 {
			return 0
		}
		if k > 255 {
			return 255
		}
		return k
	}
	switch i {
	case 0, 1:
		return op{kind: opHasPCR, flag: i == 0}
	case 2, 3:
		return op{kind: opHasOPCR, flag: i == 2}
	case 4, 5:
		return op{kind: opHasSplice, flag: i == 4}
	case 6, 7:
		return op{kind: opHasTPD, flag: i == 6}
	case 8, 9:
		return op{kind: opHasExt, flag: i == 8}
	case 10:
		return op{kind: opPCR, val: 0x1ffffffff*300 + 299}
	case 11:
		return op{kind: opSplice, val: 0x85}
	case 12:
		return op{kind: opTPD, data: []byte{0xa9, 0x01, 0xe0}}
	case 13: // private data that fills the field exactly
		return op{kind: opTPD, data: r.Bytes(clip(room(m.AF.TPD)))}
	case 14: // one byte too many
		return op{kind: opTPD, data: r.Bytes(clip(room(m.AF.TPD) + 1))}
	case 15:
		return op{kind: opExt, data: []byte{0x11, 0x22}}
	case 16:
		return op{kind: opExt, data: r.Bytes(clip(room(m.AF.Ext)))}
	}
	return op{kind: opDI, flag: true}
}

const alphabet = 17

func run(c *mon.Ctx) {
	c.Rule("random histories of 1..25 adaptation-field setter calls (14 operations, arguments biased to the capacity boundary: length = room-1, room, room+1) from random well-formed packets (adaptation_field_length 1..183, with/without payload, populated fields), plus bounded-exhaustive sequences over a 17-symbol concrete alphabet (depth 3; thorough depth 4) from 8 initial states; after every call the error value, all 188 bytes and every getter of both APIs are compared with the model. distinct non-trivial = distinct (adaptation_field_length class, maximum fill level, set of operation kinds incl. refusal / exact fill) of histories with at least one structural change and one refusal")
	c.Assume("a fixed-size field (PCR, OPCR, splice_countdown) that was just made present has no 'last value set': the model adopts the bytes the library left there; private data / extension are created empty; the source of SetAdaptationField is a well-formed adaptation field of length >= 1")
	c.Floor("refused_and_unchanged", 1000)
	c.Floor("capacity_exact_success", 1000)
	// the setters edit the packet they are called on, whoever else is editing another packet at that moment
	c.Floor("concurrent.calls", 20000)
	c.Stream("concurrent-editors", c.N(8, 200), func(i int, r *gen.Rand) {
		c.Concurrent("adaptation field setters on packets of their own", 8, 6000, r, func(q *gen.Rand) string {
			L := 40 + q.Intn(140)
			m := ref.GenTSPacket(q, 3, L)
			p := packet.Packet(m.Bytes())
			af, err := p.AdaptationField()
			if err != nil {
				return "AdaptationField() failed on a packet with the adaptation field flag: " + err.Error()
			}
			next := m.Clone()
			a := &next.AF
			room := func(cur *[]byte) int {
				used := a.Size()
				if cur != nil {
					used -= 1 + len(*cur)
				}
				return L - used - 1
			}
			var e1, e2 error
			if a.TPD == nil {
				v := []byte{}
				a.TPD = &v
				if a.Size() > L {
					return ""
				}
				e1 = af.SetHasTransportPrivateData(true)
			}
			if k := room(a.TPD); k >= 1 {
				v := q.Bytes(1 + q.Intn(k))
				a.TPD = &v
				e2 = af.SetTransportPrivateData(v)
			}
			if e1 != nil || e2 != nil {
				return fmt.Sprintf("a call whose result fits failed: %v %v", e1, e2)
			}
			if a.Ext != nil {
				if k := room(a.Ext); k >= 0 {
					v := q.Bytes(q.Intn(k + 1))
					a.Ext = &v
					if err := af.SetAdaptationFieldExtension(v); err != nil {
						return "SetAdaptationFieldExtension of a value that fits failed: " + err.Error()
					}
				}
			}
			a.DI = !a.DI
			af.SetDiscontinuity(a.DI)
			// the fixed-size fields that are present get new values as well
			if a.PCR != nil {
				v := q.Uint64() % ref.PCRMax
				e := ref.EncPCR(v)
				a.PCR = &e
				if err := af.SetPCR(v); err != nil {
					return "SetPCR on a present field failed: " + err.Error()
				}
			}
			if a.OPCR != nil {
				v := q.Uint64() % ref.PCRMax
				e := ref.EncPCR(v)
				a.OPCR = &e
				if err := af.SetOPCR(v); err != nil {
					return "SetOPCR on a present field failed: " + err.Error()
				}
			}
			if a.Splice != nil {
				v := q.Byte()
				a.Splice = &v
				if err := af.SetSpliceCountdown(v); err != nil {
					return "SetSpliceCountdown on a present field failed: " + err.Error()
				}
			}
			if want := next.Bytes(); p != packet.Packet(want) {
				d := ref.FirstDiff(p[:], want[:])
				return fmt.Sprintf("after setting private data / extension / discontinuity byte %d is %#02x, the ISO serialisation of the values set has %#02x", d, p[d], want[d])
			}
			if g, err := adaptationfield.TransportPrivateData(&p); err != nil || !bytes.Equal(g, *a.TPD) {
				return fmt.Sprintf("the private data reads back %x (%v), set %x", g, err, *a.TPD)
			}
			return ""
		})
		c.Class("concurrent-editors")
	})
	c.Stream("histories", c.N(30000, 20000000), func(i int, r *gen.Rand) {
		x := newRunner(c, initialState(r))
		n := 1 + r.Intn(25)
		for k := 0; k < n && !x.dead; k++ {
			x.apply(randomOp(r, &x.m))
		}
		x.finish()
	})
	// two packets edited in turns (nothing may carry over from one packet to the other), sometimes copying
	// the adaptation field of the one into the other
	c.Stream("interleaved", c.N(8000, 5000000), func(i int, r *gen.Rand) {
		x, y := newRunner(c, initialState(r)), newRunner(c, initialState(r))
		n := 2 + r.Intn(30)
		for k := 0; k < n && !x.dead && !y.dead; k++ {
			a, b := x, y
			if r.Bool() {
				a, b = y, x
			}
			o := randomOp(r, &a.m)
			if o.kind == opSetAF && r.Bool() {
				src := b.m.Clone()
				o.src, o.srcPkt = &src, b.p
			}
			a.apply(o)
			if !a.dead && *b.p != packet.Packet(b.m.Bytes()) {
				b.fail("interleaved:other-packet-changed", "an operation on one packet changed another packet", nil)
			}
		}
		c.Count("interleaved.histories")
		x.finish()
		y.finish()
	})
	depth := c.N(3, 5)
	total := 1
	for i := 0; i < depth; i++ {
		total *= alphabet
	}
	inits := 8
	c.Exhaustive(fmt.Sprintf("all sequences of %d operations over a %d-symbol concrete alphabet x %d initial states", depth, alphabet, inits), int64(total*inits))
	c.StreamSeedless("exhaustive", total*inits, func(i int, r *gen.Rand) {
		var m ref.TSPacket
		seq := i / inits
		rr := gen.New(uint64(i%inits), 99)
		switch i % inits {
		case 0:
			m = ref.TSPacket{Hdr: [4]byte{0x47, 0x01, 0x00, 0x20}, L: 183}
		case 1:
			m = ref.TSPacket{Hdr: [4]byte{0x47, 0x01, 0x00, 0x30}, L: 1}
		case 2:
			m = ref.TSPacket{Hdr: [4]byte{0x47, 0x01, 0x00, 0x30}, L: 7}
		case 3:
			m = ref.TSPacket{Hdr: [4]byte{0x47, 0x01, 0x00, 0x30}, L: 8}
		case 4:
			m = ref.TSPacket{Hdr: [4]byte{0x47, 0x01, 0x00, 0x30}, L: 14}
		case 5:
			m = ref.TSPacket{Hdr: [4]byte{0x47, 0x01, 0x00, 0x30}, L: 20}
			pc := ref.EncPCR(12345678901)
			sp := byte(3)
			tp := []byte{1, 2, 3}
			m.AF = ref.AF{RAI: true, PCR: &pc, Splice: &sp, TPD: &tp}
		case 6:
			m = ref.TSPacket{Hdr: [4]byte{0x47, 0x01, 0x00, 0x30}, L: 182}
			ex := []byte{9, 9}
			tp := []byte{}
			m.AF = ref.AF{DI: true, TPD: &tp, Ext: &ex}
		default:
			m = ref.TSPacket{Hdr: [4]byte{0x47, 0x01, 0x00, 0x30}, L: 13}
			pc, oc := ref.EncPCR(1), ref.EncPCR(2)
			m.AF = ref.AF{PCR: &pc, OPCR: &oc}
		}
		m.Payload = rr.Bytes(188 - 5 - m.L)
		x := newRunner(c, m)
		for k := 0; k < depth && !x.dead; k++ {
			x.apply(exhaustiveOp(seq%alphabet, &x.m, r))
			seq /= alphabet
		}
		x.finish()
	})
}
