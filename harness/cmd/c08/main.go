// C08 — SCTE-35 decoding reports exactly the encoded splice_info_section fields.
package main

import (
	"bytes"
	"fmt"
	"runtime"
	"sync/atomic"

	gots "github.com/Comcast/gots/v2"
	"github.com/Comcast/gots/v2/scte35"

	"verif/harness/internal/gen"
	"verif/harness/internal/mon"
	"verif/harness/internal/ref"
	"verif/harness/internal/s35"
)

func main() { mon.Main("C08", run) }

type wit = s35.Wit

// keptSignals: decoded signals that are looked at again after many later ones were decoded.
var keptSignals mon.Keeper

func run(c *mon.Ctx) {
	c.Rule("splice_info_sections built from ground truth by a reference SCTE 35 encoder: splice_null / time_signal / splice_insert with every flag combination, 0..4 descriptors (segmentation descriptors with every flag combination, component lists, 40-bit durations, UPID or MID, sub-segments; foreign tags), boundary values of all 33/40-bit fields, pointer_field in {0,1,5,30}; plus the four rejection classes. distinct non-trivial = distinct (command shape, multiset of descriptor shapes) with a command time or at least one descriptor")
	c.Assume("reference encoder in internal/ref/scte35.go (every section self-checked for CRC residue 0); encryption_algorithm is varied as noise; delivery restriction getters are asserted only when delivery_not_restricted is 0; a time_signal without time or a timed splice_insert without time are outside the supported syntax")
	c.Floor("kept.decoded signal.looked_at_again_after_64_or_more_later_objects", 4000)
	c.Floor("rejected.unsupported_command", 200)
	c.Floor("rejected.encrypted", 100)
	c.Floor("rejected.table_id", 100)
	c.Floor("rejected.identifier", 100)
	c.Floor("decode_again_after_edit", 2000)
	c.Floor("same_buffer_refilled_with_another_section", 2000)
	c.Floor("decode_after_descriptor_cut_short", 500)
	c.Floor("sections.command_length_not_given", 5000)
	c.Floor("sections.pointer_field_over_other_bytes", 2000)
	c.Floor("later_section_with_twin_identifiers", 1000)
	c.Stream("sections", c.N(60000, 60000000), func(i int, r *gen.Rand) {
		s := ref.GenSig(r, true)
		if r.Chance(8) {
			s.EncAlg = byte(r.Intn(64))
		}
		if r.Chance(5) {
			s.LegacyCmdLen = true // splice_command_length 0xFFF: not given
			c.Count("sections.command_length_not_given")
		}
		if s.Ptr > 0 && r.Chance(3) {
			// what the pointer_field points over is the tail of some other section: any bytes, also ones that
			// look like the start of a splice_info_section
			s.Skipped = r.Bytes(s.Ptr)
			if r.Bool() {
				s.Skipped[0] = 0xfc
				if t := ref.GenSig(r, false); r.Bool() {
					copy(s.Skipped, t.Section())
				}
			}
			c.Count("sections.pointer_field_over_other_bytes")
		}
		rej := ""
		if r.Chance(12) {
			switch r.Intn(5) {
			case 4:
				// encrypted AND an unreadable command type: everything behind the flag is ciphertext
				rej = "encrypted"
				s.Encrypted = true
				s.Cmd = r.PickByte([]byte{0x04, 0x07, 0xff, 0x5a, 0x99})
				s.CmdRaw = r.Bytes(r.Intn(12))
			case 0:
				rej = "unsupported_command"
				s.Cmd = r.PickByte([]byte{0x04, 0x07, 0xff, 0x01, 0x08})
				s.CmdRaw = r.Bytes(r.Intn(12))
			case 1:
				rej = "encrypted"
				s.Encrypted = true
			case 2:
				rej = "table_id"
				s.TableID = r.PickByte([]byte{0x00, 0x02, 0xfb, 0xfd, 0xff})
			default:
				rej = "identifier"
				d := ref.GenSegDesc(r, false)
				d.BadID = true
				if r.Bool() {
					// somebody else's descriptor under tag 2: a foreign identifier and a private body that
					// need not look like segmentation syntax at all (at least the 9 bytes a descriptor has)
					id := [][]byte{[]byte("ABCD"), []byte("cuei"), []byte("CUEJ"), {0, 0, 0, 0}, []byte("GA94")}[r.Intn(5)]
					d = ref.SegDesc{Foreign: true, Tag: 0x02, Body: append(append([]byte{}, id...), r.Bytes(5+r.Intn(40))...)}
				}
				s.Descs = append(s.Descs, d)
			}
		}
		sec := s.Section()
		if ref.CRC32MPEG2(sec) != 0 {
			panic("reference encoder produced a bad CRC")
		}
		in := r.Slack(s.Payload())
		snap := append([]byte{}, in...)
		if i%8 == 3 {
			// right after calls that fail: no state is carried over
			scte35.NewSCTE35(in[:r.Intn(len(in))])
			scte35.NewSCTE35(nil)
			c.Count("decode_after_failed_decode")
		}
		if i%8 == 5 {
			// ... also after a section that is consistent on the outside but whose segmentation descriptor is cut
			// short inside (the descriptor parser itself runs out of bytes)
			t := ref.GenSig(r, false)
			for j := range t.Descs {
				if enc := t.Descs[j].Enc(); !t.Descs[j].Foreign && len(enc) > 8 && r.Bool() {
					t.Descs[j] = ref.SegDesc{Foreign: true, Tag: 0x02, Body: append([]byte{}, enc[2:6+r.Intn(len(enc)-6)]...)}
				}
			}
			if _, err := scte35.NewSCTE35(t.Payload()); err != nil {
				c.Count("decode_after_descriptor_cut_short")
			}
		}
		x, err := scte35.NewSCTE35(in)
		c.Eval(1)
		if rej != "" {
			c.Count("rejected." + rej)
			want := map[string]error{"unsupported_command": gots.ErrSCTE35UnsupportedSpliceCommand, "encrypted": gots.ErrSCTE35EncryptionUnsupported,
				"table_id": gots.ErrUnknownTableID, "identifier": gots.ErrSCTE35InvalidDescriptorID}[rej]
			// the statement names the error; whether anything accompanies it (nil, the part decoded so far) is not constrained
			if x != nil {
				c.Count("rejected.value_next_to_the_error")
			}
			if err != want {
				c.Fail("reject:"+rej, fmt.Sprintf("a section that must be rejected (%s) returned %v instead of %q", rej, err, want), wit{mon.Hex(snap), s35.Shape(&s), rej})
			}
			c.Class("reject/" + rej)
			return
		}
		if err != nil || x == nil {
			sig := "decode:error"
			if s.Ptr == 255 {
				sig = "decode:error/pointer_field-255"
			}
			c.Fail(sig, fmt.Sprintf("a well-formed section was rejected: %v [%s]", err, s35.Shape(&s)), wit{mon.Hex(snap), s35.Shape(&s), fmt.Sprint(err)})
			return
		}
		if !bytes.Equal(x.Data(), sec) {
			c.Fail("decode:data", "Data() of a decoded signal is not the section bytes", wit{mon.Hex(snap), s35.Shape(&s), mon.Hex(x.Data())})
		}
		s35.CheckDecoded(c, "decode", &s, x, snap)
		if i%4 == 0 {
			// an object of its own is kept and looked at again after 1 ... 4095 later sections were decoded
			if xk, err := scte35.NewSCTE35(append([]byte{}, snap...)); err == nil && xk != nil {
				truth, in := s, snap
				keptSignals.Keep(c, "decoded signal", r, func() string {
					s35.CheckDecoded(c, "decode:object-kept-across-many-later-decodes", &truth, xk, in)
					return ""
				})
			}
		}
		if !bytes.Equal(in, snap) {
			c.Fail("decode:input-modified", "decoding or a getter modified the input", wit{mon.Hex(snap), s35.Shape(&s), ""})
		}
		// an object decoded earlier keeps reporting its own section after other sections were decoded
		if i%4 == 1 {
			t := ref.GenSig(r, true)
			scte35.NewSCTE35(t.Payload())
			t2 := ref.GenSig(r, false)
			if y2, err := scte35.NewSCTE35(t2.Payload()); err == nil {
				y2.UpdateData()
			}
			c.Count("earlier_object_rechecked")
			s35.CheckDecoded(c, "decode:object-after-later-decodes", &s, x, snap)
			if !bytes.Equal(x.Data(), sec) {
				c.Fail("decode:data-after-later-decodes", "Data() of a decoded signal changed after other sections were decoded / encoded", wit{mon.Hex(snap), s35.Shape(&s), mon.Hex(x.Data())})
			}
		}
		// ... and of nothing but the bytes: the caller's buffer is refilled with another section of the same length
		// (same shape, other tier / adjustment / event ids / times) and decoded from the same memory
		if i%4 == 2 {
			s2 := s
			s2.Descs = append([]ref.SegDesc{}, s.Descs...)
			s2.Tier, s2.PTSAdj, s2.CW = s.Tier^0x5a5, (s.PTSAdj+12345)&(1<<33-1), s.CW^0xff
			s2.TSPTS, s2.InsPTS, s2.Event = (s.TSPTS+777)&(1<<33-1), (s.InsPTS+999)&(1<<33-1), s.Event^0xffff
			for k := range s2.Descs {
				if !s2.Descs[k].Foreign {
					s2.Descs[k].Event ^= 0x0f0f0f0f
					s2.Descs[k].Num++
				}
			}
			if p2 := s2.Payload(); len(p2) == len(in) {
				copy(in, p2)
				snap2 := append([]byte{}, in...)
				c.Count("same_buffer_refilled_with_another_section")
				if y, err := scte35.NewSCTE35(in); err != nil || y == nil {
					c.Fail("decode-refilled-buffer:error", fmt.Sprintf("a section was rejected when decoded from a buffer that held another section of the same length before: %v", err), wit{Input: mon.Hex(snap2), Shape: s35.Shape(&s2)})
				} else {
					s35.CheckDecoded(c, "decode-from-a-buffer-refilled-with-another-section-of-the-same-length", &s2, y, snap2)
				}
				copy(in, snap)
			}
		}
		// ... and of all of the bytes: a later section differs from this one only in identifier bytes, chosen so that
		// a summary of them (one of the usual checksums, the bytes in another order, the first and last bytes) is
		// the same as for this one's
		if i%4 == 3 && len(s.Descs) > 0 {
			s3 := s
			s3.Descs = append([]ref.SegDesc{}, s.Descs...)
			twins := ""
			for k := range s3.Descs {
				d := &s3.Descs[k]
				if d.Foreign || d.Cancel {
					continue
				}
				if d.UPIDType == 0x0d {
					d.MID = append([]ref.UPID{}, d.MID...)
					for j := range d.MID {
						if b, kind, ok := gen.Twin(r, d.MID[j].Data); ok {
							d.MID[j].Data, twins = b, twins+kind+","
						}
					}
				} else if b, kind, ok := gen.Twin(r, d.UPID); ok {
					d.UPID, twins = b, twins+kind+","
				}
			}
			if twins != "" {
				c.Count("later_section_with_twin_identifiers")
				p3 := s3.Payload()
				if y, err := scte35.NewSCTE35(p3); err != nil || y == nil {
					c.Fail("decode-twin-identifiers:error", fmt.Sprintf("a section that differs from the one decoded before only in identifier bytes (%s) was rejected: %v", twins, err), wit{Input: mon.Hex(p3), Shape: s35.Shape(&s3)})
				} else {
					s35.CheckDecoded(c, "decode-of-a-later-section-that-differs-only-in-identifier-bytes-with-the-same-summary", &s3, y, p3)
					// and the earlier object still reports its own
					s35.CheckDecoded(c, "decode:object-after-a-later-section-with-twin-identifiers", &s, x, snap)
				}
			}
		}
		// decoding is a function of the bytes: edit the decoded object in place, decode the same bytes again
		if len(s.Descs) > 0 && i%3 == 0 {
			for _, d := range x.Descriptors() {
				for _, cp := range d.Components() {
					cp.SetPTSOffset(cp.PTSOffset() ^ 0x155555555)
					cp.SetComponentTag(cp.ComponentTag() ^ 0xff)
				}
				for _, u := range d.MID() {
					u.SetUPID([]byte("edited"))
				}
				d.SetEventID(d.EventID() ^ 0xffffffff)
				d.SetSegmentNumber(d.SegmentNumber() + 1)
			}
			x.SetTier(x.Tier() ^ 0xfff)
			in2 := append([]byte{}, snap...)
			if y, err := scte35.NewSCTE35(in2); err != nil || y == nil {
				c.Fail("decode-again:error", fmt.Sprintf("the same bytes were rejected when decoded a second time: %v", err), wit{Input: mon.Hex(snap), Shape: s35.Shape(&s)})
			} else {
				s35.CheckDecoded(c, "decode-again-after-editing-the-first-object", &s, y, snap)
			}
			c.Count("decode_again_after_edit")
		}
		if has, _ := s.CommandHasTime(); has || len(s.Descs) > 0 {
			ds := map[string]int{}
			for k := range s.Descs {
				ds[s35.DescShape(&s.Descs[k])]++
			}
			cls := s35.CmdShape(&s) + "|"
			for _, k := range s35.SortedKeys(ds) {
				cls += k + ","
			}
			if c.Class(cls) && c.WantSample() && len(in) < 90 && len(s.Descs) == 1 && !s.Descs[0].Foreign {
				c.Sample(func() interface{} { return wit{mon.Hex(snap), s35.Shape(&s), "decoded and compared getter by getter"} })
			}
		}
	})
	// the decoder is a function of its argument whoever else is decoding at the same time
	c.Floor("concurrent.calls", 5000)
	c.Stream("concurrent-decoders", c.N(8, 200), func(i int, r *gen.Rand) {
		c.Concurrent("scte35.NewSCTE35", 8, 2000, r, func(q *gen.Rand) string {
			s := ref.GenSig(q, true)
			in := q.Slack(s.Payload())
			x, err := scte35.NewSCTE35(in)
			if err != nil || x == nil {
				return fmt.Sprintf("a well-formed section was rejected: %v", err)
			}
			ds, ms := x.Descriptors(), s.SegDescs()
			if x.Tier() != s.Tier || len(ds) != len(ms) || !bytes.Equal(x.Data(), s.Section()) {
				return fmt.Sprintf("tier %#x / %d descriptors decoded, encoded tier %#x / %d descriptors (%s)", x.Tier(), len(ds), s.Tier, len(ms), s35.Shape(&s))
			}
			if has, t := s.CommandHasTime(); has && uint64(x.PTS()) != (t+s.PTSAdj)&(1<<33-1) {
				return fmt.Sprintf("PTS()=%d, command time %d + pts_adjustment %d", x.PTS(), t, s.PTSAdj)
			}
			for k, d := range ds {
				m := ms[k]
				if d.EventID() != m.Event || (!m.Cancel && (byte(d.TypeID()) != m.Type || (m.UPIDType != 0x0d && !bytes.Equal(d.UPID(), m.UPID)) || len(d.MID()) != len(m.MID) || len(d.Components()) != len(m.Comps))) || d.SCTE35() != x {
					return fmt.Sprintf("descriptor %d decoded with other values than encoded (%s)", k, s35.Shape(&s))
				}
			}
			return ""
		})
		c.Class("concurrent-decoders")
	})
	// one decoded signal read by several goroutines at once, right after it was decoded (nobody writes to it): every
	// reader is given the encoded values
	c.Stream("concurrent-readers-of-one-signal", c.N(8, 200), func(i int, r *gen.Rand) {
		for round := 0; round < c.N(600, 600); round++ {
			s := ref.GenSig(r, false)
			for len(s.Descs) < 2 {
				s.Descs = append(s.Descs, ref.GenSegDesc(r, false))
			}
			// long lists: a descriptor in component mode with 20..40 components, one with a MID of 20..60 entries
			big := ref.GenSegDesc(r, false)
			big.Cancel, big.ProgSeg, big.Comps, big.UPIDType, big.UPID, big.MID = false, false, nil, 0, nil, nil
			big.HasDur, big.HasSub = false, false
			for k := 20 + r.Intn(17); k > 0; k-- {
				big.Comps = append(big.Comps, ref.SegComp{Tag: r.Byte(), Off: r.U33()})
			}
			s.Descs[0] = big
			mid := ref.GenSegDesc(r, false)
			mid.Cancel, mid.UPIDType, mid.UPID, mid.MID, mid.ProgSeg, mid.Comps = false, 0x0d, nil, nil, true, nil
			for k := 20 + r.Intn(41); k > 0; k-- {
				mid.MID = append(mid.MID, ref.UPID{Type: r.PickByte([]byte{0x08, 0x09, 0x0c}), Data: r.Bytes(1)})
			}
			s.Descs[1] = mid
			if len(big.Enc()) > 257 || len(mid.Enc()) > 257 {
				panic("harness: descriptor too long")
			}
			var arrived int32
			x, err := scte35.NewSCTE35(s.Payload())
			if err != nil || x == nil {
				c.Fail("decode:error", fmt.Sprintf("a well-formed section was rejected: %v [%s]", err, s35.Shape(&s)), wit{Input: mon.Hex(s.Payload()), Shape: s35.Shape(&s)})
				return
			}
			ms := s.SegDescs()
			c.Concurrent("getters of one freshly decoded signal", 8, 2, r, func(q *gen.Rand) string {
				// the readers start together
				for atomic.AddInt32(&arrived, 1); atomic.LoadInt32(&arrived) < 8; {
					runtime.Gosched()
				}
				ds := x.Descriptors()
				if len(ds) != len(ms) || x.Tier() != s.Tier {
					return fmt.Sprintf("%d descriptors / tier %#x read, %d / %#x encoded", len(ds), x.Tier(), len(ms), s.Tier)
				}
				for k, d := range ds {
					m := ms[k]
					if d == nil || d.EventID() != m.Event || d.SCTE35() != x {
						return fmt.Sprintf("descriptor %d: event id or back reference differ from the encoded ones", k)
					}
					if m.Cancel {
						continue
					}
					cs := d.Components()
					if len(cs) != len(m.Comps) {
						return fmt.Sprintf("descriptor %d: %d components read, %d encoded", k, len(cs), len(m.Comps))
					}
					for j, co := range cs {
						if co == nil || co.ComponentTag() != m.Comps[j].Tag || uint64(co.PTSOffset()) != m.Comps[j].Off {
							return fmt.Sprintf("descriptor %d component %d: missing or other values than encoded", k, j)
						}
					}
					mid := d.MID()
					if len(mid) != len(m.MID) {
						return fmt.Sprintf("descriptor %d: %d MID entries read, %d encoded", k, len(mid), len(m.MID))
					}
					for j, u := range mid {
						if u == nil || byte(u.UPIDType()) != m.MID[j].Type || !bytes.Equal(u.UPID(), m.MID[j].Data) {
							return fmt.Sprintf("descriptor %d MID entry %d: missing or other values than encoded", k, j)
						}
					}
				}
				return ""
			})
		}
		c.Class("concurrent-readers-of-one-signal")
	})
	// section_length is a 12-bit field: sections of 1024..4093 bytes decode like small ones
	c.Floor("large.sections", 100)
	c.Floor("large.many_small_descriptors", 50)
	c.Stream("large-sections", c.N(600, 60000), func(i int, r *gen.Rand) {
		s := ref.GenSig(r, true)
		if s.Cmd == 5 && !s.Prog && r.Bool() {
			for k := 20 + r.Intn(200); k > 0 && len(s.Comps) < 255; k-- {
				s.Comps = append(s.Comps, ref.InsComp{Tag: r.Byte(), HasPTS: !r.Chance(3), PTS: r.U33()})
			}
		}
		want := r.PickInt([]int{1024, 1025, 1100, 1279, 1280, 2047, 2048, 2049, 3000, 3071, 3072, 4000, 4090, 4093, 1024 + r.Intn(3070)})
		many := i%5 == 3 // hundreds of minimal descriptors (cancelled events, short foreign ones): the loop has no entry limit
		if many {
			s.Descs = nil
			c.Count("large.many_small_descriptors")
		}
		for len(s.Section())-3 < want {
			d := ref.GenSegDesc(r, true)
			if many {
				if r.Bool() {
					d = ref.SegDesc{Cancel: true, Event: r.Uint32()}
				} else {
					d = ref.SegDesc{Foreign: true, Tag: r.PickByte([]byte{0x00, 0x01, 0x80, 0xfe}), Body: append([]byte("ABCD"), r.Bytes(r.Intn(2))...)}
				}
			}
			if !d.Foreign && !d.Cancel && d.UPIDType != 0x0d && d.UPIDType != 0 && r.Bool() {
				keep := d.UPID
				if d.UPID = r.Bytes(100 + r.Intn(130)); len(d.Enc())-2 > 255 {
					d.UPID = keep
				}
			}
			s.Descs = append(s.Descs, d)
			if len(s.Section())-3 > 4093 {
				s.Descs = s.Descs[:len(s.Descs)-1]
				if rest := want - (len(s.Section()) - 3) - 2; rest >= 4 && rest <= 255 {
					s.Descs = append(s.Descs, ref.SegDesc{Foreign: true, Tag: 0x80, Body: r.Bytes(rest)})
				}
				break
			}
		}
		sec := s.Section()
		if len(sec)-3 > 4093 || len(sec)-3 < 1024 {
			return
		}
		in := s.Payload()
		snap := append([]byte{}, in...)
		x, err := scte35.NewSCTE35(in)
		c.Eval(1)
		c.Count("large.sections")
		if err != nil || x == nil {
			c.Fail("decode-large:error", fmt.Sprintf("a well-formed section with section_length %d was rejected: %v", len(sec)-3, err), wit{mon.Hex(snap), s35.Shape(&s), fmt.Sprint(err)})
			return
		}
		if !bytes.Equal(x.Data(), sec) {
			c.Fail("decode-large:data", fmt.Sprintf("Data() of a decoded signal with section_length %d is not the section bytes", len(sec)-3), wit{mon.Hex(snap), s35.Shape(&s), mon.Hex(x.Data())})
		}
		s35.CheckDecoded(c, "decode-large", &s, x, snap)
		if !bytes.Equal(in, snap) {
			c.Fail("decode-large:input-modified", "decoding or a getter modified the input", wit{mon.Hex(snap), s35.Shape(&s), ""})
		}
		c.Class(fmt.Sprintf("large/len=%d/descs=%d/comps=%v", (len(sec)-3)/256, len(s.Descs)/4, len(s.Comps) > 3))
	})
	// a time_signal without a specified time is outside the quantified syntax and is not one of the four
	// rejection classes: the statement fixes no outcome (the first version of this check demanded a
	// rejection; DESIGN section 7). It is still decoded, so that whatever happens is observed and counted.
	c.Stream("time-signal-without-time", c.N(200, 5000), func(i int, r *gen.Rand) {
		s := ref.GenSig(r, false)
		s.Cmd, s.TSHas = 6, false
		x, err := scte35.NewSCTE35(s.Payload())
		c.Eval(1)
		if err != nil || x == nil {
			c.Count("time_signal_without_time.rejected")
		} else {
			c.Count("time_signal_without_time.accepted")
		}
	})
}
