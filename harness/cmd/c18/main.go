// C18 — writer adapters deliver every 188-byte packet once, in order, unmodified.
package main

import (
	"bufio"
	"bytes"
	"errors"
	"fmt"
	"io"
	"reflect"
	"runtime"
	"strings"
	"sync"
	"sync/atomic"

	gots "github.com/Comcast/gots/v2"
	"github.com/Comcast/gots/v2/packet"

	"verif/harness/internal/gen"
	"verif/harness/internal/mon"
	"verif/harness/internal/ref"
)

func main() { mon.Main("C18", run) }

var (
	errW = errors.New("injected packet-writer failure")
	errR = errors.New("injected reader failure")
	errC = errors.New("injected close result")
)

type wit struct {
	Op        string `json:"op"`
	Packets   int    `json:"complete_packets"`
	Tail      int    `json:"tail_bytes"`
	FailWrite int    `json:"failing_write_position"`
	FailRead  int    `json:"reader_fails_after_bytes"`
	Reader    string `json:"reader"`
	Adapter   string `json:"adapter"`
	Got       string `json:"got"`
	Want      string `json:"want"`
}

// sink is the wrapped PacketWriter double: copies each packet on receipt.
type sink struct {
	got     [][]byte
	failAt  int
	failCnt int   // the count the failing write reports together with its error (0, partial or the full 188)
	failErr error // the error of the failing write (default errW)
	calls   int   // WritePacket calls, including the failing one
	closed  int
}

func (s *sink) werr() error {
	if s.failErr != nil {
		return s.failErr
	}
	return errW
}

func (s *sink) WritePacket(p *packet.Packet) (int, error) {
	s.calls++
	if len(s.got) == s.failAt {
		s.failAt = -2 // fail once; a later delivery is then visible in got
		return s.failCnt, s.werr()
	}
	s.got = append(s.got, append([]byte{}, p[:]...))
	return packet.PacketSize, nil
}
func (s *sink) Close() error { s.closed++; return errC }

// sinkW is a packet writer that also has a Write method of its own (for example a type embedding a
// bytes.Buffer): the adapter must still split slices into WritePacket calls.
type sinkW struct {
	sink
	foreignWrites int
}

func (s *sinkW) Write(p []byte) (int, error) { s.foreignWrites++; return len(p), nil }

// bulk is a reader of left bytes that hands out whatever the destination already holds (the content does not
// matter to the caller of this one), as much as is asked for.
type bulk struct{ left int64 }

func (b *bulk) Read(p []byte) (int, error) {
	if b.left == 0 {
		return 0, io.EOF
	}
	n := int64(len(p))
	if n > b.left {
		n = b.left
	}
	b.left -= n
	return int(n), nil
}

type oneByte struct{ r io.Reader }

func (o oneByte) Read(p []byte) (int, error) {
	if len(p) == 0 {
		return 0, nil
	}
	return o.r.Read(p[:1])
}

// gated hands out 188 bytes per Read; its Read number gateAt (counted from 0) does not answer before the gate is
// opened. state: 0 = that Read has not been asked for, 1 = it is waiting, 2 = it has answered.
type gated struct {
	data   []byte
	reads  int
	gateAt int
	gate   chan struct{}
	done   chan struct{}
	once   sync.Once
	state  int32
}

func (g *gated) Read(p []byte) (int, error) {
	idx := g.reads
	g.reads++
	if idx == g.gateAt {
		atomic.StoreInt32(&g.state, 1)
		<-g.gate
	}
	if len(g.data) == 0 {
		if idx == g.gateAt {
			atomic.StoreInt32(&g.state, 2)
			g.done <- struct{}{}
		}
		return 0, io.EOF
	}
	n := copy(p, g.data[:188])
	g.data = g.data[n:]
	if idx == g.gateAt {
		atomic.StoreInt32(&g.state, 2)
		g.done <- struct{}{}
	}
	return n, nil
}

type chunked struct {
	r   io.Reader
	rng *gen.Rand
	max int
}

func (c *chunked) Read(p []byte) (int, error) {
	n := 1 + c.rng.Intn(c.max)
	if n > len(p) {
		n = len(p)
	}
	return c.r.Read(p[:n])
}

// rearmed is a reader of the caller's own that is given new data between calls (the same object every time).
type rearmed struct {
	data []byte
	step int
}

func (a *rearmed) Read(p []byte) (int, error) {
	if len(a.data) == 0 {
		return 0, io.EOF
	}
	n := a.step
	if n > len(p) {
		n = len(p)
	}
	if n > len(a.data) {
		n = len(a.data)
	}
	copy(p, a.data[:n])
	a.data = a.data[n:]
	return n, nil
}

// dataErr returns the final data together with io.EOF (or the injected error).
type dataErr struct {
	b   []byte
	err error
}

func (d *dataErr) Read(p []byte) (int, error) {
	if len(d.b) == 0 {
		return 0, d.err
	}
	n := copy(p, d.b)
	d.b = d.b[n:]
	if len(d.b) == 0 {
		return n, d.err
	}
	return n, nil
}

type failAfter struct {
	b   []byte
	err error
}

func (f *failAfter) Read(p []byte) (int, error) {
	if len(f.b) == 0 {
		if f.err != nil {
			return 0, f.err
		}
		return 0, errR
	}
	n := copy(p, f.b)
	f.b = f.b[n:]
	return n, nil
}

// oneShot hands out data[:failAt] in chunks, reports err once together with the chunk that reaches failAt
// (or with no bytes when failAt is 0), and carries on with the rest of the data afterwards, the way a
// connection does after a deadline: the failure is reported once, it is the reader's own, and it ends ReadFrom.
type oneShot struct {
	b      []byte
	pos    int
	failAt int
	err    error
	fired  bool
	r      *gen.Rand
}

func (o *oneShot) Read(p []byte) (int, error) {
	if len(p) == 0 {
		return 0, nil
	}
	end := len(o.b)
	if !o.fired {
		end = o.failAt
	}
	n := copy(p, o.b[o.pos:end])
	if n > 1 && o.r.Bool() {
		n = 1 + o.r.Intn(n)
	}
	o.pos += n
	if !o.fired && o.pos == o.failAt {
		o.fired = true
		return n, o.err
	}
	if o.fired && o.pos == len(o.b) && n == 0 {
		return 0, io.EOF
	}
	return n, nil
}

// stalling returns (0, nil) now and then, which io.Reader allows ("nothing happened, try again").
type stalling struct {
	r   io.Reader
	rng *gen.Rand
}

func (s *stalling) Read(p []byte) (int, error) {
	if s.rng.Chance(3) {
		return 0, nil
	}
	n := 1 + s.rng.Intn(250)
	if n > len(p) {
		n = len(p)
	}
	return s.r.Read(p[:n])
}

// the reader's own failure comes in several kinds: a plain error, errors that wrap io.EOF or
// io.ErrUnexpectedEOF, and the bare io.ErrUnexpectedEOF (what a truncated decompressor returns)
var readerErrs = []error{errR, fmt.Errorf("connection lost: %w", io.EOF), fmt.Errorf("truncated member: %w", io.ErrUnexpectedEOF), io.ErrUnexpectedEOF, multiErr{errR, io.EOF}}

// multiErr is an error whose dynamic type is a slice (like go/scanner.ErrorList): it cannot be a map key
// and cannot be compared with ==.
type multiErr []error

func (m multiErr) Error() string { return fmt.Sprintf("%d errors, the first: %v", len(m), m[0]) }

// same compares two errors without tripping over uncomparable dynamic types.
func same(a, b error) (eq bool) {
	defer func() {
		if recover() != nil {
			eq = reflect.DeepEqual(a, b)
		}
	}()
	return a == b
}

// tempErr is a temporary, net.Error-style failure of the packet writer.
type tempErr struct{}

func (tempErr) Error() string   { return "injected temporary packet-writer failure" }
func (tempErr) Temporary() bool { return true }
func (tempErr) Timeout() bool   { return true }

const nReaderKinds = 12

func mkReader(kind int, data []byte, failR int, r *gen.Rand) (io.Reader, string) {
	return mkReaderErr(kind, data, failR, r, errR)
}

func mkReaderErr(kind int, data []byte, failR int, r *gen.Rand, rerr error) (io.Reader, string) {
	var src io.Reader
	avail := data
	if failR >= 0 {
		avail = data[:failR]
		src = &failAfter{append([]byte{}, avail...), rerr}
	} else {
		src = bytes.NewReader(data)
	}
	switch kind {
	case 0:
		return src, "whole"
	case 1:
		return oneByte{src}, "one byte at a time"
	case 2:
		return &chunked{src, r, 300}, "random chunks 1..300"
	case 3:
		sz := 16 + r.Intn(500)
		return bufio.NewReaderSize(src, sz), fmt.Sprintf("bufio(%d)", sz)
	case 4:
		e := io.EOF
		if failR >= 0 {
			e = rerr
		}
		return &dataErr{append([]byte{}, avail...), e}, "data returned together with the final error"
	case 5:
		return &chunked{src, r, 187}, "chunks always shorter than a packet"
	case 7:
		return &stalling{src, r}, "reader that sometimes returns (0, nil)"
	case 8:
		if failR >= 0 {
			return &oneShot{b: append([]byte{}, data...), failAt: failR, err: rerr, r: r}, "reader that reports its failure once, with the bytes read so far, and then carries on"
		}
		return &chunked{src, r, 300}, "random chunks 1..300"
	case 9, 10, 11:
		// a reader of the standard library that knows its size, already advanced by its owner past some leading
		// bytes (a file header, garbage in front of the first packet): the stream is what is left in it
		if failR >= 0 {
			return &chunked{src, r, 300}, "random chunks 1..300"
		}
		lead := r.PickInt([]int{1, 3, 100, 187, 189, 1 + r.Intn(400)})
		all := append(r.Bytes(lead), data...)
		switch kind {
		case 9:
			br := bytes.NewReader(all)
			br.Seek(int64(lead), io.SeekStart)
			return br, fmt.Sprintf("*bytes.Reader advanced by %d bytes", lead)
		case 10:
			sr := strings.NewReader(string(all))
			io.CopyN(io.Discard, sr, int64(lead))
			return sr, fmt.Sprintf("*strings.Reader advanced by %d bytes", lead)
		default:
			se := io.NewSectionReader(bytes.NewReader(all), 0, int64(len(all)))
			se.Seek(int64(lead), io.SeekStart)
			return se, fmt.Sprintf("*io.SectionReader advanced by %d bytes", lead)
		}
	default:
		return &chunked{oneByte{src}, r, 3}, "one byte at a time (nested)"
	}
}

func adapter(kind int, s *sink) (packet.Writer, string) {
	switch kind {
	case 4:
		return packet.IOWriter(&sinkW{sink: sink{failAt: -1}}), "unused"
	case 0:
		return packet.IOWriter(s), "IOWriter(struct)"
	case 1:
		return packet.IOWriter(packet.PacketWriterFunc(s.WritePacket)), "IOWriter(PacketWriterFunc)"
	case 2:
		return packet.IOWriteCloser(s), "IOWriteCloser"
	default:
		return packet.IOWriter(packet.NopCloser(s)), "IOWriter(NopCloser)"
	}
}

func checkDeliveries(c *mon.Ctx, op string, s *sink, data []byte, exp int, w wit) bool {
	if len(s.got) != exp {
		w.Got, w.Want = fmt.Sprintf("%d packets delivered", len(s.got)), fmt.Sprintf("%d packets delivered", exp)
		sig := op + ":delivery-count"
		if len(s.got) > exp {
			sig = op + ":delivered-after-stop"
		}
		c.Fail(sig, fmt.Sprintf("%s delivered %d packets to the wrapped writer, expected %d", op, len(s.got), exp), w)
		return false
	}
	for i := range s.got {
		if !bytes.Equal(s.got[i], data[i*188:(i+1)*188]) {
			w.Got, w.Want = mon.Hex(s.got[i][:8])+"...", mon.Hex(data[i*188:i*188+8])+"..."
			c.Fail(op+":delivery-content", fmt.Sprintf("%s: delivery %d is not bytes [%d,%d) of the input", op, i, i*188, (i+1)*188), w)
			return false
		}
	}
	return true
}

func doWrite(c *mon.Ctx, k, tail, failW, ad int, r *gen.Rand) {
	data := r.Bytes(k*188 + tail)
	snap := append([]byte{}, data...)
	s := &sink{failAt: failW, failCnt: []int{0, 0, 100, 188}[r.Intn(4)]}
	if r.Chance(3) {
		s.failErr = tempErr{} // a temporary failure is a failure all the same: reported, nothing retried
	} else if r.Chance(4) {
		// the packet writer's error is its own business; it may be a value that means something else to readers
		s.failErr = []error{io.EOF, io.ErrUnexpectedEOF, io.ErrShortWrite, gots.ErrInvalidPacketLength, ref.LibraryErrors[r.Intn(len(ref.LibraryErrors))], ref.LibraryErrors[r.Intn(len(ref.LibraryErrors))]}[r.Intn(6)]
	}
	w, aname := adapter(ad, s)
	n, err := w.Write(data)
	c.Eval(1)
	wt := wit{Op: "Write", Packets: k, Tail: tail, FailWrite: failW, FailRead: -1, Adapter: aname}
	if !bytes.Equal(data, snap) {
		c.Fail("Write:mutates-input", "Write modified the caller's slice", wt)
	}
	if tail != 0 {
		if err != gots.ErrInvalidPacketLength || len(s.got) != 0 || s.failAt == -2 {
			wt.Got = fmt.Sprintf("n=%d err=%v deliveries=%d", n, err, len(s.got))
			wt.Want = "ErrInvalidPacketLength before any delivery"
			c.Fail("Write:bad-length-not-rejected", fmt.Sprintf("a slice of %d bytes (not a multiple of 188) was not rejected up front: %s", len(data), wt.Got), wt)
		}
		c.Count("write.rejected_length")
		if r.Bool() {
			// the caller tries the very same slice once more: it is rejected just the same
			n2, err2 := w.Write(data)
			c.Eval(1)
			c.Count("write.rejected_length_offered_again")
			if err2 != gots.ErrInvalidPacketLength || len(s.got) != 0 {
				wt.Got = fmt.Sprintf("n=%d err=%v deliveries=%d", n2, err2, len(s.got))
				wt.Want = "ErrInvalidPacketLength before any delivery"
				c.Fail("Write:bad-length-not-rejected-the-second-time", fmt.Sprintf("a slice of %d bytes (not a multiple of 188), rejected once, was not rejected when written again: %s", len(data), wt.Got), wt)
				return
			}
		}
		// the adapter is as good as new after a rejected call
		followUp(c, w, s, r, wt)
		return
	}
	exp := k
	if failW >= 0 && failW < k {
		exp = failW
		c.Count("write.injected_failure")
		c.Count(fmt.Sprintf("write.injected_failure_reporting_%d_bytes", s.failCnt))
		if err != s.werr() {
			wt.Got, wt.Want = fmt.Sprint(err), s.werr().Error()
			c.Fail("Write:writer-error-not-returned", fmt.Sprintf("packet write %d failed but Write returned err=%v", failW, err), wt)
		}
		if s.calls != failW+1 {
			wt.Got, wt.Want = fmt.Sprintf("%d WritePacket calls", s.calls), fmt.Sprintf("%d", failW+1)
			c.Fail("Write:packet-offered-again-after-failure", fmt.Sprintf("packet write %d failed; the wrapped writer was called %d times in all (want %d: every packet once, nothing after the failure)", failW, s.calls, failW+1), wt)
		}
	} else {
		c.Count("write.clean")
		if err != nil || n != len(data) {
			wt.Got, wt.Want = fmt.Sprintf("n=%d err=%v", n, err), fmt.Sprintf("n=%d err=nil", len(data))
			c.Fail("Write:count-or-error", fmt.Sprintf("all packet writes succeeded but Write returned n=%d err=%v for %d bytes", n, err, len(data)), wt)
		}
	}
	checkDeliveries(c, "Write", s, data, exp, wt)
	if ad == 2 {
		if cl, ok := w.(io.Closer); !ok || cl.Close() != errC || s.closed != 1 {
			c.Fail("Close:not-forwarded", "IOWriteCloser did not forward Close to the wrapped writer", wt)
		}
	}
	if ad == 3 {
		if err := packet.NopCloser(s).Close(); err != nil || s.closed != 0 {
			c.Fail("Close:nop-closer", "NopCloser.Close is not a no-op", wt)
		}
	}
	c.Class(fmt.Sprintf("Write/k=%d/fail=%s/adapter=%d", k, failClass(failW, k), ad))
	// the producer re-uses its batch buffer: same memory, same length, new content, on the same adapter
	if k > 0 && r.Chance(3) {
		r.Fill(data)
		s.got, s.failAt = nil, -1
		n2, err2 := w.Write(data)
		c.Eval(1)
		c.Count("write.same_buffer_new_content")
		ok := err2 == nil && n2 == len(data) && len(s.got) == k
		for i := 0; ok && i < k; i++ {
			ok = bytes.Equal(s.got[i], data[i*188:(i+1)*188])
		}
		if !ok {
			w2 := wt
			w2.Got = fmt.Sprintf("n=%d err=%v deliveries=%d", n2, err2, len(s.got))
			w2.Want = fmt.Sprintf("n=%d err=nil deliveries=%d, each the corresponding 188 bytes", len(data), k)
			c.Fail("reuse:Write-of-the-same-buffer-with-new-content", fmt.Sprintf("after a Write (failing packet write: %d) the caller refilled the same slice and wrote it again: %s", failW, w2.Got), w2)
			return
		}
	}
	followUp(c, w, s, r, wt)
}

// followUp re-uses the same adapter for a clean Write and a clean ReadFrom of fresh data: whatever the
// previous call did (failed packet write, reader failure in the middle of a packet) must not leak into them.
func followUp(c *mon.Ctx, w packet.Writer, s *sink, r *gen.Rand, after wit) {
	for round := 0; round < 2; round++ {
		k := 1 + r.Intn(3)
		data := r.Bytes(k * 188)
		s.got, s.failAt = nil, -1
		var n int64
		var err error
		op := "Write"
		if round == 1 {
			op = "ReadFrom"
			n, err = w.(io.ReaderFrom).ReadFrom(bytes.NewReader(data))
		} else {
			var m int
			m, err = w.Write(data)
			n = int64(m)
		}
		c.Eval(1)
		c.Count("followup." + op)
		ok := err == nil && n == int64(len(data)) && len(s.got) == k
		for i := 0; ok && i < k; i++ {
			ok = bytes.Equal(s.got[i], data[i*188:(i+1)*188])
		}
		if !ok {
			w2 := after
			w2.Got = fmt.Sprintf("follow-up %s of %d packets on the same adapter: n=%d err=%v deliveries=%d", op, k, n, err, len(s.got))
			w2.Want = "all packets delivered unmodified, full count, no error"
			c.Fail("reuse:"+op+"-after-"+after.Op, fmt.Sprintf("a clean %s of %d packets on an adapter that was used before (previous call: %s, failing write %d, reader failure after %d bytes) returned n=%d err=%v with %d deliveries", op, k, after.Op, after.FailWrite, after.FailRead, n, err, len(s.got)), w2)
			return
		}
	}
}

// foreignWrite: a sink that has its own Write method must still get WritePacket calls.
func foreignWrite(c *mon.Ctx, r *gen.Rand) {
	k := r.Intn(5)
	tail := 0
	if r.Chance(3) {
		tail = 1 + r.Intn(187)
	}
	data := r.Bytes(k*188 + tail)
	for kind := 0; kind < 2; kind++ {
		s := &sinkW{sink: sink{failAt: -1}}
		var w packet.Writer
		name := "IOWriter(sink with its own Write)"
		if kind == 0 {
			w = packet.IOWriter(s)
		} else {
			w = packet.IOWriteCloser(s)
			name = "IOWriteCloser(sink with its own Write)"
		}
		n, err := w.Write(data)
		c.Eval(1)
		wt := wit{Op: "Write", Packets: k, Tail: tail, FailWrite: -1, FailRead: -1, Adapter: name, Got: fmt.Sprintf("n=%d err=%v WritePacket calls=%d foreign Write calls=%d", n, err, len(s.got), s.foreignWrites)}
		if tail != 0 {
			if err != gots.ErrInvalidPacketLength || len(s.got) != 0 || s.foreignWrites != 0 {
				c.Fail("Write:bad-length-not-rejected", "a slice whose length is not a multiple of 188 was not rejected by the adapter built around a sink that has its own Write method", wt)
			}
			continue
		}
		if err != nil || n != len(data) || len(s.got) != k || s.foreignWrites != 0 {
			c.Fail("Write:adapter-bypassed", fmt.Sprintf("the adapter did not deliver %d packets through WritePacket for a sink that has its own Write method (%s)", k, wt.Got), wt)
			continue
		}
		checkDeliveries(c, "Write", &s.sink, data, k, wt)
		if rf, ok := w.(io.ReaderFrom); ok {
			s.got = nil
			n2, err2 := rf.ReadFrom(bytes.NewReader(data))
			if err2 != nil || n2 != int64(len(data)) || len(s.got) != k {
				c.Fail("ReadFrom:adapter-bypassed", fmt.Sprintf("ReadFrom on such an adapter delivered %d of %d packets (n=%d err=%v)", len(s.got), k, n2, err2), wt)
			}
		}
	}
	c.Class(fmt.Sprintf("foreign-write/k=%d/tail=%v", k, tail != 0))
}

func failClass(f, k int) string {
	switch {
	case f < 0 || f >= k:
		return "none"
	case f == 0:
		return "first"
	case f == k-1:
		return "last"
	}
	return "middle"
}

func doReadFrom(c *mon.Ctx, k, tail, failW, failR, rk, ad int, r *gen.Rand) {
	data := r.Bytes(k*188 + tail)
	s := &sink{failAt: failW, failCnt: []int{0, 0, 100, 188}[r.Intn(4)]}
	if r.Chance(3) {
		s.failErr = tempErr{}
	} else if r.Chance(4) {
		// (as for Write: the packet writer's error may be a value that means something else elsewhere)
		s.failErr = ref.LibraryErrors[r.Intn(len(ref.LibraryErrors))]
	}
	rerr := readerErrs[0]
	if failR >= 0 && r.Chance(2) {
		rerr = readerErrs[r.Intn(len(readerErrs))]
	}
	w, aname := adapter(ad, s)
	rf, ok := w.(io.ReaderFrom)
	c.Eval(1)
	if !ok {
		c.Fail("ReadFrom:missing", "the adapter does not implement io.ReaderFrom", nil)
		return
	}
	src, rname := mkReaderErr(rk, data, failR, r, rerr)
	if !same(rerr, errR) {
		rname += fmt.Sprintf(" failing with %q", rerr)
	}
	n, err := rf.ReadFrom(src)
	avail := len(data)
	if failR >= 0 {
		avail = failR
	}
	exp := avail / 188
	var expErr error
	if failR >= 0 {
		expErr = rerr
		c.Count("readfrom.reader_failure")
		if !same(rerr, errR) {
			c.Count("readfrom.reader_failure_wrapping_eof")
		}
	} else if avail%188 != 0 {
		expErr = gots.ErrInvalidPacketLength
		c.Count("readfrom.partial_tail")
	}
	if failW >= 0 && failW < exp {
		exp, expErr = failW, s.werr()
		c.Count("readfrom.writer_failure")
	}
	if expErr == nil {
		c.Count("readfrom.clean")
	}
	wt := wit{Op: "ReadFrom", Packets: k, Tail: tail, FailWrite: failW, FailRead: failR, Reader: rname, Adapter: aname,
		Got: fmt.Sprintf("deliveries=%d n=%d err=%v", len(s.got), n, err), Want: fmt.Sprintf("deliveries=%d n=%d err=%v", exp, exp*188, expErr)}
	if !checkDeliveries(c, "ReadFrom", s, data, exp, wt) {
		return
	}
	wt.Got = fmt.Sprintf("deliveries=%d n=%d err=%v", len(s.got), n, err)
	// a failing write may itself report bytes written; whether they count is not stated
	if n != int64(exp*188) && !(same(expErr, s.werr()) && n == int64(exp*188+s.failCnt)) {
		c.Fail("ReadFrom:count", fmt.Sprintf("ReadFrom delivered %d packets but returned n=%d", exp, n), wt)
	}
	if failW >= 0 && failW < avail/188 && err != nil && !same(err, expErr) {
		// the statement names the error for Write only; for ReadFrom a failing packet write must stop the
		// delivery (checked above) and be reported, as the sink's error or wrapped in another
		c.Count("readfrom.writer_failure_reported_as_another_error")
	} else if !same(err, expErr) {
		sig := "ReadFrom:error"
		switch {
		case same(expErr, rerr):
			sig = "ReadFrom:reader-error-not-returned"
		case same(expErr, s.werr()):
			sig = "ReadFrom:writer-error-not-returned"
		case same(expErr, gots.ErrInvalidPacketLength):
			sig = "ReadFrom:partial-packet-not-reported"
		case expErr == nil:
			sig = "ReadFrom:spurious-error"
		}
		c.Fail(sig, fmt.Sprintf("ReadFrom returned err=%v, expected %v (%s)", err, expErr, wt.Want), wt)
	}
	followUp(c, w, s, r, wt)
	if c.Class(fmt.Sprintf("ReadFrom/k=%d/tail=%v/failW=%s/failR=%s/reader=%d", min(k, 4), tail != 0, failClass(failW, k), failRClass(failR, len(data)), rk)) && c.WantSample() && failW >= 0 && k > 2 {
		c.Sample(func() interface{} { return wt })
	}
}

func failRClass(f, n int) string {
	switch {
	case f < 0:
		return "none"
	case f == 0:
		return "at-start"
	case f == n:
		return "at-end"
	case f%188 == 0:
		return "on-boundary"
	}
	return "mid-packet"
}

func min(a, b int) int {
	if a < b {
		return a
	}
	return b
}

func run(c *mon.Ctx) {
	c.Rule("fault enumeration: k = 0..20 packets x every failing packet-write position 0..k (and none) x tails {0,1,187,random} x 4 adapters for Write; for ReadFrom additionally x 7 reader behaviours, and for k <= 3 (thorough 6) a reader failure after every byte count 0..len. distinct non-trivial = distinct (operation, k class, tail, writer-fault position class, reader-fault position class, reader kind, adapter) with at least one packet or one injected fault")
	c.Assume("the wrapped writer double copies each packet on receipt and fails exactly once at the injected position; reader doubles implement io.Reader's contract (including data returned together with the final error)")
	c.Floor("write.injected_failure", 200)
	c.Floor("readfrom.writer_failure", 200)
	c.Floor("readfrom.reader_failure", 500)
	c.Floor("readfrom.partial_tail", 200)
	c.Floor("followup.ReadFrom", 5000)
	c.Floor("readfrom.reader_failure_wrapping_eof", 300)
	maxK := 20
	c.Exhaustive("Write: k 0..20 x failing position -1..k x 4 tails x 4 adapters", int64(21*22/2+21)*16)
	c.StreamSeedless("write-faults", maxK+1, func(k int, r *gen.Rand) {
		for failW := -1; failW <= k; failW++ {
			for _, tail := range []int{0, 1, 187, 1 + r.Intn(187)} {
				for ad := 0; ad < 4; ad++ {
					doWrite(c, k, tail, failW, ad, r)
				}
			}
		}
	})
	// long slices (tens to hundreds of packets, a whole read buffer): the same contract, in particular a ragged
	// length is refused before the first packet is delivered, and a failing write stops the delivery where it is
	longK := []int{31, 32, 33, 63, 64, 65, 100, 127, 128, 129, 348, 349, 400, 1000}
	c.StreamSeedless("write-long-slices", len(longK), func(i int, r *gen.Rand) {
		k := longK[i]
		for _, tail := range []int{0, 1, 95, 187} {
			for _, failW := range []int{-1, 0, 1, 31, 32, 33, k - 1, r.Intn(k)} {
				doWrite(c, k, tail, failW, r.Intn(4), r)
			}
		}
		for _, rk := range []int{0, 1, 2, 4} {
			doReadFrom(c, k, []int{0, 95}[r.Intn(2)], []int{-1, 32, k - 1}[r.Intn(3)], -1, rk, r.Intn(4), r)
		}
		c.Count("write.long_slices")
	})
	// slices of more than 65535 packets (a 12 MiB batch): the same contract; a packet counter narrower than the
	// slice length would deliver only the remainder
	veryLong := []int{65535, 65536, 65537, 65539, 70001}
	c.Floor("write.very_long_slices", 5)
	c.StreamSeedless("write-very-long-slices", len(veryLong), func(i int, r *gen.Rand) {
		k := veryLong[i]
		doWrite(c, k, 0, -1, r.Intn(4), r)
		doWrite(c, k, 0, []int{65535, 65536, k - 1}[i%3], r.Intn(4), r)
		doWrite(c, k, []int{1, 95, 187}[i%3], -1, r.Intn(4), r)
		doReadFrom(c, k, []int{0, 95}[i%2], -1, -1, 0, r.Intn(4), r)
		c.Count("write.very_long_slices")
	})
	// one reader object serving several streams in turn on one adapter (a *bytes.Reader after Reset, a refilled
	// *bytes.Buffer, a re-armed reader of the caller's own): each ReadFrom delivers what the reader supplies in
	// that call, whatever the same object supplied before and however the earlier call ended
	c.Floor("readfrom.reader_object_reused", 300)
	c.Stream("reader-object-reused", c.N(300, 30000), func(i int, r *gen.Rand) {
		s := &sink{failAt: -1}
		w, aname := adapter(r.Intn(4), s)
		rf := w.(io.ReaderFrom)
		br, bb, ch := bytes.NewReader(nil), &bytes.Buffer{}, &rearmed{}
		kind := i % 3
		rounds := 2 + r.Intn(3)
		for round := 0; round < rounds; round++ {
			k := r.Intn(5)
			if round > 0 && k == 0 {
				k = 1 + r.Intn(4)
			}
			tail := 0
			if round < rounds-1 && r.Chance(4) {
				tail = 1 + r.Intn(187)
			}
			data := r.Bytes(k*188 + tail)
			var rd io.Reader
			var rname string
			switch kind {
			case 0:
				br.Reset(data)
				rd, rname = br, "*bytes.Reader after Reset"
			case 1:
				bb.Reset()
				bb.Write(data)
				rd, rname = bb, "*bytes.Buffer refilled"
			default:
				ch.data, ch.step = data, 1+r.Intn(400)
				rd, rname = ch, "the caller's own reader, re-armed"
			}
			s.got, s.failAt, s.calls = nil, -1, 0
			failW := -1
			if round < rounds-1 && k > 0 && r.Chance(4) {
				failW = r.Intn(k)
				s.failAt = failW
			}
			n, err := rf.ReadFrom(rd)
			c.Eval(1)
			c.Count("readfrom.reader_object_reused")
			wt := wit{Op: "ReadFrom", Packets: k, Tail: tail, FailWrite: failW, FailRead: -1, Reader: fmt.Sprintf("%s (stream %d of this object on this adapter)", rname, round+1), Adapter: aname}
			exp := k
			if failW >= 0 {
				exp = failW
				if err == nil {
					wt.Got, wt.Want = fmt.Sprint(err), errW.Error()
					c.Fail("ReadFrom:writer-error-not-returned", fmt.Sprintf("packet write %d failed but ReadFrom returned err=%v", failW, err), wt)
					return
				}
			} else if n != int64(k*188) || (tail == 0 && err != nil) || (tail != 0 && err != gots.ErrInvalidPacketLength) {
				wt.Got, wt.Want = fmt.Sprintf("n=%d err=%v deliveries=%d", n, err, len(s.got)), fmt.Sprintf("n=%d, %d deliveries", k*188, k)
				c.Fail("reuse:ReadFrom-of-a-reader-object-used-before", fmt.Sprintf("ReadFrom on a reader object that supplies %d bytes (%s, stream %d through this adapter): %s", len(data), rname, round+1, wt.Got), wt)
				return
			}
			if !checkDeliveries(c, "ReadFrom", s, data, exp, wt) {
				return
			}
		}
		c.Class(fmt.Sprintf("readfrom/reader-object-reused/kind=%d/rounds=%d", kind, rounds))
	})
	c.Exhaustive("ReadFrom: k 0..20 x failing write position -1..k x 4 tails x 12 reader kinds", int64(21*22/2+21)*48)
	c.StreamSeedless("readfrom-write-faults", maxK+1, func(k int, r *gen.Rand) {
		for failW := -1; failW <= k; failW++ {
			for _, tail := range []int{0, 1, 187, 1 + r.Intn(187)} {
				for rk := 0; rk < nReaderKinds; rk++ {
					doReadFrom(c, k, tail, failW, -1, rk, (k+rk)%4, r)
				}
			}
		}
	})
	kr := c.N(3, 10)
	c.Exhaustive(fmt.Sprintf("ReadFrom: k 0..%d (+tail 0/95) x reader failure after every byte count x 6 reader kinds", kr), 0)
	c.StreamSeedless("readfrom-read-faults", (kr+1)*2, func(i int, r *gen.Rand) {
		k, tail := i/2, (i%2)*95
		n := k*188 + tail
		for failR := 0; failR <= n; failR++ {
			for _, rk := range []int{0, 1, 2, 4, 5, 8} {
				doReadFrom(c, k, tail, -1, failR, rk, rk%4, r)
			}
		}
	})
	// a stream of more than 4 GiB through one ReadFrom call (a long recording, a live feed): the count returned is
	// an int64 and is the number of bytes delivered; the packets are only counted here, their content is not looked at
	c.StreamSeedless("readfrom-more-than-4GiB", 2, func(i int, r *gen.Rand) {
		total := int64(1)<<32 + int64([]int{188 * 29, 95}[i]) // 2^32 is not a multiple of 188: 2^32+95 is; the first ends in a partial packet
		var delivered int64
		w := packet.IOWriter(packet.PacketWriterFunc(func(p *packet.Packet) (int, error) {
			delivered += 188
			return 188, nil
		}))
		n, err := w.(io.ReaderFrom).ReadFrom(&bulk{left: total})
		c.Eval(1)
		c.Count("readfrom.streams_over_4GiB")
		want := total / 188 * 188
		partial := total%188 != 0
		if n != want || delivered != want || partial != (err == gots.ErrInvalidPacketLength) || (!partial && err != nil) {
			c.Fail("ReadFrom:count-of-a-very-long-stream", fmt.Sprintf("ReadFrom on a stream of %d bytes returned %d, %v; %d bytes were delivered to the packet writer (%d whole packets are %d bytes)", total, n, err, delivered, want/188, want),
				wit{Op: "ReadFrom", Packets: int(want / 188), Tail: int(total % 188), Reader: "hands out the requested number of bytes until the stream is over", Got: fmt.Sprint(n), Want: fmt.Sprint(want)})
		}
		c.Class(fmt.Sprintf("readfrom/over-4GiB/partial=%v", partial))
	})
	// adapters in use at the same time: one feeding another (a packet writer that forwards through a second
	// adapter), and adapters of their own in several goroutines; some calls fail on the way
	c.Floor("overlap.nested_writes", 300)
	c.Floor("concurrent.calls", 5000)
	c.Stream("overlapping-adapters", c.N(300, 60000), func(i int, r *gen.Rand) {
		// an earlier failure on some unrelated adapter
		f := &sink{failAt: r.Intn(3)}
		fw, _ := adapter(r.Intn(4), f)
		fw.Write(r.Bytes(188 * (1 + r.Intn(4))))
		// outer adapter -> forwarding packet writer -> inner adapter -> final sink
		final := &sink{failAt: -1}
		inner, _ := adapter(r.Intn(4), final)
		var seen [][]byte
		forward := packet.PacketWriterFunc(func(p *packet.Packet) (int, error) {
			seen = append(seen, append([]byte{}, p[:]...))
			if _, err := inner.Write(p[:]); err != nil {
				return 0, err
			}
			return packet.PacketSize, nil
		})
		outer := packet.IOWriter(forward)
		k := 1 + r.Intn(6)
		data := r.Bytes(188 * k)
		var n int64
		var err error
		op := "Write"
		if r.Bool() {
			m, e := outer.Write(data)
			n, err = int64(m), e
		} else {
			op = "ReadFrom"
			n, err = outer.(io.ReaderFrom).ReadFrom(&chunked{bytes.NewReader(data), r, 300})
		}
		c.Eval(1)
		c.Count("overlap.nested_writes")
		ok := err == nil && n == int64(len(data)) && len(final.got) == k && len(seen) == k
		for j := 0; ok && j < k; j++ {
			ok = bytes.Equal(final.got[j], data[j*188:(j+1)*188]) && bytes.Equal(seen[j], data[j*188:(j+1)*188])
		}
		if !ok {
			c.Fail("overlap:adapter-feeding-another-adapter", fmt.Sprintf("%s of %d packets through an adapter whose packet writer forwards each packet through a second adapter (after a failed write on a third, unrelated adapter): n=%d err=%v, %d packets reached the forwarding writer, %d the final sink, or some arrived with other bytes", op, k, n, err, len(seen), len(final.got)), wit{Op: op, Packets: k, FailWrite: -1, FailRead: -1})
		}
		if i%20 == 0 {
			c.Concurrent("adapters of their own (Write / ReadFrom)", 8, 800, r, func(q *gen.Rand) string {
				s := &sink{failAt: -1}
				if q.Chance(4) {
					s.failAt = q.Intn(4)
				}
				w, _ := adapter(q.Intn(4), s)
				k := 1 + q.Intn(5)
				data := q.Bytes(188 * k)
				var err error
				if q.Bool() {
					_, err = w.Write(data)
				} else {
					_, err = w.(io.ReaderFrom).ReadFrom(bytes.NewReader(data))
				}
				exp := k
				if s.failAt == -2 || (s.failAt >= 0 && s.failAt < k) {
					if err == nil {
						return "a failing packet write was not reported"
					}
					exp = len(s.got)
				} else if err != nil {
					return fmt.Sprintf("a clean call of %d packets returned %v", k, err)
				}
				if len(s.got) != exp {
					return fmt.Sprintf("%d packets delivered, %d expected", len(s.got), exp)
				}
				for j := range s.got {
					if !bytes.Equal(s.got[j], data[j*188:(j+1)*188]) {
						return fmt.Sprintf("packet %d of %d was delivered with other bytes than the corresponding 188 bytes of the input", j, k)
					}
				}
				return ""
			})
		}
		c.Class(fmt.Sprintf("overlap/%s/k=%d", op, min(k, 4)))
	})
	// the adapter is used again after a ReadFrom that ended with a failing packet write, and the reader of that call is
	// a slow one: its next Read (which a ReadFrom that reads ahead has already asked for) only answers later - while
	// the adapter is busy with the next call. The next call delivers its own bytes.
	c.Stream("overlapping-reader-of-an-earlier-readfrom", c.N(400, 40000), func(i int, r *gen.Rand) {
		failAt := r.Intn(4)
		data := r.Bytes(188 * (failAt + 3))
		g := &gated{data: data, gateAt: failAt + 1, gate: make(chan struct{}), done: make(chan struct{}, 1)}
		release := func() { g.once.Do(func() { close(g.gate) }) }
		defer release()
		phase2 := false
		var delivered [][]byte
		sk := packet.PacketWriterFunc(func(p *packet.Packet) (int, error) {
			if !phase2 {
				if len(delivered) == failAt {
					// (a packet writer that takes its time to fail: a ReadFrom that reads ahead has asked its reader
					// for the next packet by then)
					for spin := 0; spin < 500 && atomic.LoadInt32(&g.state) == 0; spin++ {
						runtime.Gosched()
					}
					return 0, errW
				}
				delivered = append(delivered, append([]byte{}, p[:]...))
				return packet.PacketSize, nil
			}
			if atomic.LoadInt32(&g.state) == 1 {
				// the slow reader answers now, while this packet is being handled
				release()
				c.ExternalWait(func() { <-g.done })
			}
			delivered = append(delivered, append([]byte{}, p[:]...))
			return packet.PacketSize, nil
		})
		w := packet.IOWriter(sk)
		type res struct {
			n   int64
			err error
		}
		ret := make(chan res, 1)
		go func() {
			n, err := w.(io.ReaderFrom).ReadFrom(g)
			ret <- res{n, err}
		}()
		var first res
		returned := false
		for spin := 0; spin < 200000 && !returned; spin++ {
			select {
			case first = <-ret:
				returned = true
			default:
				runtime.Gosched()
			}
		}
		if !returned {
			// the call waits for its reader (it may): let the reader answer, then the call is over
			release()
			c.ExternalWait(func() { first = <-ret })
			c.Count("overlap.readfrom_waited_for_its_reader")
		}
		c.Eval(1)
		if first.err == nil || len(delivered) != failAt || first.n != int64(failAt*188) {
			c.Fail("ReadFrom:writer-error-not-returned", fmt.Sprintf("ReadFrom with a packet writer that fails at packet %d returned n=%d err=%v after %d deliveries", failAt, first.n, first.err, len(delivered)), wit{Op: "ReadFrom", Packets: failAt + 3, FailWrite: failAt, FailRead: -1})
			return
		}
		// give a reading-ahead goroutine the chance to have asked its reader already
		for spin := 0; spin < 2000 && atomic.LoadInt32(&g.state) == 0; spin++ {
			runtime.Gosched()
		}
		if atomic.LoadInt32(&g.state) == 1 {
			c.Count("overlap.reader_still_being_read_when_readfrom_had_returned")
		}
		phase2, delivered = true, nil
		k := 1 + r.Intn(3)
		own := r.Bytes(188 * k)
		snap := append([]byte{}, own...)
		n, err := w.Write(own)
		c.Eval(1)
		c.Count("overlap.adapter_reused_after_a_failed_readfrom")
		ok := err == nil && n == len(snap) && len(delivered) == k
		for j := 0; ok && j < k; j++ {
			ok = bytes.Equal(delivered[j], snap[j*188:(j+1)*188])
		}
		if !ok {
			c.Fail("overlap:write-after-a-failed-readfrom", fmt.Sprintf("Write of %d packets on an adapter whose earlier ReadFrom had ended with a failing packet write (at packet %d; that call's reader answered its outstanding Read during this Write): n=%d err=%v, %d packets delivered, or some with other bytes than the slice holds", k, failAt, n, err, len(delivered)), wit{Op: "Write after ReadFrom", Packets: k, FailWrite: failAt, FailRead: -1})
		}
		c.Class(fmt.Sprintf("overlap/after-failed-readfrom/fail=%d/k=%d", failAt, k))
	})
	c.Stream("random", c.N(6000, 20000000), func(i int, r *gen.Rand) {
		k := r.Intn(12)
		tail := 0
		if r.Chance(3) {
			tail = 1 + r.Intn(187)
		}
		failW, failR := -1, -1
		if r.Chance(3) {
			failW = r.Intn(k + 1)
		}
		if r.Chance(3) {
			failR = r.Intn(k*188 + tail + 1)
		}
		doReadFrom(c, k, tail, failW, failR, r.Intn(nReaderKinds), r.Intn(4), r)
		doWrite(c, k, tail, failW, r.Intn(4), r)
		foreignWrite(c, r)
	})
}
