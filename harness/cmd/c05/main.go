// C05 — decoders are total: no panic, no hang, bounded memory, inputs untouched.
package main

import (
	"bufio"
	"bytes"
	"fmt"
	"io"
	"os"
	"os/exec"
	"path/filepath"
	"reflect"
	"runtime/metrics"
	"strings"
	"time"

	"github.com/Comcast/gots/v2/ebp"
	"github.com/Comcast/gots/v2/packet"
	"github.com/Comcast/gots/v2/packet/adaptationfield"
	"github.com/Comcast/gots/v2/pes"
	"github.com/Comcast/gots/v2/psi"
	"github.com/Comcast/gots/v2/scte35"

	"verif/harness/internal/gen"
	"verif/harness/internal/mon"
	"verif/harness/internal/ref"
)

func main() { mon.Main("C05", run) }

type wit struct {
	Entry   string `json:"entry"`
	Input   string `json:"input_hex"`
	Mutator string `json:"mutator,omitempty"`
	Detail  string `json:"detail,omitempty"`
}

var (
	ctx     *mon.Ctx
	curMut  string
	curForm string
)

func lenClass(n int) string {
	switch {
	case n == 0:
		return "0"
	case n < 4:
		return "1-3"
	case n < 16:
		return "4-15"
	case n < 64:
		return "16-63"
	case n < 188:
		return "64-187"
	case n == 188:
		return "188"
	case n < 1024:
		return "189-1023"
	}
	return "1024+"
}

var (
	allocSample = []metrics.Sample{{Name: "/gc/heap/allocs:bytes"}}
	maxAlloc    uint64
	maxAllocAt  string
)

func allocated() uint64 {
	metrics.Read(allocSample)
	return allocSample[0].Value.Uint64()
}

// allocBudget is what one top-level decoding call may allocate: a small multiple of the input plus a constant.
func allocBudget(n int) uint64 { return 4<<20 + 64*uint64(n) }

// call drives one entry point on one input under the monitor.
func call(entry string, input []byte, readOnly bool, f func()) (ok bool) {
	c := ctx
	c.PersistInput(entry, input)
	measure := measuredEntry(entry)
	var a0 uint64
	if measure {
		a0 = allocated()
	}
	defer func() {
		if !measure {
			return
		}
		d := allocated() - a0
		if d > maxAlloc {
			maxAlloc, maxAllocAt = d, fmt.Sprintf("%s on %d bytes", entry, len(input))
		}
		if d > allocBudget(len(input)) {
			c.Fail("memory: "+entry, fmt.Sprintf("%s allocated %d bytes for a %d-byte input (budget: 4 MiB + 64 bytes per input byte; the allocation counter is process-wide and flushed lazily, hence the generous constant)", entry, d, len(input)),
				wit{Entry: entry, Input: mon.Hex(input), Mutator: curMut, Detail: fmt.Sprintf("%d bytes allocated", d)})
		}
	}()
	// the caller's buffer is all of it: the bytes behind len(input) up to its capacity belong to the caller as well
	var snap, spare []byte
	if readOnly {
		snap = append([]byte{}, input...)
		spare = append([]byte{}, input[len(input):cap(input)]...)
	}
	c.Eval(1)
	outcome := "returned"
	defer func() {
		if r := recover(); r != nil {
			outcome = "panic"
			site := mon.PanicSite(r)
			c.Fail("panic: "+entry+" > "+site, fmt.Sprintf("%s panicked on a %d-byte input: %v", entry, len(input), r),
				wit{Entry: entry, Input: mon.Hex(input), Mutator: curMut, Detail: fmt.Sprint(r)})
			ok = false
		}
		if readOnly && !bytes.Equal(snap, input) {
			outcome = "input-modified"
			c.Fail("input-modified: "+entry, fmt.Sprintf("%s modified the caller's %d-byte buffer (first difference at byte %d)", entry, len(input), ref.FirstDiff(snap, input)),
				wit{Entry: entry, Input: mon.Hex(snap), Mutator: curMut})
			copy(input, snap)
		}
		if readOnly && !bytes.Equal(spare, input[len(input):cap(input)]) {
			outcome = "input-modified"
			c.Fail("input-modified: "+entry, fmt.Sprintf("%s wrote into the caller's buffer behind the %d bytes it was given (the slice has capacity %d)", entry, len(input), cap(input)),
				wit{Entry: entry, Input: mon.Hex(snap), Mutator: curMut, Detail: "spare capacity changed"})
			copy(input[len(input):cap(input)], spare)
		}
		c.Count("outcome." + outcome)
		if c.Class(entry+"/"+outcome+"/len="+lenClass(len(input))+"/"+curMut) && c.WantSample() && outcome == "returned" && len(input) > 8 && len(input) < 60 && curMut != "none" && !strings.Contains(entry, ".") {
			c.Sample(func() interface{} {
				return wit{Entry: entry, Input: mon.Hex(input), Mutator: curMut, Detail: "returned a value or an error"}
			})
		}
	}()
	f()
	return true
}

// decodeThen runs a decoding entry point on b (measured, read-only), then queries / prints / re-encodes
// whatever it returned, and checks the caller's buffer once more afterwards.
func decodeThen(entry string, b []byte, decode func() interface{}, object string, extra func(v interface{})) {
	var v interface{}
	if !call(entry, b, true, func() { v = decode() }) || v == nil {
		return
	}
	if rv := reflect.ValueOf(v); (rv.Kind() == reflect.Ptr || rv.Kind() == reflect.Interface) && rv.IsNil() {
		return
	}
	snap := append([]byte{}, b...)
	callAll(object, b, v, 0)
	if extra != nil {
		extra(v)
	}
	if !bytes.Equal(snap, b) {
		ctx.Fail("input-modified: "+entry+" (querying the result)", fmt.Sprintf("querying / printing / re-encoding the object returned by %s modified the caller's %d-byte buffer (first difference at byte %d)", entry, len(b), ref.FirstDiff(snap, b)),
			wit{Entry: entry, Input: mon.Hex(snap), Mutator: curMut})
		copy(b, snap)
	}
}

var errType = reflect.TypeOf((*error)(nil)).Elem()

// callAll queries every getter of a decoded object (found by reflection),
// recursing into the objects they return, then prints it.
func callAll(entry string, input []byte, v interface{}, depth int) {
	if v == nil || depth > 3 {
		return
	}
	rv := reflect.ValueOf(v)
	if (rv.Kind() == reflect.Ptr || rv.Kind() == reflect.Interface) && rv.IsNil() {
		return
	}
	t := rv.Type()
	for i := 0; i < t.NumMethod(); i++ {
		m := t.Method(i)
		name := m.Name
		if strings.HasPrefix(name, "Set") || name == "RemoveElementaryStreams" {
			continue
		}
		mt := m.Type // first input is the receiver
		var args []reflect.Value
		switch mt.NumIn() {
		case 1:
		case 2:
			switch at := mt.In(1); {
			case at.Kind() == reflect.String:
				args = []reflect.Value{reflect.ValueOf("hvc1")}
			case at.Kind() == reflect.Int:
				args = []reflect.Value{reflect.ValueOf(0x101)}
			case at.Kind() == reflect.Interface && t.Implements(at):
				args = []reflect.Value{rv} // CanClose(self), Equal(self)
			default:
				continue
			}
		default:
			continue
		}
		idx := i
		call(entry+"."+name, input, false, func() {
			out := rv.Method(idx).Call(args)
			for _, o := range out {
				if o.Type().Implements(errType) {
					continue
				}
				switch o.Kind() {
				case reflect.Slice:
					if o.Type().Elem().Kind() == reflect.Interface || o.Type().Elem().Kind() == reflect.Ptr {
						for k := 0; k < o.Len() && k < 40; k++ {
							if e := o.Index(k); e.CanInterface() && !((e.Kind() == reflect.Ptr || e.Kind() == reflect.Interface) && e.IsNil()) {
								callAll(entry+"."+name+"[]", input, e.Interface(), depth+1)
							}
						}
					}
				case reflect.Interface, reflect.Ptr:
					if !o.IsNil() && o.CanInterface() && o.Interface() != v && strings.Contains(o.Elem().Type().PkgPath()+o.Type().PkgPath(), "Comcast/gots") {
						callAll(entry+"."+name, input, o.Interface(), depth+1)
					}
				}
			}
		})
	}
	call(entry+".fmt", input, false, func() { _ = fmt.Sprintf("%v %+v", v, v) })
}

// ------------------------------------------------------------------ seeds

func seedSCTE35(r *gen.Rand) []byte {
	s := ref.GenSig(r, true)
	if r.Chance(4) { // a MID heavy descriptor, the shape real VSS signals have
		d := ref.GenSegDesc(r, false)
		d.Cancel, d.UPIDType, d.UPID = false, 0x0d, nil
		d.MID = []ref.UPID{{Type: 9, Data: []byte("BLACKOUT:abc")}, {Type: 0x0e, Data: []byte("comcast:linear:licenserotation")}}
		d.Type = 0x40
		s.Descs = append(s.Descs, d)
	}
	return s.Payload()
}

var seedPIDs []int // the elementary PIDs of every program-map section of the last PMT seed

func seedPMT(r *gen.Rand) []byte {
	p := ref.GenPMT(r, -1)
	seedPIDs = seedPIDs[:0]
	for _, s := range p.Streams {
		seedPIDs = append(seedPIDs, s.PID)
	}
	if r.Chance(5) {
		// two program-map sections in one payload (the later one wins); the first lists more streams
		q := ref.GenPMT(r, 1+r.Intn(3))
		if len(q.Streams) < len(p.Streams) {
			for _, s := range q.Streams {
				seedPIDs = append(seedPIDs, s.PID)
			}
			return append(ref.PointerPrefix(0), append(p.Section(), q.Section()...)...)
		}
	}
	b := append(ref.PointerPrefix(r.PickInt([]int{0, 0, 0, 1, 5, 100})), p.Section()...)
	if r.Chance(4) {
		b = append(ref.PointerPrefix(0), append(ref.GenOtherSection(r), p.Section()...)...)
	}
	if r.Chance(3) {
		b = append(b, bytes.Repeat([]byte{0xff}, r.Intn(20))...)
	}
	return b
}

func seedPAT(r *gen.Rand) []byte {
	p := ref.PAT{TSID: uint16(r.Intn(65536)), Version: byte(r.Intn(32)), CurrentNext: true}
	for i := r.Intn(6); i > 0; i-- {
		p.Entries = append(p.Entries, ref.PATEntry{Program: uint16(r.Intn(4)), PID: r.Intn(8192)})
	}
	b := append([]byte{0}, p.Section()...)
	if r.Chance(3) {
		b = append(b, bytes.Repeat([]byte{0xff}, r.Intn(200))...)
	}
	return b
}

func seedPES(r *gen.Rand) []byte {
	h := ref.PES{StreamID: r.PickByte([]byte{0xe0, 0xc0, 0xbd, 0xbe, 0xbf, 0xbc, 0xf0, 0xff, r.Byte()}), PacketLen: uint16(r.Intn(65536)), Flags1: byte(r.Intn(64)),
		PTSDTS: r.PickByte([]byte{0, 2, 3}), PTS: r.U33(), DTS: r.U33(), Extra: r.Bytes(r.Intn(8)), Payload: r.Bytes(1 + r.Intn(20))}
	b, _ := h.Bytes()
	return b
}

func seedEBP(r *gen.Rand) []byte {
	e := ref.EBP{CableLabs: r.Bool(), Flags: r.Byte(), Ext: r.Byte(), Sap: r.Byte(), Sec: r.Uint32(), Frac: r.Uint32(), Partitions: r.Byte()}
	for i := 1 + r.Intn(6); i > 0; i-- {
		e.Groups = append(e.Groups, r.Byte()&0x7f)
	}
	e.Reserved = r.Bytes(r.Intn(5))
	b := e.Bytes()
	if r.Chance(6) {
		// a long input: a grouping chain that runs on (extension bits set) for up to ~270 bytes, then the rest
		n := 200 + r.Intn(80)
		chain := make([]byte, n)
		for i := range chain {
			chain[i] = 0x80 | r.Byte()
		}
		hdr := []byte{0xDF, byte(r.PickInt([]int{255, 254, 200, 20})), 'E', 'B', 'P', '0', 0x10 | r.Byte()&0xef | 0x08}
		if r.Bool() {
			hdr = []byte{0xA9, 0xff, 0x18 | r.Byte()}
		}
		b = append(append(hdr, chain...), r.Bytes(r.Intn(30))...)
		if r.Bool() {
			b[len(hdr)+r.Intn(n)] &= 0x7f // the chain ends somewhere
		}
		for k := 244; k < 256 && k < len(b); k++ {
			if r.Chance(4) {
				b[k] &= 0x7f // ... often around the point where an 8-bit index wraps
			}
		}
	}
	return b
}

func seedPacket(r *gen.Rand) []byte {
	switch r.Intn(6) {
	case 0: // PSI carrying packet
		pay := seedPMT(r)
		if len(pay) > 184 {
			pay = pay[:184]
		}
		p := ref.PaddedPacket(r.Intn(8192), r.Intn(16), true, pay)
		return p[:]
	case 1: // PES carrying packet
		pay := seedPES(r)
		p := ref.PayloadPacket(r.Intn(8192), r.Intn(16), true, pay)
		return p[:]
	case 2: // adaptation field with an EBP in the private data
		m := ref.GenTSPacket(r, 3, 60+r.Intn(100))
		e := seedEBP(r)
		if len(e) < 40 {
			m.AF.TPD = &e
			if m.AF.Size() > m.L {
				m.AF = ref.AF{TPD: &e}
			}
		}
		p := m.Bytes()
		return p[:]
	}
	m := ref.GenTSPacket(r, 0, -1)
	p := m.Bytes()
	return p[:]
}

type streamSeed struct {
	data   []byte
	pmtPid int
}

func seedStream(r *gen.Rand) streamSeed {
	var b bytes.Buffer
	for i := r.Intn(3); i > 0; i-- {
		b.Write(r.Bytes(r.Intn(30))) // leading garbage
	}
	pmtPid := 0x20 + r.Intn(8000)
	pat := ref.PAT{TSID: 1, CurrentNext: true, Entries: []ref.PATEntry{{Program: 1, PID: pmtPid}}}
	pp := ref.PaddedPacket(0, 0, true, append([]byte{0}, pat.Section()...))
	other := func() {
		o := ref.PaddedPacket(0x100+r.Intn(0x1000), r.Intn(16), r.Bool(), r.Bytes(r.Intn(185)))
		b.Write(o[:])
	}
	for i := r.Intn(3); i > 0; i-- {
		other()
	}
	b.Write(pp[:])
	pm := ref.GenPMT(r, -1)
	pm.Streams = append(pm.Streams, ref.ES{Type: 0x86, PID: 0x1f0})
	pkts, _ := ref.Packetise(pmtPid, 0, append([]byte{0}, pm.Section()...), ref.RandChunks(r, 6), r.Bool())
	for _, k := range pkts {
		if r.Chance(3) {
			other()
		}
		b.Write(k[:])
	}
	// a SCTE-35 packet, an EBP packet, some payload
	sp := ref.PaddedPacket(0x1f0, 0, true, seedSCTE35(r))
	b.Write(sp[:])
	e := seedPacket(r)
	b.Write(e)
	for i := r.Intn(4); i > 0; i-- {
		other()
	}
	return streamSeed{b.Bytes(), pmtPid}
}

// seedUnits builds a stream around a sequence of payload units on the PMT PID in the shapes a receiver
// meets after packet loss or an encoder restart: PMTs behind other sections or a pointer filler, units
// holding only another table, units whose tail packets are missing, very short unit starts (adaptation
// field stuffing), then whole packets dropped, repeated, swapped or with the unit-start bit flipped.
func seedUnits(r *gen.Rand) streamSeed {
	var pkts []ref.Pkt
	pmtPid := 0x20 + r.Intn(8000)
	pat := ref.PAT{TSID: 1, CurrentNext: true, Entries: []ref.PATEntry{{Program: 1, PID: pmtPid}}}
	pkts = append(pkts, ref.PaddedPacket(0, 0, true, append([]byte{0}, pat.Section()...)))
	cc := r.Intn(16)
	for u := 2 + r.Intn(5); u > 0; u-- {
		var pay []byte
		kind := r.Intn(4)
		pay = ref.PointerPrefix(r.PickInt([]int{0, 0, 0, 1, 7, 100, 180, 183}))
		for k := r.Intn(3); k > 0 && kind != 3; k-- {
			pay = append(pay, ref.OtherSection(r.PickByte([]byte{0x00, 0x03, 0x42, 0xc0, 0xc8, 0xfc}), r.Bytes(r.PickInt([]int{0, 5, 40, 100, 200, r.Intn(300)})))...)
		}
		switch kind {
		case 0, 3:
			pm := ref.GenPMT(r, -1)
			pay = append(pay, pm.Section()...)
		case 1:
			pm := ref.GenPMT(r, 30+r.Intn(20))
			pay = append(pay, pm.Section()...)
		default:
			if len(pay) < 3 {
				pay = append(pay, ref.OtherSection(0xc0, r.Bytes(r.Intn(60)))...)
			}
		}
		chunks := ref.RandChunks(r, 1+len(pay)/60)
		if r.Chance(3) {
			chunks = append([]int{1 + r.Intn(40)}, chunks...) // a unit start that carries only a few bytes
		}
		up, _ := ref.Packetise(pmtPid, cc, pay, chunks, r.Bool())
		cc += len(up)
		if len(up) > 1 && r.Chance(3) {
			up = up[:1+r.Intn(len(up)-1)] // the rest of the unit is lost
		}
		pkts = append(pkts, up...)
	}
	var out []ref.Pkt
	for i := 0; i < len(pkts); i++ {
		k := pkts[i]
		switch r.Intn(14) {
		case 0:
			continue
		case 1:
			out = append(out, k)
		case 2:
			k[1] ^= 0x40
		case 3:
			if i+1 < len(pkts) {
				out = append(out, pkts[i+1])
			}
		}
		out = append(out, k)
		if r.Chance(5) {
			out = append(out, ref.PaddedPacket(0x100+r.Intn(0x1000), r.Intn(16), r.Bool(), r.Bytes(r.Intn(185))))
		}
	}
	var b bytes.Buffer
	for _, k := range out {
		b.Write(k[:])
	}
	return streamSeed{b.Bytes(), pmtPid}
}

// ------------------------------------------------------------------ mutators

var special = []byte{0x00, 0x01, 0x7f, 0x80, 0xfe, 0xff}

func mutate(r *gen.Rand, b []byte, other []byte) ([]byte, string) {
	c := append([]byte{}, b...)
	switch r.Intn(9) {
	case 0:
		return c[:r.Intn(len(c)+1)], "truncate"
	case 1:
		if len(c) > 0 {
			c[r.Intn(len(c))] = special[r.Intn(len(special))]
		}
		return c, "byte-special"
	case 2:
		if len(c) > 0 {
			c[r.Intn(len(c))] ^= 1 << uint(r.Intn(8))
		}
		return c, "bitflip"
	case 3:
		for k := 0; k < 3 && len(c) > 0; k++ {
			c[r.Intn(len(c))] = r.Byte()
		}
		return c, "multi-byte"
	case 4:
		if len(c) > 0 {
			i := r.Intn(len(c))
			c[i] = special[r.Intn(len(special))]
			c = c[:i+1+r.Intn(len(c)-i)]
		}
		return c, "corrupt+truncate"
	case 5:
		return r.Bytes(r.Intn(40)), "random-short"
	case 6:
		if len(c) > 0 {
			i := r.Intn(len(c))
			d := int(c[i]) + r.PickInt([]int{-1, 1, -2, 2})
			c[i] = byte(d)
		}
		return c, "byte+-1"
	case 7:
		if len(other) > 0 && len(c) > 0 {
			i, j := r.Intn(len(c)), r.Intn(len(other))
			return append(append([]byte{}, c[:i]...), other[j:]...), "splice"
		}
		return c, "none"
	}
	return c, "none"
}

// ------------------------------------------------------------------ entry points per format

func driveSCTE35(b []byte) {
	decodeThen("scte35.NewSCTE35", b, func() interface{} {
		if x, err := scte35.NewSCTE35(b); err == nil && x != nil {
			return x
		}
		return nil
	}, "SCTE35", nil)
	call("scte35.SCTE35AccumulatorDoneFunc", b, true, func() { scte35.SCTE35AccumulatorDoneFunc(b) })
}

func drivePSI(b []byte) {
	call("psi.PointerField", b, true, func() { psi.PointerField(b) })
	call("psi.TableID", b, true, func() { psi.TableID(b) })
	call("psi.SectionSyntaxIndicator", b, true, func() { psi.SectionSyntaxIndicator(b) })
	call("psi.PrivateIndicator", b, true, func() { psi.PrivateIndicator(b) })
	call("psi.SectionLength", b, true, func() { psi.SectionLength(b) })
	call("psi.TableHeaderFromBytes", b, true, func() { psi.TableHeaderFromBytes(b) })
	call("psi.PmtAccumulatorDoneFunc", b, true, func() { psi.PmtAccumulatorDoneFunc(b) })
	call("psi.ExtractCRC", b, true, func() { psi.ExtractCRC(b) })
}

func drivePMT(b []byte) {
	decodeThen("psi.NewPMT", b, func() interface{} {
		if x, err := psi.NewPMT(b); err == nil && x != nil {
			return x
		}
		return nil
	}, "PMT", func(v interface{}) {
		x := v.(psi.PMT)
		call("PMT.queries-by-PID", b, false, func() {
			for _, pid := range seedPIDs {
				x.IsPidForStreamWherePresentationLagsEbp(pid)
				x.PIDExists(pid)
			}
		})
		call("PMT.RemoveElementaryStreams", b, false, func() { x.RemoveElementaryStreams(append([]int{1, 2}, x.Pids()...)) })
		call("PMT.queries-by-PID-after-removal", b, false, func() {
			for _, pid := range seedPIDs {
				x.IsPidForStreamWherePresentationLagsEbp(pid)
				x.PIDExists(pid)
			}
			_ = x.String()
		})
	})
	drivePSI(b)
}

func drivePAT(b []byte) {
	decodeThen("psi.NewPAT", b, func() interface{} {
		if x, err := psi.NewPAT(b); err == nil && x != nil {
			return x
		}
		return nil
	}, "PAT", func(v interface{}) {
		var pk packet.Packet
		call("psi.IsPMT", b, false, func() { psi.IsPMT(&pk, v.(psi.PAT)) })
	})
	drivePSI(b)
}

func drivePES(b []byte) {
	decodeThen("pes.NewPESHeader", b, func() interface{} {
		if x, err := pes.NewPESHeader(b); err == nil && x != nil {
			return x
		}
		return nil
	}, "PESHeader", func(v interface{}) {
		if f, ok := v.(interface{ Format() string }); ok {
			call("PESHeader.Format", b, false, func() { _ = f.Format() })
		}
	})
}

func driveEBP(b []byte) {
	decodeThen("ebp.ReadEncoderBoundaryPoint", b, func() interface{} {
		if x, err := ebp.ReadEncoderBoundaryPoint(b); err == nil && x != nil {
			return x
		}
		return nil
	}, "EBP", nil)
}

func driveDescriptor(tag byte, body []byte) {
	in := append([]byte{tag}, body...)
	call("psi.NewPmtDescriptor", in, false, func() {
		d := psi.NewPmtDescriptor(tag, body)
		callAll("PmtDescriptor", in, d, 0)
	})
}

func drivePacket(b []byte, r *gen.Rand) {
	var pk packet.Packet
	copy(pk[:], b)
	ro := func(name string, f func(p *packet.Packet)) {
		q := pk
		call(name, q[:], true, func() { f(&q) })
	}
	rw := func(name string, f func(p *packet.Packet)) {
		q := pk
		call(name, q[:], false, func() { f(&q) })
	}
	ro("packet.Header", func(p *packet.Packet) { packet.Header(p) })
	ro("packet.Payload", func(p *packet.Packet) { packet.Payload(p) })
	ro("packet.PESHeader", func(p *packet.Packet) { packet.PESHeader(p) })
	ro("(*Packet).Payload", func(p *packet.Packet) { p.Payload() })
	ro("(*Packet).CheckErrors", func(p *packet.Packet) { p.CheckErrors() })
	ro("pes.AlignedPUSI", func(p *packet.Packet) { pes.AlignedPUSI(p) })
	ro("packet.FromBytes", func(p *packet.Packet) { packet.FromBytes(p[:]) })
	ro("adaptationfield.getters", func(p *packet.Packet) {
		adaptationfield.Length(p)
		adaptationfield.IsDiscontinuous(p)
		adaptationfield.HasPCR(p)
	})
	ro("adaptationfield.PCR", func(p *packet.Packet) { adaptationfield.PCR(p) })
	ro("adaptationfield.OPCR", func(p *packet.Packet) { adaptationfield.OPCR(p) })
	ro("adaptationfield.SpliceCountdown", func(p *packet.Packet) { adaptationfield.SpliceCountdown(p) })
	ro("adaptationfield.TransportPrivateData", func(p *packet.Packet) { adaptationfield.TransportPrivateData(p) })
	ro("adaptationfield.EncoderBoundaryPoint", func(p *packet.Packet) {
		if e, err := adaptationfield.EncoderBoundaryPoint(p); err == nil {
			ebp.ReadEncoderBoundaryPoint(e)
		}
	})
	ro("(*AdaptationField).getters", func(p *packet.Packet) {
		if af, err := p.AdaptationField(); err == nil {
			af.Length()
			af.Discontinuity()
			af.RandomAccess()
			af.ElementaryStreamPriority()
			af.HasPCR()
			af.PCR()
			af.HasOPCR()
			af.OPCR()
			af.HasSplicingPoint()
			af.SpliceCountdown()
			af.HasTransportPrivateData()
			af.TransportPrivateData()
			af.HasAdaptationFieldExtension()
			af.AdaptationFieldExtension()
		}
	})
	ro("psi.NewPAT(188)", func(p *packet.Packet) {
		if x, err := psi.NewPAT(p[:]); err == nil && x != nil {
			x.NumPrograms()
			x.ProgramMap()
			x.SPTSpmtPID()
		}
	})
	ro("psi.FilterPMTPacketsToPids", func(p *packet.Packet) { psi.FilterPMTPacketsToPids([]*packet.Packet{p}, []int{0x101, 5}) })
	ro("psi.FilterPMTPacketsToPids(first listed PID)", func(p *packet.Packet) {
		// keep only the first stream the packet lists (if it decodes): the output then differs from the input
		pids := []int{0x101}
		if pay, err := packet.Payload(p); err == nil {
			if m, err := psi.NewPMT(pay); err == nil && m != nil && len(m.Pids()) > 0 {
				pids = []int{m.Pids()[0]}
			}
		}
		psi.FilterPMTPacketsToPids([]*packet.Packet{p}, pids)
	})
	data := r.Bytes(r.Intn(200))
	rw("(*Packet).SetPayload", func(p *packet.Packet) { p.SetPayload(data) })
	v := r.Intn(4)
	rw("(*Packet).SetAdaptationFieldControl", func(p *packet.Packet) { p.SetAdaptationFieldControl(packet.AdaptationFieldControlOptions(v)) })
	k := r.Intn(13)
	small := r.Bytes(r.Intn(24))
	rw("(*AdaptationField).setter", func(p *packet.Packet) {
		af, err := p.AdaptationField()
		if err != nil {
			return
		}
		switch k {
		case 0:
			af.SetHasPCR(true)
			af.SetHasPCR(false)
		case 1:
			af.SetHasOPCR(true)
			af.SetHasOPCR(false)
		case 2:
			af.SetHasSplicingPoint(true)
			af.SetHasSplicingPoint(false)
		case 3:
			af.SetHasTransportPrivateData(true)
			af.SetHasTransportPrivateData(false)
		case 4:
			af.SetHasAdaptationFieldExtension(true)
			af.SetHasAdaptationFieldExtension(false)
		case 5:
			af.SetPCR(5)
		case 6:
			af.SetOPCR(5)
		case 7:
			af.SetSpliceCountdown(5)
		case 8:
			af.SetTransportPrivateData(small)
		case 9:
			af.SetAdaptationFieldExtension(small)
		case 10:
			af.SetDiscontinuity(true)
			af.SetRandomAccess(true)
			af.SetElementaryStreamPriority(false)
		case 11:
			af.SetHasTransportPrivateData(false)
			af.SetHasAdaptationFieldExtension(false)
		default:
			af.SetHasPCR(false)
			af.SetHasOPCR(false)
			af.SetHasSplicingPoint(false)
		}
	})
	src := ref.GenTSPacket(r, 3, 1+r.Intn(182))
	sp := packet.Packet(src.Bytes())
	rw("(*Packet).SetAdaptationField", func(p *packet.Packet) { p.SetAdaptationField((*packet.AdaptationField)(&sp)) })
	// the hostile packet as the *source* of SetAdaptationField
	good := packet.Packet(src.Bytes())
	ro("(*Packet).SetAdaptationField(hostile source)", func(p *packet.Packet) { good.SetAdaptationField((*packet.AdaptationField)(p)) })
}

type sinkW struct{ n int }

func (s *sinkW) WritePacket(p *packet.Packet) (int, error) {
	s.n++
	packet.Payload(p)
	return packet.PacketSize, nil
}

func driveStream(b []byte, pid int) {
	call("packet.Sync", b, true, func() { packet.Sync(bufio.NewReader(bytes.NewReader(b))) })
	call("psi.ReadPAT", b, true, func() {
		if x, err := psi.ReadPAT(bytes.NewReader(b)); err == nil && x != nil {
			x.NumPrograms()
			x.ProgramMap()
		}
	})
	decodeThen("psi.ReadPMT", b, func() interface{} {
		if x, err := psi.ReadPMT(bytes.NewReader(b), pid); err == nil && x != nil {
			return x
		}
		return nil
	}, "ReadPMT.PMT", nil)
	call("sync+ReadPAT+ReadPMT", b, true, func() {
		br := bufio.NewReader(bytes.NewReader(b))
		if _, err := packet.Sync(br); err != nil {
			return
		}
		pat, err := psi.ReadPAT(br)
		if err != nil {
			return
		}
		for _, p := range pat.ProgramMap() {
			psi.ReadPMT(br, p)
		}
	})
	call("packet.Accumulator(PmtAccumulatorDoneFunc)", b, true, func() {
		acc := packet.NewAccumulator(psi.PmtAccumulatorDoneFunc)
		for i := 0; i+188 <= len(b); i += 188 {
			var pk packet.Packet
			copy(pk[:], b[i:])
			if _, err := acc.WritePacket(&pk); err != nil && err.Error() == "Accumulation is complete." {
				psi.NewPMT(acc.Bytes())
				scte35.NewSCTE35(acc.Bytes())
				acc.Reset()
			}
		}
		acc.Bytes()
		acc.Packets()
	})
	call("packet.Accumulator(after a refused packet)", b, true, func() {
		// keep using an accumulator after a packet it reported as an error
		acc := packet.NewAccumulator(func([]byte) (bool, error) { return false, nil })
		for i := 0; i+188 <= len(b) && i < 188*12; i += 188 {
			var pk packet.Packet
			copy(pk[:], b[i:])
			pk[1] |= 0x40
			acc.WritePacket(&pk)
			bad := pk
			bad[3] = bad[3]&^0x30 | 0x20 // no payload flag
			acc.WritePacket(&bad)
			bad[3] |= 0x30
			bad[4] = 0xff // adaptation_field_length beyond the packet
			acc.WritePacket(&bad)
			acc.Bytes()
			acc.Packets()
		}
		acc.Reset()
	})
	if len(b) >= 188 && len(b)%7 == 0 {
		call("packet.Accumulator(long unit, Reset, queries)", b, true, func() {
			// a unit far longer than any PSI table (more than 64 KiB of payload), then Reset and every query
			acc := packet.NewAccumulator(func([]byte) (bool, error) { return false, nil })
			var pk packet.Packet
			copy(pk[:], b)
			pk[0], pk[1], pk[3] = 0x47, pk[1]|0x40, 0x10
			acc.WritePacket(&pk)
			pk[1] &^= 0x40
			for i := 0; i < 400; i++ {
				pk[4] = byte(i)
				acc.WritePacket(&pk)
			}
			acc.Reset()
			acc.Bytes()
			acc.Packets()
			acc.WritePacket(&pk)
			acc.Bytes()
			pk[1] |= 0x40
			acc.WritePacket(&pk)
			acc.Bytes()
			acc.Packets()
		})
	}
	call("packet.IOWriter.Write", b, true, func() { packet.IOWriter(&sinkW{}).Write(b) })
	call("packet.IOWriter.ReadFrom", b, true, func() {
		packet.IOWriter(&sinkW{}).(io.ReaderFrom).ReadFrom(bufio.NewReaderSize(bytes.NewReader(b), 16+len(b)%500))
	})
}

// ------------------------------------------------------------------ the CLI binary

func cliBinary() string {
	if p := os.Getenv("VERIF_C05_CLI"); p != "" {
		return p
	}
	root := os.Getenv("VERIF_ROOT")
	if root == "" {
		root = "/verif"
	}
	return filepath.Join(root, ".work", "bin", "c05-parsefile")
}

func driveCLI(c *mon.Ctx, i int, b []byte) {
	bin := cliBinary()
	if _, err := os.Stat(bin); err != nil {
		c.Count("cli.binary_missing")
		return
	}
	dir := filepath.Join(filepath.Dir(filepath.Dir(bin)), "run", "c05-cli")
	os.MkdirAll(dir, 0o755)
	f := filepath.Join(dir, fmt.Sprintf("s%d-%d.ts", c.Shard, i))
	os.WriteFile(f, b, 0o644)
	defer os.Remove(f)
	c.PersistInput("cli/parsefile", b)
	cmd := exec.Command(bin, "-f", f, "-pmt", "-ebp", "-scte35")
	var out bytes.Buffer
	cmd.Stdout = io.Discard
	cmd.Stderr = &out
	done := make(chan error, 1)
	cmd.Start()
	go func() { done <- cmd.Wait() }()
	var err error
	timedOut := false
	c.ExternalWait(func() {
		select {
		case err = <-done:
		case <-time.After(120 * time.Second):
			cmd.Process.Kill()
			<-done
			timedOut = true
		}
	})
	if timedOut {
		c.Count("cli.wall_clock_watchdog") // inconclusive on its own; the in-process entry points decide hangs
		return
	}
	c.Eval(1)
	c.Count("cli.runs")
	if err == nil {
		return
	}
	s := out.String()
	if strings.Contains(s, "runtime error") || strings.Contains(s, "fatal error") {
		site := "?"
		for _, ln := range strings.Split(s, "\n") {
			if strings.HasPrefix(ln, "github.com/Comcast/gots/v2") {
				site = strings.TrimPrefix(strings.SplitN(ln, "(", 2)[0], "github.com/Comcast/gots/v2/")
				if j := strings.LastIndex(ln, "("); j > 0 {
					site = strings.TrimPrefix(ln[:j], "github.com/Comcast/gots/v2/")
				}
				break
			}
		}
		first := strings.SplitN(s, "\n", 2)[0]
		c.Fail("panic: cli/parsefile > "+site, "the parsefile CLI crashed on a generated transport stream: "+first, wit{Entry: "cli/parsefile -pmt -ebp -scte35", Input: mon.Hex(b), Detail: first})
		return
	}
	// the tool's own panic(err) after a failed ReadPMT is its documented way of giving up
	c.Count("cli.exit_nonzero_by_design")
}

// ------------------------------------------------------------------ workload

func run(c *mon.Ctx) {
	ctx = c
	c.Rule("hostile inputs derived from well-formed seeds of every format (SCTE-35 sections, PMT / PAT payloads, PES starts, EBPs, PMT descriptors, 188-byte packets, packet streams) by truncation at every point, special values / +-1 in every byte (which covers every length field), bit flips, multi-byte corruption, splices and random strings; every decoding entry point of the format is called on each, and every object returned without error is queried through all getters found by reflection, printed and re-encoded. distinct non-trivial = distinct (entry point, outcome, input length class, mutator)")
	c.Assume("Go's run-time bounds / nil / allocation checks are the memory-safety sanitizer (the library has no cgo or unsafe); bounded means: heap in use stays under 512 MiB and one call uses under 10 s of process CPU time (watchdog in every child; the input is persisted before the call); inputs are at most 64 KiB (66 000 bytes for sections whose descriptor loop is as long as 16 bits can say)")
	c.Watchdog(512<<20, 10*time.Second)
	c.Floor("outcome.returned", 10000)
	c.Floor("long_sections.driven", 300)
	c.Floor("descriptor_cut.driven", 1500)
	c.Floor("cost_scaling.comparisons", 16)
	c.Floor("input.front_of_a_larger_buffer", 5000)

	type format struct {
		name  string
		seed  func(r *gen.Rand) []byte
		drive func(b []byte, r *gen.Rand)
	}
	formats := []format{
		{"scte35", seedSCTE35, func(b []byte, r *gen.Rand) { driveSCTE35(b); drivePSI(b) }},
		{"pmt", seedPMT, func(b []byte, r *gen.Rand) { drivePMT(b) }},
		{"pat", seedPAT, func(b []byte, r *gen.Rand) { drivePAT(b) }},
		{"pes", seedPES, func(b []byte, r *gen.Rand) { drivePES(b) }},
		{"ebp", seedEBP, func(b []byte, r *gen.Rand) { driveEBP(b) }},
		{"packet", seedPacket, func(b []byte, r *gen.Rand) {
			if len(b) < 188 {
				b = append(b, make([]byte, 188-len(b))...)
			}
			drivePacket(b[:188], r)
		}},
	}
	// ---- the very first calls in a fresh process come from several goroutines at once (anything that is built
	// lazily on first use is built under contention): decoders are total whoever else is decoding. Every worker
	// process runs this once, before anything else has warmed the library up.
	c.StreamSeedless("cold-start-concurrent", 16, func(_ int, r *gen.Rand) {
		curMut = "cold-start"
		c.PersistInput("concurrent decoders in a fresh process", nil)
		// (the main goroutine waits for the others here: not a hang, so the blocked-forever detector is told)
		c.ExternalWait(func() { coldStart(c, r) })
	})
	// ---- random mutation
	for _, f := range formats {
		f := f
		n := c.N(5000, 1000000)
		if f.name == "packet" {
			n = c.N(4000, 800000)
		}
		c.Stream("mutate-"+f.name, n, func(i int, r *gen.Rand) {
			b := f.seed(r)
			curMut = "none"
			if i%20 != 0 {
				b, curMut = mutate(r, b, f.seed(r))
				if r.Chance(3) {
					var m2 string
					b, m2 = mutate(r, b, nil)
					curMut += "+" + m2
					if strings.Count(curMut, "+") > 0 {
						curMut = "double"
					}
				}
			}
			if f.name == "packet" && r.Chance(4) && len(b) >= 12 {
				r.Fill(b[3:12]) // hostile header / adaptation-field bytes
				curMut = "random-af-head"
			}
			// the input as it is, as a tight copy, or as the front of a larger buffer of the caller's
			b = r.Slack(b)
			if cap(b) > len(b) {
				c.Count("input.front_of_a_larger_buffer")
			}
			f.drive(b, r)
		})
	}
	// ---- systematic: every truncation point and every byte set to each special value / +-1
	nSys := c.N(3, 400)
	for _, f := range formats {
		f := f
		c.Stream("systematic-"+f.name, nSys, func(i int, r *gen.Rand) {
			seed := f.seed(r)
			if len(seed) > 400 {
				seed = seed[:400]
			}
			curMut = "every-truncation"
			for n := 0; n <= len(seed); n++ {
				f.drive(append([]byte{}, seed[:n]...), r)
			}
			curMut = "every-byte-special"
			lim := len(seed)
			if f.name == "packet" && lim > 40 {
				lim = 40
			}
			for pos := 0; pos < lim; pos++ {
				for _, v := range []byte{0x00, 0x01, 0x7f, 0x80, 0xfe, 0xff, seed[pos] + 1, seed[pos] - 1} {
					m := append([]byte{}, seed...)
					m[pos] = v
					f.drive(m, r)
				}
			}
			// 16-bit length fields: every byte pair set to values at and just below the 16-bit maximum
			curMut = "every-pair-near-ffff"
			for pos := 0; pos+1 < lim; pos++ {
				for _, v := range []uint16{0xffff, 0xfffe, 0xfffd, 0xfffc, 0xfffb, 0xfffa, 0x0fff, 0x0ffe, 0x8000} {
					m := append([]byte{}, seed...)
					m[pos], m[pos+1] = m[pos]&0xf0|byte(v>>8), byte(v)
					if v >= 0xfff0 {
						m[pos] = 0xff
					}
					f.drive(m, r)
				}
			}
		})
	}
	// ---- streams that end at every byte offset, behind 0..3 bytes of garbage, with every kind of first header
	c.Exhaustive("Sync / IsSynced: 4 adaptation_field_control x 3 leading-garbage lengths x every cut 0..400 of a 3-packet stream x 3 reader buffer sizes", 4*3*401*3)
	c.StreamSeedless("sync-truncations", 12, func(k int, r *gen.Rand) {
		curMut = "stream-cut-at-every-offset"
		afc, lead := k%4, k/4
		var st []byte
		for g := 0; g < lead; g++ {
			st = append(st, r.PickByte([]byte{0x00, 0xff, 0x47, 0x48}))
		}
		for n := 0; n < 3; n++ {
			var p [188]byte
			r.Fill(p[:])
			p[0], p[1], p[2], p[3] = 0x47, byte(r.Intn(32)), byte(16+r.Intn(200)), byte(afc)<<4|byte(r.Intn(16))
			if afc&2 != 0 {
				p[4] = byte(r.PickInt([]int{0, 1, 7, 183, 183, 184, 255, r.Intn(256)}))
			}
			st = append(st, p[:]...)
		}
		for cut := 0; cut <= len(st) && cut <= 400; cut++ {
			b := st[:cut:cut]
			for _, sz := range []int{16, 188, 4096} {
				sz := sz
				call("packet.Sync", b, false, func() { packet.Sync(bufio.NewReaderSize(bytes.NewReader(b), sz)) })
				call("packet.IsSynced", b, false, func() { packet.IsSynced(bufio.NewReaderSize(bytes.NewReader(b), sz)) })
			}
		}
	})
	// ---- PES headers: every relation between the two independent length fields and the buffer length
	c.Exhaustive("PES_packet_length 0..47 x PES_header_data_length 0..31 x PTS_DTS_flags 4 x 6 buffer lengths x 3 stream ids", 48*32*4*6*3)
	c.StreamSeedless("pes-lengths", 48, func(L int, r *gen.Rand) {
		curMut = "pes-length-relation"
		for H := 0; H < 32; H++ {
			for fl := 0; fl < 4; fl++ {
				for _, sid := range []byte{0xe0, 0xbd, 0xbe} {
					for _, n := range []int{8, 9 + H - 1, 9 + H, 9 + H + 1, 9 + H + 7, 9 + H + 40} {
						if n < 0 {
							continue
						}
						b := make([]byte, n)
						r.Fill(b)
						hdr := []byte{0, 0, 1, sid, byte(L >> 8), byte(L), 0x80 | byte(r.Intn(64)), byte(fl)<<6 | byte(r.Intn(64)), byte(H)}
						copy(b, hdr)
						drivePES(b)
						if r.Chance(4) { // the same header as the payload of a packet
							var pk [188]byte
							r.Fill(pk[:])
							pk[0], pk[1], pk[3] = 0x47, 0x40|byte(r.Intn(32)), 0x10|byte(r.Intn(16))
							copy(pk[4:], b)
							drivePacket(pk[:], r)
						}
					}
				}
			}
		}
	})
	// ---- adaptation fields whose optional fields end exactly at / just before / just past byte 188
	c.Exhaustive("adaptation-field flags byte (256) x transport_private_data_length (256) x 4 extension length choices", 256*256*4)
	c.StreamSeedless("af-boundaries", 256, func(flags int, r *gen.Rand) {
		curMut = "af-length-boundary"
		for tl := 0; tl < 256; tl++ {
			if c.Tier == "quick" && flags&0x03 == 0 && tl%16 != 0 {
				continue // without private data / extension the length byte is not a length
			}
			for ev := 0; ev < 4; ev++ {
				var p [188]byte
				r.Fill(p[:])
				p[0], p[3], p[4], p[5] = 0x47, 0x30|byte(r.Intn(16)), byte(r.PickInt([]int{183, 183, 100, 1, 0, 255})), byte(flags)
				if r.Chance(3) {
					p[3] = 0x20 | byte(r.Intn(16))
				}
				off := 6
				if flags&0x10 != 0 {
					off += 6
				}
				if flags&0x08 != 0 {
					off += 6
				}
				if flags&0x04 != 0 {
					off++
				}
				if flags&0x02 != 0 {
					p[off] = byte(tl)
					off += 1 + tl
				}
				if flags&0x01 != 0 && off < 188 {
					room := 188 - off - 1
					p[off] = byte([]int{0, room, room + 1, 255}[ev] & 0xff)
				}
				b := p[:]
				var pk packet.Packet
				copy(pk[:], b)
				ro := func(name string, f func(q *packet.Packet)) {
					q := pk
					call(name, q[:], true, func() { f(&q) })
				}
				ro("(*AdaptationField).getters", func(q *packet.Packet) {
					if af, err := q.AdaptationField(); err == nil {
						af.TransportPrivateData()
						af.AdaptationFieldExtension()
						af.PCR()
						af.OPCR()
						af.SpliceCountdown()
					}
				})
				ro("adaptationfield.EncoderBoundaryPoint", func(q *packet.Packet) { adaptationfield.EncoderBoundaryPoint(q) })
				ro("packet.Header+Payload", func(q *packet.Packet) { packet.Header(q); packet.Payload(q); q.Payload() })
				k := (tl + ev) % 7
				q := pk
				call("(*AdaptationField).setter", q[:], false, func() {
					af, err := q.AdaptationField()
					if err != nil {
						return
					}
					switch k {
					case 0:
						af.SetHasPCR(flags&0x10 == 0)
					case 1:
						af.SetHasTransportPrivateData(flags&0x02 == 0)
					case 2:
						af.SetHasAdaptationFieldExtension(flags&0x01 == 0)
					case 3:
						af.SetTransportPrivateData([]byte{1, 2, 3})
						af.SetTransportPrivateData(make([]byte, tl)) // exactly the announced length
					case 4:
						af.SetAdaptationFieldExtension([]byte{1})
						af.SetAdaptationFieldExtension(make([]byte, int(q[188-1]))) // some length taken from the packet
					case 5:
						af.SetHasSplicingPoint(flags&0x04 == 0)
					default:
						af.SetHasOPCR(flags&0x08 == 0)
					}
				})
				qs := pk
				call("(*AdaptationField).SetTransportPrivateData(announced length)", qs[:], false, func() {
					if af, err := qs.AdaptationField(); err == nil {
						af.SetTransportPrivateData(make([]byte, tl))
						af.SetAdaptationFieldExtension(make([]byte, int(qs[10])))
					}
				})
				q2 := pk
				call("(*Packet).SetPayload", q2[:], false, func() { q2.SetPayload(b[100 : 100+(tl%80)]) })
				q3 := pk
				call("(*Packet).SetAdaptationFieldControl", q3[:], false, func() { q3.SetAdaptationFieldControl(packet.PayloadAndAdaptationFieldFlag) })
				good := packet.Packet(ref.PayloadPacket(0x100, 0, false, b[:100]))
				call("(*Packet).SetAdaptationField(hostile source)", pk[:], true, func() { good.SetAdaptationField((*packet.AdaptationField)(&pk)) })
			}
		}
	})
	// ---- PMT descriptors: every tag with short / random bodies
	c.Stream("descriptors", 256, func(tag int, r *gen.Rand) {
		curMut = "descriptor-body"
		for n := 0; n <= 12; n++ {
			for k := 0; k < c.N(2, 40); k++ {
				driveDescriptor(byte(tag), r.Bytes(n))
			}
		}
		driveDescriptor(byte(tag), nil)
		// bodies around and beyond the 255 bytes a PMT can carry (the constructor is exported and takes any slice)
		for _, n := range []int{13 + r.Intn(30), 100 + r.Intn(100), 253, 254, 255, 256, 257, 300 + r.Intn(300), 1000 + r.Intn(3000), 65536 + r.Intn(100)} {
			driveDescriptor(byte(tag), r.Bytes(n))
			fill := r.PickByte([]byte{0x00, 0x02, 0x7f, 0x80, 0xff})
			driveDescriptor(byte(tag), bytes.Repeat([]byte{fill}, n))
		}
	})
	// ---- streams
	c.Stream("streams", c.N(1500, 400000), func(i int, r *gen.Rand) {
		s := seedStream(r)
		b := s.data
		curMut = "none"
		switch r.Intn(6) {
		case 0:
		case 1:
			b, curMut = b[:r.Intn(len(b)+1)], "truncate"
		case 2:
			j := r.Intn(len(b))
			k := min(1+r.Intn(10), len(b)-j)
			b, curMut = append(append([]byte{}, b[:j]...), b[j+k:]...), "drop-bytes"
		default:
			b, curMut = mutate(r, b, nil)
			for k := r.Intn(4); k > 0; k-- {
				b, _ = mutate(r, b, nil)
			}
		}
		if len(b) > 65536 {
			b = b[:65536]
		}
		driveStream(b, s.pmtPid)
	})
	// ---- sequences of payload units with lost, repeated and reordered packets
	c.Stream("unit-sequences", c.N(4000, 1500000), func(i int, r *gen.Rand) {
		s := seedUnits(r)
		curMut = "unit-sequence"
		b := s.data
		if r.Chance(6) {
			b, curMut = mutate(r, b, nil)
			curMut = "unit-sequence+" + curMut
		}
		if len(b) > 65536 {
			b = b[:65536]
		}
		driveStream(b, s.pmtPid)
	})
	// ---- sections longer than the 12-bit section_length can say (the 16-bit descriptor_loop_length allows them and
	// the decoder does not compare the two): every total length in windows around 4 KiB, 8 KiB and the 16-bit limit,
	// for each command type; decoded, queried, printed, re-encoded
	longTargets := []int{}
	for _, base := range []int{4096, 8192, 12288, 65536} {
		for d := -50; d <= 60; d++ {
			longTargets = append(longTargets, base+d)
		}
	}
	longTargets = append(longTargets, 1000, 2000, 3000, 5000, 16384, 32768, 40000)
	c.StreamSeedless("scte35-long-sections", c.N(len(longTargets), 3*len(longTargets)), func(k int, r *gen.Rand) {
		target := longTargets[k%len(longTargets)]
		sg := ref.GenSig(r, false)
		sg.Descs, sg.Ptr, sg.Comps = nil, 0, nil
		sg.Cmd = []byte{0x00, 0x06, 0x05}[(k/len(longTargets)+k)%3]
		need := target - len(sg.Section())
		for need >= 6 {
			n := need
			if n > 257 {
				n = 257
				if need-n < 6 {
					n = need - 6
				}
			}
			body := append([]byte("CUEI"), r.Bytes(n-6)...)
			sg.Descs = append(sg.Descs, ref.SegDesc{Foreign: true, Tag: r.PickByte([]byte{0x00, 0x01, 0x03, 0x80, 0xff}), Body: body})
			need -= n
		}
		curMut = "long-section"
		b := sg.Payload()
		if len(b) > 65536 {
			b = b[:65536]
		}
		c.Count("long_sections.driven")
		driveSCTE35(r.Slack(b))
		if target >= 65536-50 {
			// the same with descriptor_loop_length at (and next to) the largest value 16 bits can say, the bytes
			// reaching to or past the end of that loop: the last descriptor crosses it
			full := sg.Payload()
			if len(full) > 66000 {
				full = full[:66000]
			}
			cmdLen := int(full[12]&0x0f)<<8 | int(full[13])
			if at := 1 + 14 + cmdLen; at+2 <= len(full) {
				for _, v := range []uint16{0xffff, 0xfffe, 0xfffd, 0xff00} {
					m := append([]byte{}, full...)
					m[at], m[at+1] = byte(v>>8), byte(v)
					curMut = "long-section+loop-length-at-the-16-bit-maximum"
					driveSCTE35(m)
				}
			}
		}
	})
	// ---- segmentation descriptors cut short inside a section that is consistent on the outside (descriptor_length
	// one to three bytes less than the descriptor needs, for every shape: sub-segment fields, UPID, MID, components):
	// decoded, printed, re-encoded; the caller's buffer stays what it was
	c.Stream("scte35-descriptor-cut", c.N(3000, 600000), func(i int, r *gen.Rand) {
		sg := ref.GenSig(r, false)
		for len(sg.Descs) == 0 {
			sg.Descs = append(sg.Descs, ref.GenSegDesc(r, false))
		}
		j := r.Intn(len(sg.Descs))
		d := sg.Descs[j]
		if r.Bool() {
			d.Cancel, d.Type, d.HasSub = false, r.PickByte([]byte{0x34, 0x36}), true
			if len(d.UPID) == 0 && d.UPIDType != 0x0d {
				d.UPIDType, d.UPID = 0x09, r.Bytes(1+r.Intn(12))
			}
		}
		enc := d.Enc()
		cut := 1 + r.Intn(3)
		if len(enc)-cut < 2+4 {
			return
		}
		sg.Descs[j] = ref.SegDesc{Foreign: true, Tag: 0x02, Body: append([]byte{}, enc[2:len(enc)-cut]...)}
		curMut = fmt.Sprintf("descriptor-cut-by-%d", cut)
		c.Count("descriptor_cut.driven")
		driveSCTE35(r.Slack(sg.Payload()))
	})
	// ---- cost grows with the size of the input, not with its square: the same kind of splice_info_section at 4 KiB
	// and at 64 KiB (16 times as long), decoded, printed and re-encoded; the comparison is between two CPU-time
	// measurements of this process (no deadline), and only a large absolute cost can fail it
	c.StreamSeedless("cost-scaling", 4, func(k int, r *gen.Rand) {
		build := func(target int) []byte {
			sg := ref.GenSig(r, false)
			sg.Descs, sg.Ptr, sg.Comps, sg.Cmd = nil, 0, nil, []byte{0x00, 0x06, 0x05, 0x06}[k]
			for size := len(sg.Section()); size < target-300; {
				d := ref.GenSegDesc(r, false)
				d.Cancel = k == 3
				if k%2 == 0 {
					// component mode, the most text per input byte
					d.ProgSeg, d.UPIDType, d.UPID, d.MID, d.HasDur, d.HasSub, d.Comps = false, 0, nil, nil, false, false, nil
					for j := 0; j < 38; j++ {
						d.Comps = append(d.Comps, ref.SegComp{Tag: byte(j), Off: r.U33()})
					}
				}
				sg.Descs = append(sg.Descs, d)
				size += len(d.Enc())
			}
			return sg.Payload()
		}
		cost := func(b []byte, what func(x scte35.SCTE35)) time.Duration {
			best := time.Duration(1 << 62)
			for rep := 0; rep < 3; rep++ {
				x, err := scte35.NewSCTE35(b)
				if err != nil || x == nil {
					return 0
				}
				c.PersistInput("cost of printing / re-encoding a large section", b)
				t0 := mon.ProcessCPU()
				what(x)
				if d := mon.ProcessCPU() - t0; d < best {
					best = d
				}
			}
			return best
		}
		curMut = "cost-scaling"
		small, large := build(4096), build(65000)
		for name, what := range map[string]func(x scte35.SCTE35){
			"String()":     func(x scte35.SCTE35) { _ = x.String() },
			"UpdateData()": func(x scte35.SCTE35) { x.UpdateData() },
			"getters":      func(x scte35.SCTE35) { callAll("SCTE35", nil, x, 2) },
			"decoding (NewSCTE35 on Data())": func(x scte35.SCTE35) {
				for j := 0; j < 4; j++ {
					scte35.NewSCTE35(append([]byte{0}, x.Data()...))
				}
			},
		} {
			cs, cl := cost(small, what), cost(large, what)
			c.Eval(1)
			c.Count("cost_scaling.comparisons")
			// 16 times the input: a linear cost grows 16-fold, a quadratic one 256-fold
			if cl > 300*time.Millisecond && cl > 80*cs {
				c.Fail("cost-scaling: SCTE35."+name, fmt.Sprintf("%s of a %d-byte splice_info_section costs %v of CPU time, %d times as much as for a %d-byte section of the same kind (the input is 16 times as long)", name, len(large), cl, cl/(cs+1), len(small)),
					wit{Entry: "SCTE35." + name, Mutator: "cost-scaling", Detail: fmt.Sprintf("%d bytes: %v, %d bytes: %v", len(small), cs, len(large), cl)})
			}
		}
		c.Class(fmt.Sprintf("cost-scaling/%d", k))
	})
	// ---- getters of one decoded object called from several goroutines at once (they only read it): no panic, no
	// fatal error of the runtime (an unlocked map filled in on first use ends the process)
	c.Stream("concurrent-readers-of-decoded-objects", c.N(8, 100), func(i int, r *gen.Rand) {
		curMut = "concurrent-readers"
		c.ExternalWait(func() {
			c.ConcurrentReaders("decoded PMT / PAT / splice_info_section / PES header", c.N(200, 300), r, func(q *gen.Rand) func() string {
				pm := ref.GenPMT(q, 4+q.Intn(40))
				pay := append([]byte{0}, pm.Section()...)
				c.PersistInput("getters of one decoded PMT, PAT, signal and PES header from 8 goroutines", pay)
				m, _ := psi.NewPMT(pay)
				pat, _ := psi.NewPAT(seedPAT(q))
				sg := ref.GenSig(q, true)
				x, _ := scte35.NewSCTE35(sg.Payload())
				ph, _ := pes.NewPESHeader(seedPES(q))
				return func() string {
					if m != nil {
						for _, pid := range m.Pids() {
							_ = m.PIDExists(pid)
							_ = m.IsPidForStreamWherePresentationLagsEbp(pid)
						}
						_ = m.PIDExists(0x1fff)
						for _, es := range m.ElementaryStreams() {
							_, _ = es.StreamTypeDescription(), es.MaxBitRate()
							for _, d := range es.Descriptors() {
								_, _, _ = d.Format(), d.DecodeIso639LanguageCode(), d.IsDolbyATMOS()
							}
						}
						_, _ = m.VersionNumber(), fmt.Sprint(m)
					}
					if pat != nil {
						_, _ = pat.NumPrograms(), pat.ProgramMap()
						_, _ = pat.SPTSpmtPID()
					}
					if x != nil {
						_, _, _, _ = x.PTS(), x.Tier(), x.Command(), x.Data()
						for _, d := range x.Descriptors() {
							_, _, _, _ = d.TypeID(), d.UPID(), d.Components(), d.MID()
							_ = d.IsIn()
							_, _ = d.StreamSwitchSignalId()
							for _, o := range x.Descriptors() {
								_, _ = d.CanClose(o), d.Equal(o)
							}
						}
					}
					if ph != nil {
						_, _, _, _ = ph.PTS(), ph.DTS(), ph.Data(), ph.StreamId()
					}
					return ""
				}
			})
		})
		c.Count("concurrent_readers.cases")
	})
	// ---- the CLI on generated files
	c.Stream("cli", c.N(60, 3000), func(i int, r *gen.Rand) {
		s := seedStream(r)
		b := s.data
		if i%3 != 0 {
			b, _ = mutate(r, b, nil)
			if r.Bool() {
				b, _ = mutate(r, b, nil)
			}
		}
		curMut = "cli"
		driveCLI(c, i, b)
	})
	noteMaxAlloc(c)
}

func coldStart(c *mon.Ctx, r *gen.Rand) {
	c.Concurrent("psi.NewPMT / scte35.NewSCTE35 / ebp / pes in a fresh process", 16, 64, r, func(q *gen.Rand) string {
		pm := ref.PMT{Program: 1, CurrentNext: true, PCRPID: 0x100}
		for k := 0; k < 8; k++ {
			pm.Streams = append(pm.Streams, ref.ES{Type: q.Byte(), PID: 0x101 + k, Descs: []ref.Desc{{Tag: q.Byte(), Body: q.Bytes(q.Intn(8))}}})
		}
		if m, err := psi.NewPMT(append([]byte{0}, pm.Section()...)); err == nil && m != nil {
			for _, es := range m.ElementaryStreams() {
				_ = es.StreamTypeDescription()
				_ = es.IsAudioContent()
				for _, d := range es.Descriptors() {
					_ = d.Format()
				}
			}
			_ = fmt.Sprint(m)
		}
		sg := ref.GenSig(q, true)
		if x, err := scte35.NewSCTE35(sg.Payload()); err == nil && x != nil {
			_ = x.String()
			x.UpdateData()
		}
		if x, err := ebp.ReadEncoderBoundaryPoint(seedEBP(q)); err == nil && x != nil {
			_ = x.Data()
		}
		pes.NewPESHeader(seedPES(q))
		return ""
	})
}

func min(a, b int) int {
	if a < b {
		return a
	}
	return b
}

// measuredEntry: allocation is budgeted for the decoding / accessor entry points themselves, not for
// printing (String / Format / %v build large strings by design) or for the getters of decoded objects.
func measuredEntry(entry string) bool {
	for _, p := range []string{"scte35.", "psi.", "pes.", "ebp.", "packet.", "adaptationfield.", "(*Packet).", "(*AdaptationField).", "sync+"} {
		if strings.HasPrefix(entry, p) {
			return true
		}
	}
	return false
}

func noteMaxAlloc(c *mon.Ctx) {
	c.Note("largest_allocation_by_one_call", fmt.Sprintf("%d bytes (%s)", maxAlloc, maxAllocAt))
}
