// C13 — the checksum function is CRC-32/MPEG-2 on every input.
package main

import (
	"bytes"
	"fmt"
	"runtime"
	"sync"
	"sync/atomic"

	gots "github.com/Comcast/gots/v2"
	"github.com/Comcast/gots/v2/packet"
	"github.com/Comcast/gots/v2/psi"
	"github.com/Comcast/gots/v2/scte35"

	"verif/harness/internal/gen"
	"verif/harness/internal/mon"
	"verif/harness/internal/ref"
)

func main() { mon.Main("C13", run) }

type wit struct {
	Input string `json:"input_hex"`
	Got   string `json:"got"`
	Want  string `json:"want"`
	Note  string `json:"note,omitempty"`
}

// results of earlier calls: the slice as returned, and a copy of what it held then
var kept, emitted [][2][]byte

func check(c *mon.Ctx, s []byte, class string) {
	// the string comes as it is, as a tight copy, or as the front of a larger buffer whose further bytes are
	// somebody else's (a receiver checks section[:n-4] inside its packet buffer)
	s = gen.SlackBy(s, uint64(len(s))*2654435761+uint64(ref.CRC32MPEG2(s)))
	snap := append([]byte{}, s...)
	got := gots.ComputeCRC(s)
	want := ref.BE32(ref.CRC32MPEG2(s))
	c.Eval(1)
	if !bytes.Equal(got, want) {
		c.Fail("crc:value", fmt.Sprintf("ComputeCRC of a %d-byte string returned %x, CRC-32/MPEG-2 is %x", len(s), got, want), wit{mon.Hex(s), mon.Hex(got), mon.Hex(want), ""})
		return
	}
	if !bytes.Equal(s, snap) {
		c.Fail("crc:mutates-input", "ComputeCRC modified its input", wit{Input: mon.Hex(snap)})
	}
	// the four bytes returned for earlier strings are still theirs after this call
	for _, k := range kept {
		if !bytes.Equal(k[0], k[1]) {
			c.Fail("crc:earlier-result-changed-by-later-call", fmt.Sprintf("the slice an earlier ComputeCRC call returned now reads %x; it was %x when returned", k[0], k[1]), wit{mon.Hex(s), mon.Hex(k[0]), mon.Hex(k[1]), "checked after a later call on this input"})
			kept = nil
			break
		}
	}
	if len(kept) >= 6 {
		kept = kept[1:]
	}
	kept = append(kept, [2][]byte{got, append([]byte{}, got...)})
	// residue identity
	ext := append(append([]byte{}, s...), got...)
	if res := gots.ComputeCRC(ext); !bytes.Equal(res, []byte{0, 0, 0, 0}) {
		c.Fail("crc:residue", fmt.Sprintf("ComputeCRC(s ++ ComputeCRC(s)) = %x, not zero", res), wit{mon.Hex(s), mon.Hex(res), "00000000", ""})
	}
	// the same buffer edited in place and checksummed again (a result must not be remembered by buffer identity)
	if len(s) > 0 {
		k := len(s) / 2
		s[k] ^= 0x5a
		g2 := gots.ComputeCRC(s)
		w2 := ref.BE32(ref.CRC32MPEG2(s))
		s[k] ^= 0x5a
		c.Eval(1)
		if !bytes.Equal(g2, w2) {
			c.Fail("crc:value-after-in-place-edit", fmt.Sprintf("ComputeCRC of a %d-byte buffer that was edited in place after an earlier call returned %x, CRC-32/MPEG-2 is %x", len(s), g2, w2), wit{mon.Hex(s), mon.Hex(g2), mon.Hex(w2), "byte " + fmt.Sprint(k) + " flipped between the two calls"})
		}
		if g3 := gots.ComputeCRC(s); !bytes.Equal(g3, want) {
			c.Fail("crc:value-after-restoring", "ComputeCRC differs between two calls on equal content", wit{mon.Hex(s), mon.Hex(g3), mon.Hex(want), ""})
		}
	}
	if class != "" && c.Class(class) && c.WantSample() && len(s) > 2 && len(s) < 40 {
		c.Sample(func() interface{} { return wit{mon.Hex(s), mon.Hex(got), mon.Hex(want), class} })
	}
}

var coldDone bool

// asReceived applies the validity condition the way a receiver does: the section is the 3 header bytes plus the
// section_length bytes they announce, and the checksum over exactly those is zero. (Sections that no 12-bit
// section_length can describe - alignment stuffing beyond 4093 bytes - are left to the whole-slice check.)
func asReceived(sec []byte) string {
	if len(sec) < 7 || len(sec) > 4096 {
		return ""
	}
	l := 3 + (int(sec[1]&0x0f)<<8 | int(sec[2]))
	if l > len(sec) || l < 7 {
		return fmt.Sprintf("section_length announces %d bytes after the header, %d were emitted", l-3, len(sec)-3)
	}
	if ref.CRC32MPEG2(sec[:l]) != 0 {
		return fmt.Sprintf("section_length announces %d bytes after the header (%d were emitted) and the CRC-32/MPEG-2 over the section so delimited is not zero", l-3, len(sec)-3)
	}
	return ""
}

func run(c *mon.Ctx) {
	if !ref.CRCSelfTest() {
		panic("reference CRC self-test failed")
	}
	c.Rule("inputs: all strings of length 0..2; every single-bit string up to the tier's length; PRNG strings up to 1024 bytes; sections emitted by the library. distinct non-trivial = distinct (generator, length, bit-position / content class) with a non-empty input")
	c.Assume("reference: bitwise CRC-32/MPEG-2 (poly 0x04C11DB7, init 0xFFFFFFFF, no reflection, no xorout), self-tested against CRC(\"123456789\") = 0x0376E6E7 at start-up")

	// ---- the very first checksums of a fresh process are asked for by eight goroutines at once (whatever the
	// function builds on first use is built under contention); every worker process does this once, first
	c.StreamSeedless("cold-start-concurrent", 16, func(k int, r *gen.Rand) {
		if coldDone {
			c.Class("cold-start/later-in-the-process")
			return
		}
		coldDone = true
		c.Count("cold_start.first_calls_in_process")
		c.ConcurrentReaders("first checksums of the process", 1, r, func(q *gen.Rand) func() string {
			ins := make([][]byte, 16)
			for j := range ins {
				ins[j] = q.Bytes(q.PickInt([]int{4, 16, 188, 300, 600, 1024, 1 + q.Intn(60)}))
			}
			var next int32
			return func() string {
				in := ins[int(atomic.AddInt32(&next, 1))%len(ins)]
				if got, want := gots.ComputeCRC(in), ref.BE32(ref.CRC32MPEG2(in)); !bytes.Equal(got, want) {
					return fmt.Sprintf("ComputeCRC of a %d-byte string returned %x, CRC-32/MPEG-2 is %x", len(in), got, want)
				}
				return ""
			}
		})
	})
	c.Floor("cold_start.first_calls_in_process", 5)
	c.Exhaustive("all byte strings of length 0..2", 1+256+65536)
	c.StreamSeedless("len0-2", 257, func(i int, r *gen.Rand) {
		if i == 256 {
			check(c, []byte{}, "")
			check(c, nil, "")
			for b := 0; b < 256; b++ {
				check(c, []byte{byte(b)}, fmt.Sprintf("len1/%02x", b))
			}
			return
		}
		for b := 0; b < 256; b++ {
			check(c, []byte{byte(i), byte(b)}, "")
		}
		c.Class(fmt.Sprintf("len2/first=%02x", i))
	})

	maxLen := c.N(64, 1024)
	c.Exhaustive(fmt.Sprintf("all single-bit strings of length 1..%d", maxLen), int64(maxLen*(maxLen+1)/2*8))
	c.StreamSeedless("single-bit", maxLen, func(i int, r *gen.Rand) {
		n := i + 1
		s := make([]byte, n)
		for bit := 0; bit < n*8; bit++ {
			s[bit>>3] = 1 << uint(7-bit&7)
			cls := ""
			if bit%8 == 0 {
				cls = fmt.Sprintf("1bit/len=%d/byte=%d", n, bit>>3)
			}
			check(c, s, cls)
			s[bit>>3] = 0
		}
		// all-zero and all-ones strings of this length
		check(c, s, fmt.Sprintf("zeros/len=%d", n))
		for k := range s {
			s[k] = 0xff
		}
		check(c, s, fmt.Sprintf("ones/len=%d", n))
	})

	c.Stream("random", c.N(20000, 6000000), func(i int, r *gen.Rand) {
		n := r.Intn(1025)
		if r.Chance(4) {
			n = r.PickInt([]int{3, 4, 5, 7, 8, 9, 15, 16, 17, 183, 184, 185, 187, 188, 1021, 1023, 1024})
		}
		s := r.Bytes(n)
		check(c, s, fmt.Sprintf("rand/len=%d/first=%x", n, headNibble(s)))
	})

	// sections the library emits
	// the checksum is a function of its argument whoever else is computing one at the same time: several
	// goroutines, each with its own strings, each result compared with the reference
	c.Floor("concurrent.calls", 20000)
	c.Stream("concurrent-callers", c.N(8, 200), func(i int, r *gen.Rand) {
		const G, N = 8, 1500
		prev := runtime.GOMAXPROCS(4)
		defer runtime.GOMAXPROCS(prev)
		seeds := make([]uint64, G)
		for g := range seeds {
			seeds[g] = r.Uint64()
		}
		type miss struct {
			in, got, want []byte
		}
		var mu sync.Mutex
		var misses []miss
		var wg sync.WaitGroup
		for g := 0; g < G; g++ {
			wg.Add(1)
			go func(q *gen.Rand) {
				defer wg.Done()
				for k := 0; k < N; k++ {
					in := q.Bytes(q.PickInt([]int{0, 1, 4, 16, 100, 183, 184, 1024, q.Intn(300)}))
					got := gots.ComputeCRC(in)
					want := ref.BE32(ref.CRC32MPEG2(in))
					if !bytes.Equal(got, want) {
						mu.Lock()
						if len(misses) < 3 {
							misses = append(misses, miss{in, append([]byte{}, got...), want})
						}
						mu.Unlock()
					}
				}
			}(gen.New(seeds[g], uint64(g)))
		}
		wg.Wait()
		c.Eval(G * N)
		c.CountN("concurrent.calls", G*N)
		for _, m := range misses {
			c.Fail("crc:value-with-concurrent-callers", fmt.Sprintf("with %d goroutines computing checksums of their own strings at the same time, ComputeCRC of a %d-byte string returned %x, CRC-32/MPEG-2 is %x", G, len(m.in), m.got, m.want), wit{mon.Hex(m.in), mon.Hex(m.got), mon.Hex(m.want), "the interleaving is not reproducible; the sequential streams hold for the same inputs"})
			break
		}
		c.Class("concurrent-callers")
	})
	c.Floor("emitted_scte35.encoded_again_with_another_length", 300)
	c.Stream("emitted-scte35", c.N(2000, 1000000), func(i int, r *gen.Rand) {
		s := scte35.CreateSCTE35()
		s.SetTier(uint16(r.Intn(4096)))
		switch r.Intn(3) {
		case 0:
			ts := scte35.CreateTimeSignalCommand()
			ts.SetHasPTS(true)
			ts.SetPTS(gots.PTS(r.U33()))
			s.SetCommandInfo(ts)
		case 1:
			si := scte35.CreateSpliceInsertCommand()
			si.SetEventID(r.Uint32())
			si.SetHasPTS(true)
			si.SetPTS(gots.PTS(r.U33()))
			si.SetHasDuration(r.Bool())
			si.SetDuration(gots.PTS(r.U33()))
			s.SetCommandInfo(si)
		}
		var ds []scte35.SegmentationDescriptor
		nd := r.Intn(4)
		big := r.Chance(12)
		if big {
			nd = 5 + r.Intn(8) // with long UPIDs: a section above 1023 bytes (12-bit section_length)
		}
		for k := nd; k > 0; k-- {
			d := scte35.CreateSegmentationDescriptor()
			d.SetEventID(r.Uint32())
			d.SetTypeID(scte35.SegDescType(r.PickByte([]byte{0x10, 0x11, 0x30, 0x34, 0x35, 0x36, 0x40})))
			d.SetHasDuration(r.Bool())
			d.SetDuration(gots.PTS(r.Uint64() & (1<<40 - 1)))
			d.SetUPIDType(scte35.SegUPIDType(r.PickByte([]byte{0, 1, 9, 0x0c})))
			if d.UPIDType() != 0 {
				d.SetUPID(r.Bytes(r.Intn(30)))
			}
			if big {
				d.SetUPIDType(0x0c)
				d.SetUPID(r.Bytes(180 + r.Intn(60)))
			}
			ds = append(ds, d)
		}
		s.SetDescriptors(ds)
		stuff := 0
		if r.Chance(3) {
			stuff = 1 + r.Intn(8)
			if r.Chance(8) {
				// (whatever the encoder makes of stuffing that does not fit a section any more, the bytes it hands
				// out end with their own checksum)
				stuff = r.PickInt([]int{3000, 4000, 4050, 4080, 4093, 4100, 5000})
				c.Count("emitted_scte35.alignment_stuffing_of_thousands_of_bytes")
			}
			s.SetAlignmentStuffing(uint(stuff))
		}
		sec := s.UpdateData()
		c.Eval(1)
		if len(sec) < 4 || ref.CRC32MPEG2(sec) != 0 {
			c.Fail("crc:emitted-scte35", "the CRC-32/MPEG-2 of a section emitted by UpdateData is not zero", wit{Input: mon.Hex(sec)})
		} else if why := asReceived(sec); why != "" {
			c.Fail("crc:emitted-scte35-as-a-receiver-delimits-it", "a section emitted by UpdateData fails the receiver's check: "+why, wit{Input: mon.Hex(sec)})
		}
		// the sections emitted for earlier messages are still valid sections after this message was encoded
		for _, e := range emitted {
			if len(e[0]) < 4 || ref.CRC32MPEG2(e[0]) != 0 || !bytes.Equal(e[0], e[1]) {
				c.Fail("crc:earlier-emitted-section-changed", "the slice UpdateData returned for an earlier message no longer holds that section (its CRC-32/MPEG-2 is no longer zero) after another message was encoded", wit{Input: mon.Hex(e[0]), Want: mon.Hex(e[1])})
				emitted = nil
				break
			}
		}
		if len(emitted) >= 4 {
			emitted = emitted[1:]
		}
		// (what is kept is the last slice this object hands out: an object may re-use its own buffer when it is encoded again)
		lastSec := sec
		// (only what section_length can describe: of a slice longer than 3+4095 bytes - stuffing beyond any section -
		// nothing is demanded once setters were called on the message after it was encoded)
		defer func() {
			if len(lastSec) <= 3+4095 {
				emitted = append(emitted, [2][]byte{lastSec, append([]byte{}, lastSec...)})
			}
		}()
		c.Class(fmt.Sprintf("emitted-scte35/cmd=%d/descs=%d/stuffing=%v/over1023=%v", s.Command(), len(ds), stuff > 0, len(sec) > 1026))
		// encode again after a change made through a command / descriptor handle that keeps every length
		first := append([]byte{}, sec...)
		edits := ""
		if len(ds) > 0 && r.Bool() {
			d := ds[r.Intn(len(ds))]
			switch r.Intn(3) {
			case 0:
				d.SetEventID(d.EventID() ^ (1 << uint(r.Intn(32))))
				edits += "descriptor.SetEventID,"
			case 1:
				d.SetSegmentNumber(d.SegmentNumber() + 1)
				edits += "descriptor.SetSegmentNumber,"
			default:
				if u := d.UPID(); len(u) > 0 && d.UPIDType() != 0 {
					v := append([]byte{}, u...)
					v[r.Intn(len(v))] ^= 0x5a
					d.SetUPID(v)
					edits += "descriptor.SetUPID(same length),"
				}
			}
		}
		if edits == "" || r.Bool() {
			switch cmd := s.CommandInfo().(type) {
			case scte35.SpliceInsertCommand:
				cmd.SetEventID(cmd.EventID() + 1)
				edits += "splice_insert.SetEventID,"
			case scte35.TimeSignalCommand:
				if s.Command() == scte35.TimeSignal {
					cmd.SetPTS(cmd.PTS() ^ 0x10)
					edits += "time_signal.SetPTS,"
				}
			}
		}
		// setters called after an encoding, and no further encoding: whatever Data() and the slice handed out
		// hold now, it is a section with a zero checksum (it may be the old one or a re-timed one)
		if r.Chance(3) {
			s.SetAdjustPTS(gots.PTS(r.U33()))
			if r.Bool() {
				s.SetTier(uint16(r.Intn(4096)))
			}
			c.Count("emitted_scte35.setters_after_encoding")
			for name, b := range map[string][]byte{"Data()": s.Data(), "the slice UpdateData() returned": lastSec} {
				if len(b) > 3+4095 {
					// not a section any more (section_length cannot describe it): what in-place maintenance makes of it
					// is not constrained
					continue
				}
				if len(b) < 4 || ref.CRC32MPEG2(b) != 0 {
					c.Fail("crc:emitted-scte35-after-later-setters", "after SetAdjustPTS / SetTier on an already encoded message, "+name+" holds a section whose CRC-32/MPEG-2 is not zero", wit{Input: mon.Hex(b)})
					break
				}
			}
			first = append([]byte{}, s.Data()...)
		}
		if edits != "" {
			sec2 := s.UpdateData()
			lastSec = sec2
			c.Eval(1)
			c.Count("emitted_scte35.second_encoding_after_handle_edit")
			if len(sec2) < 4 || ref.CRC32MPEG2(sec2) != 0 {
				c.Fail("crc:emitted-scte35-second-encoding", "the CRC-32/MPEG-2 of the section emitted by a second UpdateData, after a length-preserving change through "+edits+" is not zero", wit{Input: mon.Hex(sec2)})
			} else if why := asReceived(sec2); why != "" {
				c.Fail("crc:emitted-scte35-second-encoding-as-a-receiver-delimits-it", "the section emitted by a second UpdateData (after "+edits+") fails the receiver's check: "+why, wit{Input: mon.Hex(sec2)})
			} else if bytes.Equal(sec2, first) {
				c.Fail("crc:emitted-scte35-second-encoding-unchanged", "a change made through "+edits+" left the next encoding unchanged", wit{Input: mon.Hex(sec2)})
			}
		}
		// ... and once more after a change that makes the section longer or shorter
		if r.Bool() && len(lastSec) < 3900 {
			how := ""
			switch k := r.Intn(3); {
			case k == 0 && len(ds) > 0:
				d := ds[r.Intn(len(ds))]
				d.SetHasDuration(!d.HasDuration())
				how = "descriptor.SetHasDuration(toggled)"
			case k == 1 && len(ds) > 0:
				d := ds[r.Intn(len(ds))]
				d.SetUPIDType(scte35.SegUPIDURN)
				d.SetUPID(r.Bytes(1 + r.Intn(40)))
				how = "descriptor.SetUPID(another length)"
			default:
				ns := r.Intn(9)
				if ns == stuff {
					ns++
				}
				s.SetAlignmentStuffing(uint(ns))
				how = "SetAlignmentStuffing(another length)"
			}
			before := len(lastSec)
			held := lastSec // (the slice itself, as a caller that has not sent it yet holds it)
			sec3 := s.UpdateData()
			lastSec = sec3
			// what the object handed out before is still a section a receiver accepts - the one it was, or (an
			// object may encode into its own storage again) another complete one - not the torn rest of either
			if len(held) >= 4 && (ref.CRC32MPEG2(held) != 0 || asReceived(held) != "") {
				c.Fail("crc:section-handed-out-before-torn-by-the-next-encoding", "the slice an earlier UpdateData returned no longer holds a valid section after the same message was encoded again with another length (after "+how+"): "+asReceived(held), wit{Input: mon.Hex(held)})
			}
			c.Eval(1)
			if len(sec3) != before {
				c.Count("emitted_scte35.encoded_again_with_another_length")
			}
			if len(sec3) < 4 || ref.CRC32MPEG2(sec3) != 0 {
				c.Fail("crc:emitted-scte35-encoded-again-with-another-length", "the CRC-32/MPEG-2 of the section emitted by a further UpdateData, after "+how+", is not zero", wit{Input: mon.Hex(sec3)})
			} else if why := asReceived(sec3); why != "" {
				c.Fail("crc:emitted-scte35-encoded-again-with-another-length-as-a-receiver-delimits-it", "the section emitted by a further UpdateData (after "+how+") fails the receiver's check: "+why, wit{Input: mon.Hex(sec3)})
			}
		}
	})
	// one byte string checksummed by several goroutines at once (the function only reads its argument)
	c.Stream("concurrent-readers-of-one-string", c.N(8, 200), func(i int, r *gen.Rand) {
		c.ConcurrentReaders("byte string under ComputeCRC", c.N(300, 300), r, func(q *gen.Rand) func() string {
			in := q.Bytes(q.PickInt([]int{4, 5, 16, 188, 1024, 1 + q.Intn(300)}))
			snap := append([]byte{}, in...)
			want := ref.BE32(ref.CRC32MPEG2(snap))
			return func() string {
				got := gots.ComputeCRC(in)
				if !bytes.Equal(got, want) {
					return fmt.Sprintf("ComputeCRC of a shared %d-byte string returned %x, CRC-32/MPEG-2 is %x", len(in), got, want)
				}
				if !bytes.Equal(in, snap) {
					return "the string was seen modified while checksums of it were being computed"
				}
				return ""
			}
		})
		c.Class("concurrent-readers-of-one-string")
	})
	// the emitters from several goroutines at once, each with a PMT / a message of its own: every emitted section
	// has a zero checksum
	c.Stream("concurrent-emitters", c.N(8, 200), func(i int, r *gen.Rand) {
		c.Concurrent("sections emitted by FilterPMTPacketsToPids / UpdateData", 8, 1500, r, func(q *gen.Rand) string {
			p := ref.GenPMT(q, 2+q.Intn(10))
			pay := append(ref.PointerPrefix(q.PickInt([]int{0, 0, 1, 7})), p.Section()...)
			const pmtPID = 0x31
			pk, _ := ref.Packetise(pmtPID, q.Intn(16), pay, ref.RandChunks(q, 1+len(pay)/90), q.Bool())
			var in []*packet.Packet
			for k := range pk {
				x := packet.Packet(pk[k])
				in = append(in, &x)
			}
			seen := map[int]bool{}
			var keep []int
			for _, st := range p.Streams {
				if !seen[st.PID] && st.PID != pmtPID && q.Intn(2) == 0 {
					keep = append(keep, st.PID)
				}
				seen[st.PID] = true
			}
			if len(keep) > 0 && !seen[pmtPID] {
				out, err := psi.FilterPMTPacketsToPids(in, keep)
				if err != nil || len(out) == 0 {
					return fmt.Sprintf("filtering a %d-packet PMT to PIDs it lists failed: %v", len(in), err)
				}
				var got []byte
				for _, o := range out {
					off := 4
					if o[3]&0x20 != 0 {
						off += 1 + int(o[4])
					}
					if off < 188 {
						got = append(got, o[off:]...)
					}
				}
				if len(got) < 4 || 1+int(got[0])+3 > len(got) {
					return "the filtered packets do not hold a section header"
				}
				g := got[1+int(got[0]):]
				if l := 3 + (int(g[1]&0x0f)<<8 | int(g[2])); l > len(g) || ref.CRC32MPEG2(g[:l]) != 0 {
					return fmt.Sprintf("the section emitted by FilterPMTPacketsToPids (%d bytes announced, %d emitted) does not have a zero CRC-32/MPEG-2", l, len(g))
				}
			}
			s := scte35.CreateSCTE35()
			ts := scte35.CreateTimeSignalCommand()
			ts.SetHasPTS(true)
			ts.SetPTS(gots.PTS(q.U33()))
			s.SetCommandInfo(ts)
			d := scte35.CreateSegmentationDescriptor()
			d.SetEventID(q.Uint32())
			d.SetTypeID(0x34)
			d.SetUPIDType(0x0c)
			d.SetUPID(q.Bytes(q.Intn(40)))
			s.SetDescriptors([]scte35.SegmentationDescriptor{d})
			if sec := s.UpdateData(); len(sec) < 4 || ref.CRC32MPEG2(sec) != 0 {
				return "the section emitted by UpdateData does not have a zero CRC-32/MPEG-2"
			}
			return ""
		})
		c.Class("concurrent-emitters")
	})
	c.Floor("emitted_scte35.second_encoding_after_handle_edit", 500)
	c.Floor("emitted_pmt.multi_packet", 500)
	c.Floor("emitted_pmt.near_maximal_section", 50)
	c.Floor("emitted_pmt.input_with_reserved_bits_cleared", 500)
	c.Stream("emitted-pmt-multi-packet", c.N(2000, 400000), func(i int, r *gen.Rand) {
		// reference-built PMTs of up to 1021 bytes, split over several packets, filtered to a subset
		p := ref.GenPMT(r, 1+r.Intn(50))
		nearMax := i%10 == 7 && len(p.Section()) < 1024-47
		if nearMax {
			// a section at the 1021-byte limit behind a pointer_field, and nearly all of it is kept
			for len(p.Section()) < 1024-47 {
				p.Streams = append(p.Streams, ref.ES{Type: 0x1b, PID: 0x1000 + len(p.Streams), Descs: []ref.Desc{{Tag: 0x81, Body: r.Bytes(30)}}})
			}
			p.Streams = append(p.Streams, ref.ES{Type: 0x1b, PID: 0x1000 + len(p.Streams), Descs: []ref.Desc{{Tag: 0x81}}})
			if room := 1024 - len(p.Section()); room > 0 {
				last := &p.Streams[len(p.Streams)-1]
				last.Descs[0].Body = r.Bytes(room)
			}
			if len(p.Section()) == 1024 {
				c.Count("emitted_pmt.near_maximal_section")
			}
		}
		sec := p.Section()
		if r.Chance(3) && ref.ClearReservedPMT(sec, r) > 0 {
			c.Count("emitted_pmt.input_with_reserved_bits_cleared")
		}
		ptr := r.PickInt([]int{0, 0, 1, 3, 40, r.Intn(150)})
		if nearMax {
			ptr = r.PickInt([]int{1, 2, 30, 100, 182, 0})
		}
		pay := append(ref.PointerPrefix(ptr), sec...)
		const pmtPID = 0x30
		pk, _ := ref.Packetise(pmtPID, r.Intn(16), pay, ref.RandChunks(r, 1+len(pay)/60), r.Bool())
		var in []*packet.Packet
		for k := range pk {
			q := packet.Packet(pk[k])
			in = append(in, &q)
		}
		seen := map[int]bool{}
		var keep []int
		dropped := false
		for _, st := range p.Streams {
			switch {
			case seen[st.PID] || st.PID == pmtPID:
			case nearMax && (dropped || !r.Chance(8)):
				keep = append(keep, st.PID) // all but (at most) one stream
			case nearMax:
				dropped = true
			case r.Intn(3) == 0:
				keep = append(keep, st.PID)
			}
			seen[st.PID] = true
		}
		if len(keep) == 0 || seen[pmtPID] {
			return
		}
		out, err := psi.FilterPMTPacketsToPids(in, keep)
		c.Eval(1)
		if err != nil || len(out) == 0 {
			c.Fail("crc:emitted-pmt-multi-setup", fmt.Sprintf("filtering a %d-packet PMT to present PIDs failed: %v (%d packets)", len(in), err, len(out)), wit{Input: mon.Hex(pay)})
			return
		}
		var got []byte
		for _, o := range out {
			off := 4
			if o[3]&0x20 != 0 {
				off += 1 + int(o[4])
			}
			if o[3]&0x10 != 0 && off < 188 {
				got = append(got, o[off:]...)
			}
		}
		c.Count("emitted_pmt.multi_packet")
		if len(got) < 4 || 1+int(got[0])+3 > len(got) {
			c.Fail("crc:emitted-pmt-multi", "the filtered packets do not hold a section header", wit{Input: mon.Hex(pay)})
			return
		}
		g := got[1+int(got[0]):]
		l := 3 + (int(g[1]&0x0f)<<8 | int(g[2]))
		if l > len(g) || ref.CRC32MPEG2(g[:l]) != 0 {
			c.Fail("crc:emitted-pmt-multi", fmt.Sprintf("the section emitted by FilterPMTPacketsToPids (input section_length %d, emitted header announces %d, %d payload bytes emitted) does not have a zero CRC-32/MPEG-2 over the bytes its section_length delimits", len(sec)-3, l-3, len(g)), wit{Input: mon.Hex(pay)})
		}
		c.Class(fmt.Sprintf("emitted-pmt-multi/in=%d/out=%d", (len(sec)-3)/128, (l-3)/128))
	})
	c.Stream("emitted-pmt", c.N(2000, 1000000), func(i int, r *gen.Rand) {
		// a small reference-built PMT in one packet, filtered to a subset of its streams
		n := 1 + r.Intn(8)
		body := []byte{byte(r.Intn(256)), byte(r.Intn(256)), 0xc1 | byte(r.Intn(32))<<1, 0, 0, 0xe1, 0x00, 0xf0, 0x00}
		var pids []int
		for k := 0; k < n; k++ {
			pid := 0x100 + k*3 + r.Intn(3)
			pids = append(pids, pid)
			dl := r.Intn(6)
			body = append(body, r.PickByte([]byte{0x02, 0x1b, 0x0f, 0x81, 0x86}), 0xe0|byte(pid>>8), byte(pid), 0xf0, byte(dl))
			if dl >= 2 {
				body = append(body, 0x52, byte(dl-2))
				body = append(body, r.Bytes(dl-2)...)
			} else if dl == 1 {
				body[len(body)-1] = 0
			}
		}
		sl := len(body) + 4
		sec := append([]byte{0x02, 0xb0 | byte(sl>>8), byte(sl)}, body...)
		sec = append(sec, ref.BE32(ref.CRC32MPEG2(sec))...)
		if r.Chance(3) && ref.ClearReservedPMT(sec, r) > 0 {
			c.Count("emitted_pmt.input_with_reserved_bits_cleared")
		}
		badIn := r.Chance(4)
		if badIn {
			sec[len(sec)-1-r.Intn(4)] ^= byte(1 + r.Intn(255)) // the input's own CRC_32 is wrong: the emitted section must still carry a right one
		}
		var pk packet.Packet
		pk[0], pk[1], pk[2], pk[3] = 0x47, 0x40|0x01, 0x00, 0x10
		for k := 4; k < 188; k++ {
			pk[k] = 0xff
		}
		pk[4] = 0
		copy(pk[5:], sec)
		keep := pids[:1+r.Intn(n)]
		if r.Chance(3) {
			keep = pids // nothing is filtered out
		}
		partly := false
		realOne := false
		for _, pid := range keep {
			realOne = realOne || pid != 0x100 // (0x100 carries the PMT itself here: the function does not count it as a request)
		}
		if !badIn && realOne && r.Chance(4) {
			// some of the requested PIDs are not in the table: the function hands out the filtered PMT *and* an error
			// that names them - the section it hands out is a section like any other
			absent := 0x1ffe
			for k := 0; k < len(pids); k++ {
				if pids[k] == absent {
					absent, k = absent-1, -1
				}
			}
			keep = append(append([]int{}, keep...), absent)
			partly = true
			c.Count("emitted_pmt.request_with_a_pid_that_is_not_in_the_table")
		}
		out, err := psi.FilterPMTPacketsToPids([]*packet.Packet{&pk}, keep)
		c.Eval(1)
		if partly && len(out) == 1 {
			err = nil // (the error is C14's business; the packets are looked at below)
		}
		if badIn && err != nil && len(out) == 0 {
			// an input section whose own CRC_32 is wrong is not well-formed: refusing it emits nothing
			c.Count("emitted_pmt.input_with_wrong_crc_refused")
			return
		}
		if err != nil || len(out) != 1 {
			c.Fail("crc:emitted-pmt-setup", fmt.Sprintf("filtering a one-packet PMT to present PIDs failed: %v (%d packets)", err, len(out)), wit{Input: mon.Hex(pk[:])})
			return
		}
		pay := out[0][5:]
		l := 3 + (int(pay[1]&0x0f)<<8 | int(pay[2]))
		if l > len(pay) || ref.CRC32MPEG2(pay[:l]) != 0 {
			c.Fail("crc:emitted-pmt", "the CRC-32/MPEG-2 of the section emitted by FilterPMTPacketsToPids is not zero", wit{Input: mon.Hex(out[0][:])})
		}
		c.Class(fmt.Sprintf("emitted-pmt/streams=%d/kept=%d/input-crc-wrong=%v", n, len(keep), badIn))
	})
}

func headNibble(s []byte) int {
	if len(s) == 0 {
		return -1
	}
	return int(s[0] >> 4)
}
