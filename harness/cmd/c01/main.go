// C01 — transport packet header fields: getters exact, setters change only
// their field; function/method accessors agree; CC helpers; Equal;
// CheckErrors / FromBytes.
package main

import (
	"bytes"
	"fmt"

	"github.com/Comcast/gots/v2/packet"

	"verif/harness/internal/gen"
	"verif/harness/internal/mon"
	"verif/harness/internal/ref"
)

func main() { mon.Main("C01", run) }

// bodies returns K packet bodies (bytes 4..187 and the header bytes the case
// does not enumerate): zeros, ones, null-packet-like, and random.
func body(k int, r *gen.Rand) packet.Packet {
	var p packet.Packet
	switch k {
	case 0:
	case 1:
		for i := range p {
			p[i] = 0xff
		}
	case 2:
		p = *packet.New()
	default:
		r.Fill(p[:])
		// bodies with structure a setter might be tempted to "keep consistent": a PES packet start (with
		// PES_scrambling_control / priority bits set) directly behind the header or behind a short adaptation
		// field, a section start, a full adaptation field
		switch r.Intn(6) {
		case 0:
			copy(p[4:], []byte{0x00, 0x00, 0x01, 0xe0, 0x00, 0x00, 0x80 | byte(r.Intn(64)), 0xc0, 0x0a})
		case 1:
			copy(p[4:], []byte{0x02, 0x10, 0xff, 0x00, 0x00, 0x01, 0xbd, 0x00, 0x00, 0xb0 | byte(r.Intn(16)), 0x80, 0x05})
		case 2:
			copy(p[4:], []byte{0x00, 0x02, 0xb0, 0x12})
		}
	}
	return p
}

type wit struct {
	Op     string `json:"op"`
	Before string `json:"packet_before"`
	After  string `json:"packet_after,omitempty"`
	Want   string `json:"packet_expected,omitempty"`
	Arg    string `json:"arg,omitempty"`
	Got    string `json:"got,omitempty"`
	Expect string `json:"expected,omitempty"`
}

// checkGetters compares every read accessor, in both styles, with the bit table.
func checkGetters(c *mon.Ctx, p *packet.Packet) {
	raw := p[:]
	snap := *p
	bad := func(name string, got, want interface{}) {
		c.Fail("getter:"+name, fmt.Sprintf("%s returned %v, bit table says %v", name, got, want),
			wit{Op: name, Before: mon.Hex(snap[:8]) + "...", Got: fmt.Sprint(got), Expect: fmt.Sprint(want)})
	}
	tei := ref.HTEI.Get(raw) == 1
	pusi := ref.HPUSI.Get(raw) == 1
	tp := ref.HTP.Get(raw) == 1
	pid := int(ref.HPID.Get(raw))
	tsc := ref.HTSC.Get(raw)
	afc := ref.HAFC.Get(raw)
	cc := int(ref.HCC.Get(raw))
	if g := p.TransportErrorIndicator(); g != tei {
		bad("(*Packet).TransportErrorIndicator", g, tei)
	}
	if g := p.PayloadUnitStartIndicator(); g != pusi {
		bad("(*Packet).PayloadUnitStartIndicator", g, pusi)
	}
	if g := packet.PayloadUnitStartIndicator(p); g != pusi {
		bad("packet.PayloadUnitStartIndicator", g, pusi)
	}
	if g := p.TransportPriority(); g != tp {
		bad("(*Packet).TransportPriority", g, tp)
	}
	if g := p.PID(); g != pid {
		bad("(*Packet).PID", g, pid)
	}
	if g := packet.Pid(p); g != pid {
		bad("packet.Pid", g, pid)
	}
	if g := p.TransportScramblingControl(); uint64(g) != tsc {
		bad("(*Packet).TransportScramblingControl", g, tsc)
	}
	if g := p.AdaptationFieldControl(); uint64(g) != afc {
		bad("(*Packet).AdaptationFieldControl", g, afc)
	}
	if g := p.HasPayload(); g != (afc&1 == 1) {
		bad("(*Packet).HasPayload", g, afc&1 == 1)
	}
	if g := packet.ContainsPayload(p); g != (afc&1 == 1) {
		bad("packet.ContainsPayload", g, afc&1 == 1)
	}
	if g := p.HasAdaptationField(); g != (afc&2 == 2) {
		bad("(*Packet).HasAdaptationField", g, afc&2 == 2)
	}
	if g := packet.ContainsAdaptationField(p); g != (afc&2 == 2) {
		bad("packet.ContainsAdaptationField", g, afc&2 == 2)
	}
	if g := p.ContinuityCounter(); g != cc {
		bad("(*Packet).ContinuityCounter", g, cc)
	}
	if g := packet.ContinuityCounter(p); int(g) != cc {
		bad("packet.ContinuityCounter", g, cc)
	}
	if g := p.IsNull(); g != (pid == 0x1fff) {
		bad("(*Packet).IsNull", g, pid == 0x1fff)
	}
	if g := packet.IsNull(p); g != (pid == 0x1fff) {
		bad("packet.IsNull", g, pid == 0x1fff)
	}
	if g := p.IsPAT(); g != (pid == 0) {
		bad("(*Packet).IsPAT", g, pid == 0)
	}
	if g := packet.IsPat(p); g != (pid == 0) {
		bad("packet.IsPat", g, pid == 0)
	}
	wantErr := raw[0] != 0x47 || tsc == 1 || afc == 0
	if err := p.CheckErrors(); (err != nil) != wantErr {
		bad("(*Packet).CheckErrors", err, fmt.Sprintf("error=%v", wantErr))
	}
	if *p != snap {
		c.Fail("getter:mutates", "a read accessor modified the packet", wit{Op: "getters", Before: mon.Hex(snap[:]), After: mon.Hex(p[:])})
		*p = snap
	}
}

// setter applies one setter and checks the full 188 bytes against the bit table.
func setter(c *mon.Ctx, name string, f ref.HField, p *packet.Packet, v uint64, call func(q *packet.Packet)) {
	before := *p
	want := before
	f.Set(want[:], v)
	call(p)
	c.Eval(1)
	if *p != want {
		d := ref.FirstDiff(p[:], want[:])
		c.Fail("setter:"+name, fmt.Sprintf("%s(%d): packet differs from bit-table expectation at byte %d (got %#02x want %#02x)", name, v, d, p[d], want[d]),
			wit{Op: name, Arg: fmt.Sprint(v), Before: mon.Hex(before[:]), After: mon.Hex(p[:]), Want: mon.Hex(want[:])})
	}
	if before != want {
		if c.WantSample() && v != 0 && before[10] != 0 {
			c.Sample(func() interface{} {
				return wit{Op: name, Arg: fmt.Sprint(v), Before: mon.Hex(before[:]), After: mon.Hex(p[:]), Want: mon.Hex(want[:])}
			})
		}
		if f.Width > 8 {
			c.Class(fmt.Sprintf("%s/prior-hi3=%x/prior-pid-bucket=%d/new-pid-bucket=%d/lowbyte-ff=%v", f.Name, before[1]>>5, int(f.Get(before[:]))>>9, v>>9, v&0xff == 0xff))
		} else {
			c.Class(fmt.Sprintf("%s/prior=%02x/v=%d", f.Name, before[f.Off>>3], v))
		}
	}
	checkGetters(c, p)
}

func run(c *mon.Ctx) {
	c.Rule("header cases = (field, prior value of the affected header byte(s), new value) embedded in zero / all-ones / null-packet / random bodies; a class is non-trivial when the write changes at least one bit; distinct = distinct (field, prior header byte(s), value) triples plus distinct helper/validation classes")
	c.Assume("the reference is the ISO/IEC 13818-1 table 2-2 bit layout transcribed in internal/ref/bits.go, evaluated by a generic MSB-first bit reader/writer")
	K := c.N(5, 20)

	// ---- flags: 3 fields x 256 prior byte values x 2 values x K bodies (exhaustive in the header byte)
	c.Exhaustive("flag setters: field(3) x prior byte1 (256) x value (2)", 3*256*2)
	c.StreamSeedless("flags", 256, func(b1 int, r *gen.Rand) {
		for k := 0; k < K; k++ {
			for fi, f := range []ref.HField{ref.HTEI, ref.HPUSI, ref.HTP} {
				for v := 0; v < 2; v++ {
					p := body(k, r)
					p[1] = byte(b1)
					val := v == 1
					switch fi {
					case 0:
						setter(c, "SetTransportErrorIndicator", f, &p, uint64(v), func(q *packet.Packet) { q.SetTransportErrorIndicator(val) })
					case 1:
						setter(c, "SetPayloadUnitStartIndicator", f, &p, uint64(v), func(q *packet.Packet) { q.SetPayloadUnitStartIndicator(val) })
					case 2:
						setter(c, "SetTransportPriority", f, &p, uint64(v), func(q *packet.Packet) { q.SetTransportPriority(val) })
					}
				}
			}
		}
		// PIDs with a meaning of their own (PAT, CAT, TSDT, 0x10 ... 0x12, the null PID and its neighbour) under
		// every adaptation_field_control, with a body that has no zero byte and a short, long or zero-length
		// adaptation field: a flag setter changes its flag there as anywhere else
		for _, lo := range []byte{0x00, 0x01, 0x02, 0x10, 0x11, 0x12, 0xfe, 0xff} {
			for afc := 0; afc < 4; afc++ {
				for fi, f := range []ref.HField{ref.HTEI, ref.HPUSI, ref.HTP} {
					for v := 0; v < 2; v++ {
						var p packet.Packet
						r.Fill(p[:])
						for i := range p {
							p[i] |= 1 << uint(r.Intn(8))
						}
						p[0], p[1], p[2] = 0x47, byte(b1), lo
						p[3] = byte(r.Intn(4))<<6 | byte(afc)<<4 | byte(r.Intn(16))
						p[4] = []byte{0, 1, 7, 10, 182, 183, p[4]}[r.Intn(7)]
						val := v == 1
						switch fi {
						case 0:
							setter(c, "SetTransportErrorIndicator", f, &p, uint64(v), func(q *packet.Packet) { q.SetTransportErrorIndicator(val) })
						case 1:
							setter(c, "SetPayloadUnitStartIndicator", f, &p, uint64(v), func(q *packet.Packet) { q.SetPayloadUnitStartIndicator(val) })
						case 2:
							setter(c, "SetTransportPriority", f, &p, uint64(v), func(q *packet.Packet) { q.SetTransportPriority(val) })
						}
						c.Count("flags.on_pids_with_a_meaning_of_their_own")
					}
				}
			}
		}
	})

	// ---- byte 3: TSC (4 values), CC (16 values + out-of-range), CC helpers
	c.Exhaustive("byte-3 setters: prior byte3 (256) x {TSC 4, CC 16}", 256*20)
	c.StreamSeedless("byte3", 256, func(b3 int, r *gen.Rand) {
		for k := 0; k < K; k++ {
			for v := 0; v < 4; v++ {
				p := body(k, r)
				p[3] = byte(b3)
				setter(c, "SetTransportScramblingControl", ref.HTSC, &p, uint64(v), func(q *packet.Packet) {
					q.SetTransportScramblingControl(packet.TransportScramblingControlOptions(v))
				})
			}
			for v := 0; v < 16; v++ {
				p := body(k, r)
				p[3] = byte(b3)
				setter(c, "SetContinuityCounter", ref.HCC, &p, uint64(v), func(q *packet.Packet) { q.SetContinuityCounter(v) })
				// copy-returning helper with an in-range value
				p = body(k, r)
				p[3] = byte(b3)
				arg := p
				want := p
				ref.HCC.Set(want[:], uint64(v))
				got := packet.SetCC(&p, uint8(v))
				c.Eval(1)
				if got == nil || *got != want || got == &p {
					c.Fail("helper:SetCC", "packet.SetCC result is not a fresh copy with only the counter replaced", wit{Op: "SetCC", Arg: fmt.Sprint(v), Before: mon.Hex(arg[:])})
				}
				if p != arg {
					c.Fail("helper:SetCC-mutates-arg", "packet.SetCC modified its argument", wit{Op: "SetCC", Before: mon.Hex(arg[:]), After: mon.Hex(p[:])})
				}
			}
			// out-of-range counter values: only "no other bit changes" is required
			for _, v := range []int{16, 17, 31, 255, 256, 1 << 20, -1, -16, -17} {
				p := body(k, r)
				p[3] = byte(b3)
				before := p
				p.SetContinuityCounter(v)
				c.Eval(1)
				chk := p
				chk[3] = chk[3]&0x0f | before[3]&0xf0
				before[3] = chk[3]
				if chk != before || p[3]&0xf0 != before[3]&0xf0 {
					c.Fail("setter:SetContinuityCounter-out-of-range", "an out-of-range counter value changed bits outside the counter field", wit{Op: "SetContinuityCounter", Arg: fmt.Sprint(v), After: mon.Hex(p[:8])})
				}
			}
			// ZeroContinuityCounter / IncContinuityCounter (in place), IncrementCC / ZeroCC (copies)
			p := body(k, r)
			p[3] = byte(b3)
			cc := uint64(b3 & 0x0f)
			setter(c, "ZeroContinuityCounter", ref.HCC, &p, 0, func(q *packet.Packet) { q.ZeroContinuityCounter() })
			p = body(k, r)
			p[3] = byte(b3)
			// the in-place increment takes no value and is not one of the copy-returning helpers: the statement
			// fixes only the frame (no other bit changes); the counter either advances by one modulo 16 or, for a
			// packet without payload, may stay (ISO 13818-1 2.4.3.3). The first version demanded the advance.
			{
				before := p
				p.IncContinuityCounter()
				c.Eval(1)
				after := uint64(p[3] & 0x0f)
				rest := p
				rest[3] = rest[3]&0xf0 | before[3]&0x0f
				if rest != before || (after != (cc+1)&15 && !(after == cc && b3&0x10 == 0)) {
					c.Fail("setter:IncContinuityCounter", fmt.Sprintf("IncContinuityCounter on header byte %#02x: counter %d -> %d, or bits outside the counter changed", b3, cc, after), wit{Op: "IncContinuityCounter", Before: mon.Hex(before[:8]), After: mon.Hex(p[:8])})
				}
				if after == cc {
					c.Count("inc_in_place.left_alone_without_payload")
				}
			}
			p = body(k, r)
			p[3] = byte(b3)
			arg := p
			want := p
			ref.HCC.Set(want[:], (cc+1)&15)
			got := packet.IncrementCC(&p)
			c.Eval(1)
			if got == nil || *got != want || got == &p {
				c.Fail("helper:IncrementCC", fmt.Sprintf("packet.IncrementCC of counter %d did not yield a fresh copy with counter %d and all other bits kept", cc, (cc+1)&15), wit{Op: "IncrementCC", Before: mon.Hex(arg[:])})
			}
			if p != arg {
				c.Fail("helper:IncrementCC-mutates-arg", "packet.IncrementCC modified its argument", wit{Op: "IncrementCC", Before: mon.Hex(arg[:]), After: mon.Hex(p[:])})
			}
			c.Class(fmt.Sprintf("IncrementCC/cc=%d/hi=%x", cc, b3>>4))
			want = arg
			ref.HCC.Set(want[:], 0)
			got = packet.ZeroCC(&p)
			c.Eval(1)
			if got == nil || *got != want || got == &p {
				c.Fail("helper:ZeroCC", "packet.ZeroCC did not yield a fresh copy with counter 0 and all other bits kept", wit{Op: "ZeroCC", Before: mon.Hex(arg[:])})
			}
			if p != arg {
				c.Fail("helper:ZeroCC-mutates-arg", "packet.ZeroCC modified its argument", wit{Op: "ZeroCC", Before: mon.Hex(arg[:]), After: mon.Hex(p[:])})
			}
		}
	})

	// ---- PID: every prior (byte1, byte2) x boundary/random PIDs, and every PID x sampled priors
	pidVals := []int{0, 1, 2, 3, 4, 0xf, 0x10, 0x11, 0xff, 0x100, 0x101, 0x1ff, 0x200, 0x3ff, 0x400, 0x7ff, 0x800, 0xfff, 0x1000, 0x1001, 0x1ffe, 0x1fff, 0x1f00, 0x00ff, 0x0aaa, 0x1555}
	nRandPid := c.N(38, 230)
	if c.Thorough() {
		c.Exhaustive("SetPID: prior (byte1,byte2) 65536 x all 8192 PIDs", 65536*8192)
	} else {
		c.Exhaustive("SetPID: prior (byte1,byte2) 65536 x 64 PIDs; all 8192 PIDs x 64 priors", 65536*64+8192*64)
	}
	c.StreamSeedless("pid-by-prior", 65536, func(i int, r *gen.Rand) {
		p := body(2+i%3, r)
		p[1], p[2] = byte(i>>8), byte(i)
		try := func(pid int) {
			q := p
			setter(c, "SetPID", ref.HPID, &q, uint64(pid), func(x *packet.Packet) { x.SetPID(pid) })
		}
		if c.Thorough() {
			for pid := 0; pid < 8192; pid++ {
				q := p
				before := q
				want := before
				ref.HPID.Set(want[:], uint64(pid))
				q.SetPID(pid)
				if q != want || q.PID() != pid || packet.Pid(&q) != pid {
					c.Fail("setter:SetPID", fmt.Sprintf("SetPID(%d) on prior bytes %02x %02x: packet or getter differs from the bit table", pid, before[1], before[2]),
						wit{Op: "SetPID", Arg: fmt.Sprint(pid), Before: mon.Hex(before[:8]), After: mon.Hex(q[:8]), Want: mon.Hex(want[:8])})
				}
			}
			c.Eval(8192)
			c.Class(fmt.Sprintf("PID/prior-hi=%x/lo=%02x", i>>13, i&0xff))
			return
		}
		for _, pid := range pidVals {
			try(pid)
		}
		for k := 0; k < nRandPid; k++ {
			try(r.Intn(8192))
		}
	})
	c.StreamSeedless("pid-by-value", 8192, func(pid int, r *gen.Rand) {
		for k := 0; k < 64; k++ {
			p := body(3, r)
			switch k {
			case 0:
				p[1], p[2] = 0, 0
			case 1:
				p[1], p[2] = 0xff, 0xff
			case 2:
				p[1], p[2] = 0xe0, 0
			case 3:
				p[1], p[2] = 0x1f, 0xff
			}
			setter(c, "SetPID", ref.HPID, &p, uint64(pid), func(x *packet.Packet) { x.SetPID(pid) })
		}
	})

	// ---- validation: every (sync byte, byte 3) pair; FromBytes for every length 0..400
	c.Exhaustive("CheckErrors/FromBytes: sync byte (256) x byte3 (256)", 65536)
	c.StreamSeedless("validate", 256, func(b0 int, r *gen.Rand) {
		for b3 := 0; b3 < 256; b3++ {
			p := body(3, r)
			p[0], p[3] = byte(b0), byte(b3)
			tsc, afc := (b3>>6)&3, (b3>>4)&3
			wantErr := b0 != 0x47 || tsc == 1 || afc == 0
			err := p.CheckErrors()
			c.Eval(1)
			if (err != nil) != wantErr {
				c.Fail("validate:CheckErrors", fmt.Sprintf("CheckErrors on sync=%#02x byte3=%#02x returned %v; an error is required exactly when sync!=0x47, TSC=01 or AFC=00 (want error=%v)", b0, b3, err, wantErr),
					wit{Op: "CheckErrors", Before: mon.Hex(p[:4])})
			}
			q, err2 := packet.FromBytes(p[:])
			if (err2 != nil) != wantErr {
				c.Fail("validate:FromBytes-188", fmt.Sprintf("FromBytes(188 bytes, sync=%#02x byte3=%#02x) error=%v, want error=%v", b0, b3, err2, wantErr), wit{Op: "FromBytes", Before: mon.Hex(p[:4])})
			}
			if err2 == nil {
				if q == nil || *q != p {
					c.Fail("validate:FromBytes-content", "FromBytes did not return the 188 bytes it was given", wit{Op: "FromBytes", Before: mon.Hex(p[:])})
				} else {
					// independent copy: changing the source slice must not change the packet
					src := append([]byte{}, p[:]...)
					q2, _ := packet.FromBytes(src)
					src[100] ^= 0xff
					if q2 != nil && q2[100] == src[100] {
						// the statement does not say whether the packet is a copy or a view of the slice (the first
						// version of this check demanded a copy; DESIGN section 7)
						c.Count("frombytes.returns_a_view")
					}
					if q2 == nil {
						c.Fail("validate:FromBytes-188", "FromBytes rejected a valid 188-byte slice on the second call", wit{Op: "FromBytes"})
					}
				}
			}
			c.Class(fmt.Sprintf("validate/sync47=%v/tsc=%d/afc=%d", b0 == 0x47, tsc, afc))
		}
	})
	// ---- validation, getters and comparison are functions of the packet whoever else is validating at that moment
	c.Floor("concurrent.calls", 20000)
	c.Stream("concurrent-callers", c.N(8, 200), func(i int, r *gen.Rand) {
		c.Concurrent("CheckErrors / header getters / Equal", 8, 16000, r, func(q *gen.Rand) string {
			var p packet.Packet
			q.Fill(p[:8])
			if q.Bool() {
				p[0] = 0x47
			}
			want := p[0] != 0x47 || p[3]>>6 == 1 || p[3]>>4&3 == 0
			if got := p.CheckErrors() != nil; got != want {
				return fmt.Sprintf("CheckErrors() reports an error=%v for sync %#02x, byte 3 %#02x; the three stated causes say %v", got, p[0], p[3], want)
			}
			pid := int(p[1]&0x1f)<<8 | int(p[2])
			if p.PID() != pid || packet.Pid(&p) != pid || p.ContinuityCounter() != int(p[3]&15) {
				return fmt.Sprintf("PID()=%#x / Pid()=%#x / ContinuityCounter()=%d for header %x", p.PID(), packet.Pid(&p), p.ContinuityCounter(), p[:4])
			}
			o := p
			if !packet.Equal(&p, &o) {
				return "a packet does not compare equal to its copy"
			}
			o[4+q.Intn(184)] ^= 1 << uint(q.Intn(8))
			if packet.Equal(&p, &o) {
				return "two packets that differ in one bit compare equal"
			}
			n := packet.IncrementCC(&p)
			if n == nil || n[3] != p[3]&0xf0|(p[3]+1)&0x0f {
				return "IncrementCC did not advance the counter by one"
			}
			return ""
		})
		c.Class("concurrent-callers")
	})
	// ---- one packet read by several goroutines at once: getters, validation, comparison and the copy-returning
	// helpers only read their argument, so callers may share it without a lock (none of them writes to it)
	c.Stream("concurrent-readers-of-one-packet", c.N(8, 200), func(i int, r *gen.Rand) {
		var shared packet.Packet
		r.Fill(shared[:])
		shared[0] = 0x47
		snap := shared
		pid, cc := int(snap[1]&0x1f)<<8|int(snap[2]), int(snap[3]&15)
		c.Concurrent("getters / CheckErrors / Equal / IncrementCC / ZeroCC / SetCC on one shared packet", 8, 16000, r, func(q *gen.Rand) string {
			p := &shared
			if p.PID() != pid || packet.Pid(p) != pid || p.ContinuityCounter() != cc || packet.ContinuityCounter(p) != uint8(cc) {
				return fmt.Sprintf("a getter on a packet that nobody writes to reports PID %#x / counter %d, the packet holds %#x / %d", p.PID(), p.ContinuityCounter(), pid, cc)
			}
			var n *packet.Packet
			want := snap
			switch k := q.Intn(3); k {
			case 0:
				n = packet.IncrementCC(p)
				want[3] = snap[3]&0xf0 | (snap[3]+1)&0x0f
			case 1:
				n = packet.ZeroCC(p)
				want[3] = snap[3] & 0xf0
			default:
				v := uint8(q.Intn(16))
				n = packet.SetCC(p, v)
				want[3] = snap[3]&0xf0 | v
			}
			if n == nil || *n != want {
				return "a copy-returning continuity-counter helper returned a packet that is not its argument with the new counter"
			}
			if !packet.Equal(p, &snap) || *p != snap {
				return "a packet that is only read (getters, Equal, copy-returning helpers) was seen changed"
			}
			return ""
		})
		if shared != snap {
			c.Fail("concurrent:shared-packet-modified", "after getters, Equal and the copy-returning helpers ran on one shared packet from several goroutines the packet is no longer what it was", wit{Op: "shared packet", Before: mon.Hex(snap[:]), After: mon.Hex(shared[:])})
		}
		c.Class("concurrent-readers-of-one-packet")
	})
	// ---- the copy-returning helpers over long runs of calls: results are kept, and fed back as arguments
	// after 1, 255, 256, 257, 512 ... further calls; no call may change its argument or an earlier result
	c.Stream("helper-chains", c.N(6, 400), func(i int, r *gen.Rand) {
		type kept struct {
			p    *packet.Packet
			want packet.Packet
		}
		var res []kept
		for n := 0; n < 900; n++ {
			var arg *packet.Packet
			if back := r.PickInt([]int{0, 1, 2, 255, 256, 256, 257, 512, 768, 1 + r.Intn(900)}); back > 0 && back <= len(res) {
				arg = res[len(res)-back].p
			} else {
				a := body(n%5, r)
				arg = &a
				// the argument comes from wherever packets come from: a local value, packet.New, packet.Create (the
				// last thing created in the process), FromBytes
				switch r.Intn(6) {
				case 0:
					arg = packet.Create(r.Intn(8192), packet.WithHasPayloadFlag)
					c.Count("helper.argument_from_Create")
				case 1:
					arg = packet.New()
				case 2:
					if fb, err := packet.FromBytes(a[:]); err == nil && fb != nil {
						arg = fb
					}
				case 3:
					// FromBytes hands a packet back together with the error when only the header is refused: it is
					// the caller's packet like any other
					bad := a
					bad[0] = 0x48
					if fb, _ := packet.FromBytes(bad[:]); fb != nil {
						arg = fb
						c.Count("helper.argument_from_a_refused_FromBytes")
					}
				}
			}
			before := *arg
			var got *packet.Packet
			var want packet.Packet = before
			op := r.Intn(3)
			switch op {
			case 0:
				got = packet.IncrementCC(arg)
				want[3] = want[3]&0xf0 | (want[3]+1)&0x0f
			case 1:
				got = packet.ZeroCC(arg)
				want[3] &= 0xf0
			default:
				v := uint8(r.Intn(16))
				got = packet.SetCC(arg, v)
				want[3] = want[3]&0xf0 | v
			}
			c.Eval(1)
			name := []string{"IncrementCC", "ZeroCC", "SetCC"}[op]
			if *arg != before {
				c.Fail("helper:"+name+"-mutates-arg", fmt.Sprintf("call %d of a run: packet.%s modified its argument (a result returned earlier in the run)", n, name), wit{Op: name, Before: mon.Hex(before[:]), After: mon.Hex(arg[:])})
				return
			}
			if got == nil || *got != want {
				c.Fail("helper:"+name, fmt.Sprintf("call %d of a run: packet.%s did not return the argument with only the counter changed", n, name), wit{Op: name, Before: mon.Hex(before[:])})
				return
			}
			if got == arg {
				c.Fail("helper:"+name+"-returns-its-argument", fmt.Sprintf("call %d of a run: packet.%s returned its argument instead of a copy", n, name), wit{Op: name, Before: mon.Hex(before[:])})
				return
			}
			res = append(res, kept{got, want})
			if n%64 == 63 || n == 899 {
				for k, e := range res {
					if *e.p != e.want {
						c.Fail("helper:earlier-result-changed", fmt.Sprintf("the packet returned by call %d of a run changed by call %d", k, n), wit{Op: "IncrementCC/ZeroCC/SetCC", Before: mon.Hex(e.want[:]), After: mon.Hex(e.p[:])})
						return
					}
				}
			}
		}
		c.Class("helper-chains")
	})
	c.StreamSeedless("frombytes-length", 401, func(n int, r *gen.Rand) {
		b := r.Bytes(n)
		if n > 3 {
			b[0], b[3] = 0x47, 0x10
		}
		q, err := packet.FromBytes(b)
		c.Eval(1)
		if n != 188 {
			if err == nil || q != nil {
				c.Fail("validate:FromBytes-length", fmt.Sprintf("FromBytes accepted a slice of %d bytes (error %v, packet returned: %v)", n, err, q != nil), wit{Op: "FromBytes", Arg: fmt.Sprint(n)})
			}
		} else if err != nil || q == nil {
			c.Fail("validate:FromBytes-188", "FromBytes rejected a valid 188-byte slice", wit{Op: "FromBytes", Before: mon.Hex(b)})
		}
		// a slice of the wrong length is no packet whatever its first bytes look like: headers that validation
		// would refuse (sync byte, reserved scrambling control 01, reserved adaptation_field_control 00) and random ones
		if n != 188 && n > 3 {
			for k, h := range [][2]byte{{0x46, 0x10}, {0x47, 0x50}, {0x47, 0x00}, {0x00, 0x00}, {r.Byte(), r.Byte()}} {
				w := append([]byte{}, b...)
				w[0], w[3] = h[0], h[1]
				qw, errw := packet.FromBytes(w)
				c.Eval(1)
				if errw == nil || qw != nil {
					c.Fail("validate:FromBytes-length", fmt.Sprintf("FromBytes made a packet from a slice of %d bytes whose header bytes are sync=%#02x byte3=%#02x (error %v, packet returned: %v)", n, w[0], w[3], errw, qw != nil), wit{Op: "FromBytes", Arg: fmt.Sprintf("len %d header kind %d", n, k)})
					break
				}
			}
		}
		if n == 0 {
			// "no bytes" in its three spellings
			for k, e := range [][]byte{nil, {}, make([]byte, 0, 188)} {
				if q0, err0 := packet.FromBytes(e); err0 == nil || q0 != nil {
					c.Fail("validate:FromBytes-length-zero", fmt.Sprintf("FromBytes accepted a slice of 0 bytes (spelling %d: nil / empty / empty with capacity 188)", k), wit{Op: "FromBytes", Arg: fmt.Sprint(k)})
				}
				c.Eval(1)
			}
		}
		// the same length cut from a larger buffer (a short read into a packet-sized or larger buffer)
		for _, capacity := range []int{188, 189, 376, 752} {
			if n > capacity {
				continue
			}
			big := r.Bytes(capacity)
			big[0], big[3] = 0x47, 0x10
			q2, err2 := packet.FromBytes(big[:n])
			c.Eval(1)
			if n != 188 && (err2 == nil || q2 != nil) {
				c.Fail("validate:FromBytes-length-with-spare-capacity", fmt.Sprintf("FromBytes accepted a slice of %d bytes (capacity %d)", n, capacity), wit{Op: "FromBytes", Arg: fmt.Sprintf("len %d cap %d", n, capacity)})
			}
			if n == 188 && (err2 != nil || q2 == nil || !bytes.Equal(q2[:], big[:188])) {
				c.Fail("validate:FromBytes-188", "FromBytes rejected or altered a valid 188-byte slice cut from a larger buffer", wit{Op: "FromBytes", Arg: fmt.Sprintf("cap %d", capacity)})
			}
		}
		c.Class(fmt.Sprintf("frombytes/len-class=%d", lenClass(n)))
	})
	// lengths that are 188 modulo a power of two (a length difference narrowed to 8 or 16 bits), multiples of 188, 64 KiB
	c.StreamSeedless("frombytes-long", 1, func(_ int, r *gen.Rand) {
		var ns []int
		for k := 1; k <= 260; k++ {
			ns = append(ns, 188+256*k, 188*k+188)
		}
		ns = append(ns, 188+65536, 188+2*65536, 65536, 65535, 65537, 188+1<<20)
		buf := make([]byte, 188+1<<20)
		r.Fill(buf[:4096])
	headers:
		for _, h := range [][2]byte{{0x47, 0x10}, {0x48, 0x10}, {0x47, 0x40}, {0x47, 0x0f}} {
			buf[0], buf[3] = h[0], h[1]
			for _, n := range ns {
				if n == 188 {
					continue
				}
				c.Eval(1)
				if q, err := packet.FromBytes(buf[:n]); err == nil || q != nil {
					c.Fail("validate:FromBytes-length", fmt.Sprintf("FromBytes made a packet from a slice of %d bytes (sync=%#02x byte3=%#02x, error %v, packet returned: %v)", n, h[0], h[1], err, q != nil), wit{Op: "FromBytes", Arg: fmt.Sprint(n)})
					break headers
				}
			}
		}
		c.Class("frombytes/long")
	})

	// ---- equality: identical copies, same pointer, nil, every single-bit difference
	c.Exhaustive("Equal: each of the 1504 single-bit differences and each of the 17578 byte-offset pairs with a common XOR pattern", 1504+17578)
	c.Stream("equal", c.N(8, 64), func(i int, r *gen.Rand) {
		a := body(i%5, r)
		b := a
		c.Eval(3 + 1504)
		if !packet.Equal(&a, &b) || !a.Equals(&b) || !packet.Equal(&a, &a) {
			c.Fail("equal:identical", "identical packets compare unequal", wit{Op: "Equal", Before: mon.Hex(a[:])})
		}
		if packet.Equal(&a, nil) || packet.Equal(nil, &a) || a.Equals(nil) {
			c.Fail("equal:nil", "a packet compares equal to nil", wit{Op: "Equal"})
		}
		for bit := 0; bit < 1504; bit++ {
			b = a
			b[bit>>3] ^= 1 << uint(7-bit&7)
			if packet.Equal(&a, &b) || packet.Equal(&b, &a) || a.Equals(&b) {
				c.Fail("equal:bitflip", fmt.Sprintf("packets that differ in bit %d (byte %d) compare equal", bit, bit>>3), wit{Op: "Equal", Before: mon.Hex(a[:]), After: mon.Hex(b[:])})
			}
		}
		// the same for packets that lie somewhere inside a larger buffer (a
		// read buffer cut into packets): every position modulo 16, both sides
		bufA, bufB := make([]byte, 188+32), make([]byte, 188+32)
		for off := 0; off < 16; off++ {
			va := (*packet.Packet)(bufA[off : off+188])
			vb := (*packet.Packet)(bufB[(off*7+3)%16 : (off*7+3)%16+188])
			*va, *vb = a, a
			if !packet.Equal(va, vb) || !vb.Equals(va) {
				c.Fail("equal:identical-inside-a-buffer", fmt.Sprintf("identical packets at offsets %d and %d of larger buffers compare unequal", off, (off*7+3)%16), wit{Op: "Equal", Before: mon.Hex(a[:])})
			}
			for bit := 0; bit < 1504; bit++ {
				vb[bit>>3] ^= 1 << uint(7-bit&7)
				if packet.Equal(va, vb) || packet.Equal(vb, va) || va.Equals(&b) != (*va == b) {
					c.Fail("equal:bitflip-inside-a-buffer", fmt.Sprintf("packets at offsets %d and %d of larger buffers that differ in bit %d (byte %d) compare equal", off, (off*7+3)%16, bit, bit>>3), wit{Op: "Equal", Before: mon.Hex(va[:]), After: mon.Hex(vb[:])})
					bit = 1504
				}
				*vb = a
			}
			c.Count("equal.buffer_offsets")
		}
		c.Eval(16 * 1504)
		// two-byte differences with the same XOR pattern (differences must not cancel), every offset pair
		pat := byte(1) << uint(i%8)
		if i%3 == 0 {
			pat = r.Byte() | 1
		}
		for x := 0; x < 188; x++ {
			for y := x + 1; y < 188; y++ {
				b = a
				b[x] ^= pat
				b[y] ^= pat
				if packet.Equal(&a, &b) || b.Equals(&a) {
					c.Fail("equal:two-byte-difference", fmt.Sprintf("packets that differ in bytes %d and %d (same XOR pattern %#02x) compare equal", x, y, pat), wit{Op: "Equal", Before: mon.Hex(a[:]), After: mon.Hex(b[:])})
					x, y = 188, 188
				}
			}
		}
		c.Eval(188 * 187 / 2)
		// random multi-byte differences
		for k := 0; k < 2000; k++ {
			b = a
			n := 2 + r.Intn(6)
			for j := 0; j < n; j++ {
				b[r.Intn(188)] ^= byte(1 + r.Intn(255))
			}
			if (a == b) != packet.Equal(&a, &b) {
				c.Fail("equal:multi-byte-difference", "Equal disagrees with byte-wise comparison on a multi-byte difference", wit{Op: "Equal", Before: mon.Hex(a[:]), After: mon.Hex(b[:])})
				break
			}
		}
		c.Eval(2000)
		c.Class(fmt.Sprintf("equal/body=%d", i%5))
		// CopyPackets: fresh memory, same content
		ps := []*packet.Packet{&a, &b}
		cp := packet.CopyPackets(ps)
		if len(cp) != 2 || cp[0] == &a || cp[1] == &b || *cp[0] != a || *cp[1] != b {
			c.Fail("helper:CopyPackets", "CopyPackets did not return fresh equal copies", wit{Op: "CopyPackets"})
		}
	})

	// ---- random whole packets: all getters in both styles
	c.Stream("getters-random", c.N(200, 2000), func(i int, r *gen.Rand) {
		for k := 0; k < 500; k++ {
			var p packet.Packet
			r.Fill(p[:])
			if k%3 == 0 {
				p[1], p[2] = []byte{0x00, 0x1f, 0xe0, 0xff}[r.Intn(4)], []byte{0x00, 0xff}[r.Intn(2)]
			}
			checkGetters(c, &p)
		}
		c.Eval(500)
	})
	// every value of each header byte with getters checked
	c.Exhaustive("getters: every value of header bytes 1,2,3 (3 x 256) and every (byte1,byte2) pair", 65536+768)
	c.StreamSeedless("getters-bytes", 65536, func(i int, r *gen.Rand) {
		p := body(i%5, r)
		p[1], p[2] = byte(i>>8), byte(i)
		checkGetters(c, &p)
		if i < 256 {
			p = body(3, r)
			p[3] = byte(i)
			checkGetters(c, &p)
			c.Class(fmt.Sprintf("getters/byte3=%02x", i))
		}
		c.Eval(1)
	})
	if cNew := packet.New(); cNew == nil || cNew[0] != 0x47 || cNew.PID() != 0x1fff || cNew.AdaptationFieldControl() != packet.PayloadFlag {
		c.Fail("helper:New", "packet.New() is not a null packet with sync byte and payload-only AFC", nil)
	}
}

func lenClass(n int) int {
	switch {
	case n == 0:
		return 0
	case n < 4:
		return 1
	case n < 187:
		return 2
	case n == 187:
		return 3
	case n == 188:
		return 4
	case n == 189:
		return 5
	case n < 376:
		return 6
	case n == 376:
		return 7
	}
	return 8
}
