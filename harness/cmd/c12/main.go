// C12 — EBP codec: decode is exact, re-encode is byte-identical, time survives to 1 ns.
package main

import (
	"bytes"
	"fmt"
	"reflect"
	"time"

	"github.com/Comcast/gots/v2/ebp"

	"verif/harness/internal/gen"
	"verif/harness/internal/mon"
	"verif/harness/internal/ref"
)

func main() { mon.Main("C12", run) }

type wit struct {
	Input  string `json:"input_hex,omitempty"`
	Shape  string `json:"shape,omitempty"`
	Detail string `json:"detail"`
}

func genEBP(r *gen.Rand, cable bool, flags byte) ref.EBP {
	e := ref.EBP{CableLabs: cable, Flags: flags, Ext: r.Byte(), Sap: r.Byte(), Sec: r.Uint32(), Frac: r.Uint32(), Partitions: r.Byte()}
	if r.Chance(4) {
		e.Frac = uint32(r.PickU64([]uint64{0, 1, 0xffffffff, 0x80000000, 0x7fffffff, 4294967, 4294968}))
	}
	if r.Chance(4) {
		e.Sec = uint32(r.PickU64([]uint64{0, 1, 0x7fffffff, 0x80000000, 0xffffffff}))
	}
	n := 1
	if cable {
		n = 1 + r.Intn(8)
		if r.Chance(10) {
			// a long multi-byte chain (nothing bounds it but the length byte)
			n = r.PickInt([]int{15, 16, 17, 18, 31, 32, 33, 64, 100, 200})
		}
	}
	for i := 0; i < n; i++ {
		g := r.Byte()
		if cable {
			g &= 0x7f
		}
		if r.Chance(4) {
			g = r.PickByte([]byte{0x1c, 0x1d})
		}
		e.Groups = append(e.Groups, g)
	}
	switch r.Intn(6) {
	case 0, 1, 2:
	case 3, 4:
		e.Reserved = r.Bytes(1 + r.Intn(4))
	default:
		e.Reserved = r.Bytes(r.Intn(150))
		if n > 60 {
			e.Reserved = r.Bytes(r.Intn(20))
		}
	}
	if r.Chance(12) {
		// a reserved tail that brings the body to the largest lengths the 8-bit length byte can announce
		e.Reserved = nil
		if body := len(e.Bytes()) - 2; body < 250 {
			e.Reserved = r.Bytes(r.PickInt([]int{250, 252, 253, 254, 255, 255}) - body)
		}
	}
	return e
}

func shape(e *ref.EBP) string {
	return fmt.Sprintf("cablelabs=%v flags=%08b ext=%#02x groups=%x reserved=%d", e.CableLabs, e.Flags, e.Ext, e.Groups, len(e.Reserved))
}

type comcastOnly interface{ DiscontinuityFlag() bool }
type cableOnly interface {
	ConcealmentFlag() bool
	PartitionFlag() bool
}

func fieldBytes(v interface{}, name string) ([]byte, bool) {
	rv := reflect.ValueOf(v)
	for rv.Kind() == reflect.Ptr || rv.Kind() == reflect.Interface {
		if rv.IsNil() {
			return nil, false
		}
		rv = rv.Elem()
	}
	if rv.Kind() != reflect.Struct {
		return nil, false
	}
	f := rv.FieldByName(name)
	if !f.IsValid() || f.Kind() != reflect.Slice || f.Type().Elem().Kind() != reflect.Uint8 {
		return nil, false
	}
	return f.Bytes(), true
}

// getters compares every getter of a decoded/built object with the ground truth.
func getters(c *mon.Ctx, tag string, x ebp.EncoderBoundaryPoint, e *ref.EBP, in []byte) bool {
	ok := true
	bad := func(sig, d string) {
		c.Fail(tag+":"+sig, d+" ("+shape(e)+")", wit{mon.Hex(in), shape(e), d})
		ok = false
	}
	f := e.Flags
	if x.FragmentFlag() != (f&0x80 != 0) || x.SegmentFlag() != (f&0x40 != 0) || x.SapFlag() != (f&0x20 != 0) || x.GroupingFlag() != (f&0x10 != 0) || x.TimeFlag() != (f&0x08 != 0) || x.ExtensionFlag() != (f&0x01 != 0) {
		bad("flags", fmt.Sprintf("flag getters report frag=%v seg=%v sap=%v grp=%v time=%v ext=%v for flags byte %08b", x.FragmentFlag(), x.SegmentFlag(), x.SapFlag(), x.GroupingFlag(), x.TimeFlag(), x.ExtensionFlag(), f))
	}
	if x.EBPType() != e.Tag() {
		bad("type", fmt.Sprintf("EBPType()=%#x", x.EBPType()))
	}
	if x.IsEmpty() {
		bad("empty", "IsEmpty() is true for a non-empty EBP")
	}
	if f&0x20 != 0 && x.Sap() != e.Sap {
		bad("sap", fmt.Sprintf("Sap()=%#x, encoded %#x", x.Sap(), e.Sap))
	}
	if f&0x08 != 0 {
		if want := ref.NTPInstant(e.Sec, e.Frac); !x.EBPTime().Equal(want) {
			bad("time", fmt.Sprintf("EBPTime()=%v, NTP %08x.%08x is %v", x.EBPTime().UTC().Format(time.RFC3339Nano), e.Sec, e.Frac, want.Format(time.RFC3339Nano)))
		}
	}
	if g := x.StreamSyncSignal(); g != e.SyncSignal() {
		bad("sync-signal", fmt.Sprintf("StreamSyncSignal()=%#x, want %#x for grouping ids %x", g, e.SyncSignal(), e.Groups))
	}
	if f&0x10 != 0 {
		if g, found := fieldBytes(x, "Grouping"); found && !bytes.Equal(g, e.Groups) {
			bad("grouping-ids", fmt.Sprintf("grouping ids %x, encoded %x", g, e.Groups))
		}
	}
	if e.CableLabs {
		if y, is := x.(cableOnly); is {
			if y.ConcealmentFlag() != (f&0x04 != 0) {
				bad("concealment", "ConcealmentFlag differs from bit 0x04")
			}
			if y.PartitionFlag() != (f&0x01 != 0 && e.Ext&0x80 != 0) {
				bad("partition", "PartitionFlag differs from extension bit 0x80")
			}
		}
	} else if y, is := x.(comcastOnly); is && y.DiscontinuityFlag() != (f&0x04 != 0) {
		bad("discontinuity", "DiscontinuityFlag differs from bit 0x04")
	}
	return ok
}

// keptEBPs: decoded EBPs that are looked at again after many later ones were decoded.
var keptEBPs mon.Keeper

func decode(c *mon.Ctx, e *ref.EBP) {
	in := e.Bytes()
	in = gen.SlackBy(in, gen.HashString(string(in)))
	snap := append([]byte{}, in...)
	if gen.HashString(string(in))%8 == 3 {
		// right after calls that fail: no state is carried over
		for cut := 0; cut < len(in); cut++ { // every proper prefix: rejected at every stage of the parse
			ebp.ReadEncoderBoundaryPoint(in[:cut:cut])
		}
		ebp.ReadEncoderBoundaryPoint(nil)
		ebp.ReadEncoderBoundaryPoint([]byte{0x00, 0x00})
		c.Count("decode_after_failed_decode")
	}
	if gen.HashString(string(in))%8 == 5 {
		// right after an empty EBP (either flavour, freshly created or emptied) was asked for its bytes:
		// nothing of that carries over
		e0 := ebp.CreateComcastEBP()
		_ = e0.Data()
		e1 := ebp.CreateCableLabsEbp()
		e1.SetIsEmpty(true)
		_ = e1.Data()
		c.Count("decode_after_data_of_an_empty_ebp")
	}
	x, err := ebp.ReadEncoderBoundaryPoint(in)
	c.Eval(1)
	if err != nil || x == nil {
		c.Fail("decode:error", fmt.Sprintf("a well-formed EBP was rejected: %v (%s)", err, shape(e)), wit{mon.Hex(snap), shape(e), fmt.Sprint(err)})
		return
	}
	if !getters(c, "decode", x, e, snap) {
		return
	}
	if h := gen.HashString(string(snap)); h%4 == 0 {
		// an object of its own is kept and looked at again after 1 ... 4095 later EBPs were decoded
		if xk, err := ebp.ReadEncoderBoundaryPoint(append([]byte{}, snap...)); err == nil && xk != nil {
			truth := *e
			keptEBPs.Keep(c, "decoded EBP", gen.New(h, 5), func() string {
				getters(c, "decode:object-kept-across-many-later-decodes", xk, &truth, snap)
				return ""
			})
		}
	}
	out := x.Data()
	if !bytes.Equal(out, snap) {
		c.Fail("reencode:bytes", fmt.Sprintf("re-encoding the decoded EBP gave %x (%s)", out, shape(e)), wit{mon.Hex(snap), shape(e), "re-encoded: " + mon.Hex(out)})
	}
	if !bytes.Equal(in, snap) {
		c.Fail("decode:input-modified", "decoding or re-encoding modified the input bytes", wit{mon.Hex(snap), shape(e), ""})
	}
	// the same receive buffer is filled with the next EBP of the stream - same flavour, flags and length,
	// other values - and decoded again
	{
		e3 := *e
		e3.Sap ^= 0x20 | byte(len(snap))
		e3.Groups = append([]byte{}, e.Groups...)
		for k := range e3.Groups {
			e3.Groups[k] ^= byte(k+1) & 0x7f
		}
		e3.Sec, e3.Frac, e3.Partitions = e.Sec+2, e.Frac^0x40008001, e.Partitions^0x05
		if e3.Flags&0x01 != 0 {
			e3.Ext ^= 0x40 // (not the partition flag: the layout stays)
		}
		if nb := e3.Bytes(); len(nb) == len(snap) && !bytes.Equal(nb, snap) {
			copy(in, nb)
			c.Count("decode_from_the_same_buffer_refilled_with_the_next_ebp")
			x3, err := ebp.ReadEncoderBoundaryPoint(in)
			if err != nil || x3 == nil {
				c.Fail("decode-from-refilled-buffer:error", fmt.Sprintf("the buffer was refilled with the next EBP of the same shape and that one was rejected: %v (%s)", err, shape(&e3)), wit{mon.Hex(nb), shape(&e3), fmt.Sprint(err)})
			} else if getters(c, "decode-from-refilled-buffer", x3, &e3, nb) {
				if o3 := x3.Data(); !bytes.Equal(o3, nb) {
					c.Fail("decode-from-refilled-buffer:reencode", fmt.Sprintf("the buffer was refilled with the next EBP of the same shape; re-encoding what was decoded from it gave %x (%s)", o3, shape(&e3)), wit{mon.Hex(nb), shape(&e3), "re-encoded: " + mon.Hex(o3)})
				}
			}
			copy(in, snap)
		}
	}
	// decoding is a function of the bytes: the decoded object's grouping ids (an exported field) are overwritten in
	// place, then the same bytes are decoded again
	x0, _ := ebp.ReadEncoderBoundaryPoint(append([]byte{}, snap...)) // (an object of its own: x is looked at again below)
	if g, found := fieldBytes(x0, "Grouping"); found && len(g) > 0 {
		for k := range g {
			g[k] ^= 0x2b
		}
		c.Count("decoded_again_after_the_first_objects_grouping_ids_were_overwritten")
		if x2, err := ebp.ReadEncoderBoundaryPoint(append([]byte{}, snap...)); err != nil || x2 == nil {
			c.Fail("decode-again:error", fmt.Sprintf("the same bytes were rejected when decoded a second time: %v (%s)", err, shape(e)), wit{mon.Hex(snap), shape(e), fmt.Sprint(err)})
		} else {
			getters(c, "decode-again-after-editing-the-first-object", x2, e, snap)
		}
	}
	// a flavour-specific setter on the decoded object is reflected by the next encoding
	{
		y, _ := ebp.ReadEncoderBoundaryPoint(append([]byte{}, snap...))
		e2 := *e
		changed := ""
		switch z := y.(type) {
		case interface{ SetDiscontinuityFlag(bool) }:
			if e.Flags&0x04 == 0 {
				z.SetDiscontinuityFlag(true)
				e2.Flags |= 0x04
				changed = "SetDiscontinuityFlag(true)"
			}
		case interface {
			SetConcealmentFlag(bool)
			SetPartitionFlag(bool)
		}:
			if e.Flags&0x04 == 0 && len(snap)%2 == 0 {
				z.SetConcealmentFlag(true)
				e2.Flags |= 0x04
				changed = "SetConcealmentFlag(true)"
			} else if e.Flags&0x01 != 0 && e.Ext&0x80 == 0 {
				z.SetPartitionFlag(true)
				e2.Ext |= 0x80
				e2.Partitions = 0
				changed = "SetPartitionFlag(true)"
			}
		}
		if changed != "" && y != nil && len(e2.Bytes()) <= 257 {
			c.Count("decoded_then_flavour_setter")
			if got, want := y.Data(), e2.Bytes(); !bytes.Equal(got, want) {
				c.Fail("reencode:setter-after-decode-not-reflected", fmt.Sprintf("%s on a decoded EBP is not reflected by the next Data() (%s)", changed, shape(e)), wit{mon.Hex(snap), shape(e), "got " + mon.Hex(got) + " want " + mon.Hex(want)})
			}
		}
	}
	// bytes returned by Data() stay what they were when other EBPs (of either flavour) are encoded later
	kept := append([]byte{}, out...)
	o1 := ebp.CreateComcastEBP()
	o1.SetTimeFlag(true)
	o1.SetSapFlag(true)
	o1.SetSap(0x77)
	o1.ReservedBytes = bytes.Repeat([]byte{0xEE}, len(out))
	_ = o1.Data()
	o2 := ebp.CreateCableLabsEbp()
	o2.SetGroupingFlag(true)
	o2.Grouping = bytes.Repeat([]byte{0x11}, 8)
	o2.ReservedBytes = bytes.Repeat([]byte{0xDD}, len(out))
	_ = o2.Data()
	again := x.Data()
	if !bytes.Equal(out, kept) {
		c.Fail("reencode:earlier-result-overwritten", "the slice returned by Data() changed when other EBPs were encoded afterwards", wit{mon.Hex(snap), shape(e), "now " + mon.Hex(out)})
	} else if !bytes.Equal(again, snap) {
		c.Fail("reencode:second-encoding-differs", "encoding the same object a second time gives different bytes", wit{mon.Hex(snap), shape(e), mon.Hex(again)})
	}
}

var (
	prevBuilt ebp.EncoderBoundaryPoint
	prevEnc   []byte
)

// built creates the object through the setter API and checks encode -> decode.
func built(c *mon.Ctx, r *gen.Rand, e *ref.EBP) {
	// the library's flag setters are set-only, every flag is set at most once
	var x ebp.EncoderBoundaryPoint
	// the setters are independent of each other: they are called in a random order, and the time is given
	// before or after the flags
	timeFirst := r.Bool()
	idsWithoutFlag := false // grouping ids were put into the object without the flag: StreamSyncSignal() of the built object is not compared
	t := ref.NTPInstant(e.Sec, e.Frac)
	set := func(b ebp.EncoderBoundaryPoint) {
		f := e.Flags
		if r.Chance(3) {
			// an earlier time stamp on the same object, from either NTP era: only the last one set counts
			b.SetEBPTime(time.Unix([]int64{-61505152, 0, 1600000000, 2085978495, 2085978496, 2085978497, 3000000000, 4200000000}[r.Intn(8)], int64(r.Intn(1000000000))).UTC())
			c.Count("built.time_set_more_than_once")
		}
		if timeFirst {
			b.SetEBPTime(t)
		}
		for _, k := range r.Perm(7) {
			switch k {
			case 0:
				b.SetFragmentFlag(f&0x80 != 0)
			case 1:
				b.SetSegmentFlag(f&0x40 != 0)
			case 2:
				b.SetSapFlag(f&0x20 != 0)
			case 3:
				b.SetGroupingFlag(f&0x10 != 0)
			case 4:
				b.SetTimeFlag(f&0x08 != 0)
			case 5:
				b.SetExtensionFlag(f&0x01 != 0)
			default:
				b.SetSap(e.Sap)
			}
		}
	}
	if e.CableLabs {
		b := ebp.CreateCableLabsEbp()
		set(&b)
		b.SetConcealmentFlag(e.Flags&0x04 != 0)
		b.ExtensionFlags = e.Ext &^ 0x80
		if e.Flags&0x01 != 0 {
			b.SetPartitionFlag(e.Ext&0x80 != 0)
		} else if e.Ext&0x80 != 0 && len(e.Reserved) < 100 {
			// the partition flag lives in the extension byte, which this object does not have: what the call does
			// then (nothing, or switching the extension on as well) is the library's choice; the object must
			// encode to what it reports from here on
			b.SetPartitionFlag(true)
			c.Count("built.partition_flag_without_extension")
			if b.ExtensionFlag() {
				ee := *e
				ee.Flags |= 0x01
				e = &ee
			} else if b.PartitionFlag() {
				c.Fail("built:partition-without-extension", "after SetPartitionFlag(true) on an EBP without the extension flag the object reports the partition flag but no extension", wit{"", shape(e), ""})
			}
		}
		b.PartitionFlags = e.Partitions
		if e.Flags&0x10 != 0 {
			if r.Bool() {
				b.Grouping = append([]byte{}, e.Groups...)
			} else {
				for _, id := range e.Groups { // the ids are appended to the slice the created object came with
					b.Grouping = append(b.Grouping, id)
				}
			}
		} else if len(e.Reserved) < 100 && r.Chance(4) {
			// ids in the (public) field although the grouping flag is not requested: they are not announced, so they
			// are not part of the encoding; the length byte still counts exactly the bytes that follow
			b.Grouping = []byte{0x1c, 0x85, 0x01}[:1+r.Intn(3)]
			idsWithoutFlag = true
			c.Count("built.grouping_ids_without_flag")
		}
		if !timeFirst {
			b.SetEBPTime(t)
		}
		b.ReservedBytes = append([]byte{}, e.Reserved...)
		x = &b
	} else {
		b := ebp.CreateComcastEBP()
		set(&b)
		b.SetDiscontinuityFlag(e.Flags&0x04 != 0)
		b.ExtensionFlags = e.Ext
		if e.Flags&0x10 != 0 {
			if r.Bool() {
				b.Grouping = append([]byte{}, e.Groups[:1]...)
			} else {
				b.Grouping = append(b.Grouping, e.Groups[0])
			}
		} else if len(e.Reserved) < 100 && r.Chance(4) {
			b.Grouping = []byte{0x1d}
			idsWithoutFlag = true
			c.Count("built.grouping_ids_without_flag")
		}
		if !timeFirst {
			b.SetEBPTime(t)
		}
		b.ReservedBytes = append([]byte{}, e.Reserved...)
		x = &b
	}
	c.Eval(1)
	enc := x.Data()
	// the EBP built before this one is still alive: building this one has not changed what it encodes to
	if prevBuilt != nil {
		c.Count("built.previous_object_rechecked")
		if got := prevBuilt.Data(); !bytes.Equal(got, prevEnc) {
			c.Fail("built:earlier-object-changed-by-building-another", fmt.Sprintf("an EBP built through the setter API encoded to %x; after another EBP was built the same object encodes to %x", prevEnc, got), wit{mon.Hex(prevEnc), shape(e), mon.Hex(got)})
		}
	}
	prevBuilt, prevEnc = x, append([]byte{}, enc...)
	if len(enc) < 2 || int(enc[1]) != len(enc)-2 {
		c.Fail("built:length-byte", fmt.Sprintf("the length byte of the encoded EBP does not equal the number of bytes that follow (%x)", enc), wit{mon.Hex(enc), shape(e), ""})
		return
	}
	y, err := ebp.ReadEncoderBoundaryPoint(enc)
	if err != nil || y == nil {
		c.Fail("built:decode-error", fmt.Sprintf("the library cannot decode the EBP it encoded: %v", err), wit{mon.Hex(enc), shape(e), ""})
		return
	}
	// getters(built) == getters(decode(encode(built)))
	same := x.FragmentFlag() == y.FragmentFlag() && x.SegmentFlag() == y.SegmentFlag() && x.SapFlag() == y.SapFlag() && x.GroupingFlag() == y.GroupingFlag() &&
		x.TimeFlag() == y.TimeFlag() && x.ExtensionFlag() == y.ExtensionFlag() && x.EBPType() == y.EBPType() && x.IsEmpty() == y.IsEmpty() && (idsWithoutFlag || x.StreamSyncSignal() == y.StreamSyncSignal())
	if x.SapFlag() {
		same = same && x.Sap() == y.Sap()
	}
	if x.TimeFlag() {
		same = same && x.EBPTime().Equal(y.EBPTime())
	}
	if !same {
		c.Fail("built:roundtrip-getters", "an EBP built through the setter API reports different values after encode + decode ("+shape(e)+")", wit{mon.Hex(enc), shape(e), ""})
		return
	}
	// the flags requested are the flags reported
	ge := *e
	if e.Flags&0x08 != 0 {
		// the time field may differ from (Sec,Frac) by the fraction's rounding; compare instants within 1 ns below
		d := y.EBPTime().Sub(t)
		if d < -1 || d > 1 {
			c.Fail("built:time", fmt.Sprintf("time set to %v reads back %v after encode + decode", t.Format(time.RFC3339Nano), y.EBPTime().UTC().Format(time.RFC3339Nano)), wit{mon.Hex(enc), shape(e), ""})
		}
	}
	ge.Flags &^= 0x08
	gy := y
	_ = gy
	chk := ge
	chk.Flags = e.Flags &^ 0x08
	if !e.CableLabs {
		chk.Groups = e.Groups[:1]
	}
	// compare flags other than time-dependent values against the request
	if y.FragmentFlag() != (e.Flags&0x80 != 0) || y.SegmentFlag() != (e.Flags&0x40 != 0) || y.SapFlag() != (e.Flags&0x20 != 0) || y.GroupingFlag() != (e.Flags&0x10 != 0) || y.TimeFlag() != (e.Flags&0x08 != 0) || y.ExtensionFlag() != (e.Flags&0x01 != 0) {
		c.Fail("built:flags", "flags set through the API are not the flags reported after encode + decode ("+shape(e)+")", wit{mon.Hex(enc), shape(e), ""})
	}
	if e.Flags&0x10 != 0 && y.StreamSyncSignal() != chk.SyncSignal() {
		c.Fail("built:sync-signal", "stream sync signal differs after encode + decode", wit{mon.Hex(enc), shape(e), ""})
	}
}

// EBP objects that live as long as the worker: every time of the time streams is also set on them, one after the
// other (an object is stamped again and again, with times of either era in any order).
var (
	keptComcast   = ebp.CreateComcastEBP()
	keptCableLabs = ebp.CreateCableLabsEbp()
	keptStamps    int
)

// zones: locations a time.Time can carry (fixed offsets east and west, half hours, the extremes, the process's own)
var zones = []*time.Location{time.FixedZone("CET", 3600), time.FixedZone("EST", -5*3600), time.FixedZone("IST", 19800), time.FixedZone("LINT", 14*3600), time.FixedZone("AoE", -12*3600), time.FixedZone("odd", 1), time.FixedZone("odd-west", -86399), time.Local}

func timeCase(c *mon.Ctx, t time.Time, class string) {
	cm := ebp.CreateComcastEBP()
	cm.SetEBPTime(t)
	d1 := cm.EBPTime().Sub(t)
	cl := ebp.CreateCableLabsEbp()
	cl.SetEBPTime(t)
	d2 := cl.EBPTime().Sub(t)
	c.Eval(1)
	if keptStamps%61 == 60 {
		// a new pair now and then: the first time an object is stamped with is then of either era as well
		keptComcast, keptCableLabs = ebp.CreateComcastEBP(), ebp.CreateCableLabsEbp()
	}
	keptComcast.SetEBPTime(t)
	keptCableLabs.SetEBPTime(t)
	keptStamps++
	c.Count("time.set_on_an_object_stamped_before")
	if k1, k2 := keptComcast.EBPTime().Sub(t), keptCableLabs.EBPTime().Sub(t); k1 < -1 || k1 > 1 || k2 < -1 || k2 > 1 {
		c.Fail("time:roundtrip-on-an-object-stamped-before", fmt.Sprintf("SetEBPTime(%s) on an object whose time had been set %d times before reads back %v / %v later (a fresh object: %v)", t.Format(time.RFC3339Nano), keptStamps-1, k1, k2, d1),
			wit{Detail: fmt.Sprintf("set %s, read back %s", t.Format(time.RFC3339Nano), keptComcast.EBPTime().UTC().Format(time.RFC3339Nano))})
		keptComcast, keptCableLabs = ebp.CreateComcastEBP(), ebp.CreateCableLabsEbp()
	}
	if d1 < -1 || d1 > 1 || d2 < -1 || d2 > 1 {
		sig := "time:roundtrip"
		if d1 <= -999999990 && d1 >= -1000000010 {
			sig = "time:roundtrip-off-by-one-second"
		}
		c.Fail(sig, fmt.Sprintf("SetEBPTime(%s) reads back %v later", t.Format(time.RFC3339Nano), d1), wit{Detail: fmt.Sprintf("set %s (unix %d.%09d), read back %s", t.Format(time.RFC3339Nano), t.Unix(), t.Nanosecond(), cm.EBPTime().UTC().Format(time.RFC3339Nano))})
	}
	c.Class("time/" + class)
}

func run(c *mon.Ctx) {
	c.Rule("EBPs built from ground truth by a reference encoder: all 256 flag bytes x both flavours x grouping chains of 1..8 ids x reserved tails (0..4, occasionally up to 149 bytes, occasionally filling the body to 250..255 bytes), decoded, compared getter by getter, re-encoded; the same field values built through the setter API and round-tripped; instants over the NTP-representable range at second / era / fraction boundaries and PRNG-chosen. distinct non-trivial = distinct (flavour, flags byte, chain length, has reserved tail) / (time boundary class)")
	c.Assume("EBP bodies go up to the 255 bytes the length byte can announce; the library's flag setters are set-only so built objects never clear a flag; EBPSuccessReadTime (wall clock) is ignored")
	per := c.N(12, 20000)
	c.Exhaustive("all 256 flag bytes x both flavours", 512)
	c.Floor("kept.decoded EBP.looked_at_again_after_64_or_more_later_objects", 60)
	c.Floor("decoded_then_flavour_setter", 500)
	c.Floor("decode_from_the_same_buffer_refilled_with_the_next_ebp", 2000)
	c.Floor("time.instant_given_in_another_location", 3000)
	c.Floor("concurrent.calls", 5000)
	c.Stream("concurrent-codecs", c.N(8, 200), func(i int, r *gen.Rand) {
		c.Concurrent("ebp.ReadEncoderBoundaryPoint + Data", 8, 2000, r, func(q *gen.Rand) string {
			e := genEBP(q, q.Bool(), q.Byte())
			in := e.Bytes()
			if len(in) > 257 {
				return ""
			}
			x, err := ebp.ReadEncoderBoundaryPoint(append([]byte{}, in...))
			if err != nil || x == nil {
				return fmt.Sprintf("a well-formed EBP was rejected: %v (%s)", err, shape(&e))
			}
			if x.TimeFlag() != (e.Flags&0x08 != 0) || x.SapFlag() != (e.Flags&0x20 != 0) || x.GroupingFlag() != (e.Flags&0x10 != 0) {
				return "decoded flags differ from the encoded ones (" + shape(&e) + ")"
			}
			if e.Flags&0x08 != 0 && !x.EBPTime().Equal(ref.NTPInstant(e.Sec, e.Frac)) {
				return fmt.Sprintf("EBPTime()=%v, encoded %v", x.EBPTime().UTC(), ref.NTPInstant(e.Sec, e.Frac).UTC())
			}
			if got := x.Data(); !bytes.Equal(got, in) {
				return fmt.Sprintf("re-encoding differs from the input at byte %d (%s)", ref.FirstDiff(got, in), shape(&e))
			}
			return ""
		})
		c.Class("concurrent-codecs")
	})
	c.Stream("concurrent-readers-of-one-ebp", c.N(8, 200), func(i int, r *gen.Rand) {
		c.ConcurrentReaders("decoded EBP", c.N(300, 300), r, func(q *gen.Rand) func() string {
			e := genEBP(q, q.Bool(), q.Byte())
			in := e.Bytes()
			if len(in) > 257 {
				return nil
			}
			x, err := ebp.ReadEncoderBoundaryPoint(append([]byte{}, in...))
			if err != nil || x == nil {
				return func() string { return fmt.Sprintf("a well-formed EBP was rejected: %v (%s)", err, shape(&e)) }
			}
			want := ref.NTPInstant(e.Sec, e.Frac)
			return func() string {
				if x.FragmentFlag() != (e.Flags&0x80 != 0) || x.SegmentFlag() != (e.Flags&0x40 != 0) || x.SapFlag() != (e.Flags&0x20 != 0) || x.GroupingFlag() != (e.Flags&0x10 != 0) || x.TimeFlag() != (e.Flags&0x08 != 0) || x.ExtensionFlag() != (e.Flags&0x01 != 0) {
					return "flags read differ from the encoded ones (" + shape(&e) + ")"
				}
				if e.Flags&0x08 != 0 && !x.EBPTime().Equal(want) {
					return fmt.Sprintf("EBPTime()=%v, encoded %v", x.EBPTime().UTC(), want.UTC())
				}
				if e.Flags&0x20 != 0 && x.Sap() != e.Sap {
					return fmt.Sprintf("Sap()=%#x, encoded %#x", x.Sap(), e.Sap)
				}
				return ""
			}
		})
		c.Class("concurrent-readers-of-one-ebp")
	})
	c.Stream("by-flags", 512, func(i int, r *gen.Rand) {
		cable, flags := i >= 256, byte(i)
		for k := 0; k < per; k++ {
			e := genEBP(r, cable, flags)
			decode(c, &e)
			built(c, r, &e)
			if c.Class(fmt.Sprintf("cable=%v/flags=%02x/chain=%d/tail=%v/maxlen=%v", cable, flags, len(e.Groups), len(e.Reserved) > 0, len(e.Bytes()) >= 255)) && c.WantSample() && flags&0x18 == 0x18 && len(e.Reserved) < 3 {
				c.Sample(func() interface{} {
					return wit{mon.Hex(e.Bytes()), shape(&e), "time " + ref.NTPInstant(e.Sec, e.Frac).Format(time.RFC3339Nano)}
				})
			}
		}
	})
	lo, hi := ref.EBPTimeRange()
	span := hi.Unix() - lo.Unix()
	subs := []int{0, 1, 2, 999999999, 999999998, 999999997, 500000000, 1953124, 1953125, 232, 233}
	c.StreamSeedless("time-boundaries", len(subs), func(i int, r *gen.Rand) {
		ns := subs[i]
		for _, sec := range []int64{lo.Unix(), lo.Unix() + 1, ref.NTPEra1.Unix() - 1, ref.NTPEra1.Unix(), ref.NTPEra1.Unix() + 1, hi.Unix() - 1, 0, 1, -1, 1700000000, 2147483647, 2147483648} {
			timeCase(c, time.Unix(sec, int64(ns)).UTC(), fmt.Sprintf("boundary/sec=%d/ns=%d", sec, ns))
			// the same instant as a time.Time of another location (an instant is an instant)
			timeCase(c, time.Unix(sec, int64(ns)).In(zones[(i+int(sec&7))%len(zones)]), fmt.Sprintf("boundary-in-a-zone/sec=%d/ns=%d", sec, ns))
		}
	})
	c.Stream("time-random", c.N(2000, 40000000), func(i int, r *gen.Rand) {
		for k := 0; k < 50; k++ {
			sec := lo.Unix() + int64(r.Uint64()%uint64(span))
			ns := r.Intn(1000000000)
			cls := "random"
			switch r.Intn(5) {
			case 0:
				ns = subs[r.Intn(len(subs))]
				cls = fmt.Sprintf("random-sec/ns=%d", ns)
			case 1:
				ns = 1000000000 - 1 - r.Intn(4)
				cls = "random-sec/last-ns"
			case 2:
				ns = (r.Intn(1<<9) * 1953125) % 1000000000 // multiples of 5^9
				cls = "random-sec/multiple-of-5^9"
			}
			era := 0
			if sec >= ref.NTPEra1.Unix() {
				era = 1
			}
			t := time.Unix(sec, int64(ns)).UTC()
			if r.Chance(3) {
				t = t.In(zones[r.Intn(len(zones))])
				cls += "/zone"
				c.Count("time.instant_given_in_another_location")
			}
			timeCase(c, t, fmt.Sprintf("%s/era=%d", cls, era))
		}
	})
}
