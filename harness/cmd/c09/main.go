// C09 — SCTE-35 encoding is canonical, CRC-correct and inverse to decoding.
package main

import (
	"bytes"
	"fmt"
	"strings"

	gots "github.com/Comcast/gots/v2"
	"github.com/Comcast/gots/v2/scte35"

	"verif/harness/internal/gen"
	"verif/harness/internal/mon"
	"verif/harness/internal/ref"
	"verif/harness/internal/s35"
)

func main() { mon.Main("C09", run) }

type wit struct {
	Shape   string   `json:"shape,omitempty"`
	Input   string   `json:"input_hex,omitempty"`
	History []string `json:"history,omitempty"`
	Got     string   `json:"library_bytes,omitempty"`
	Want    string   `json:"reference_bytes,omitempty"`
	Detail  string   `json:"detail"`
}

const m33 = s35.M33
const m40 = uint64(1)<<40 - 1

// ---------------------------------------------------------------- (a) decode -> encode

func foreignFirst(s *ref.Sig) ref.Sig {
	t := *s
	t.Descs = nil
	for _, d := range s.Descs {
		if d.Foreign {
			t.Descs = append(t.Descs, d)
		}
	}
	for _, d := range s.Descs {
		if !d.Foreign {
			t.Descs = append(t.Descs, d)
		}
	}
	return t
}

func reencode(c *mon.Ctx, r *gen.Rand) {
	s := ref.GenSig(r, true)
	if r.Chance(8) {
		s.EncAlg = byte(r.Intn(64))
	}
	sec := s.Section()
	in := s.Payload()
	if r.Chance(5) {
		rejectedFirst(c, r)
	}
	x, err := scte35.NewSCTE35(in)
	c.Eval(1)
	w := func(got []byte, d string) wit {
		return wit{Shape: s35.Shape(&s), Input: mon.Hex(in), Got: mon.Hex(got), Want: mon.Hex(sec), Detail: d}
	}
	if err != nil || x == nil {
		c.Fail("reencode:decode-error", fmt.Sprintf("a canonical section was rejected: %v", err), w(nil, ""))
		return
	}
	before := append([]byte{}, x.Data()...)
	re := x.UpdateData()
	foreignAfterSeg, seenSeg := false, false
	for _, d := range s.Descs {
		if !d.Foreign {
			seenSeg = true
		} else if seenSeg {
			foreignAfterSeg = true
		}
	}
	if foreignAfterSeg {
		c.Count("reencode.foreign_after_segmentation")
	}
	if len(re) < 4 || ref.CRC32MPEG2(re) != 0 {
		c.Fail("reencode:crc", "the CRC-32/MPEG-2 over the re-encoded section is not zero", w(re, ""))
	}
	if !bytes.Equal(re, sec) {
		alt := foreignFirst(&s)
		switch {
		case foreignAfterSeg && bytes.Equal(re, alt.Section()):
			c.Fail("reencode:foreign-descriptors-moved-first", "re-encoding a decoded section emits every non-segmentation descriptor before the segmentation descriptors, so [segmentation, foreign] is not reproduced", w(re, ""))
		default:
			d := ref.FirstDiff(re, sec)
			c.Fail("reencode:bytes/"+s35.CmdShape(&s), fmt.Sprintf("re-encoding a decoded canonical section differs at byte %d (%s)", d, s35.Shape(&s)), w(re, fmt.Sprintf("first difference at byte %d", d)))
		}
		return
	}
	if !bytes.Equal(before, sec) {
		c.Fail("reencode:data-before", "Data() of a freshly decoded signal is not the section", w(before, ""))
	}
	if again := x.UpdateData(); !bytes.Equal(again, re) || !bytes.Equal(x.Data(), re) {
		c.Fail("reencode:not-idempotent", "encoding twice gives different bytes, or Data() differs from the last encoding", w(again, ""))
	}
	_ = x.String()
	if !bytes.Equal(x.Data(), re) {
		c.Fail("reencode:string-changes-data", "String() changed the encoded bytes of an unchanged signal", w(x.Data(), ""))
	}
	// the encoding is a function of the field values: a decoded section that was not canonical (legacy
	// splice_command_length 0xFFF, a CRC_32 that is not the checksum) is serialised as the canonical one
	if r.Chance(3) {
		v := append([]byte{}, sec...)
		kind := ""
		if r.Bool() {
			kind += "cmdlen-0xfff,"
			v[11] |= 0x0f
			v[12] = 0xff
			copy(v[len(v)-4:], ref.BE32(ref.CRC32MPEG2(v[:len(v)-4])))
		}
		if kind == "" || r.Bool() {
			kind += "wrong-crc,"
			switch r.Intn(3) {
			case 0:
				copy(v[len(v)-4:], []byte{0, 0, 0, 0})
			case 1:
				v[len(v)-1-r.Intn(4)] ^= 1 << uint(r.Intn(8))
			default:
				copy(v[len(v)-4:], r.Bytes(4))
			}
		}
		c.Count("reencode.noncanonical_input/" + kind)
		if y, err := scte35.NewSCTE35(append(ref.PointerPrefix(s.Ptr), v...)); err == nil && y != nil {
			for round := 0; round < 2; round++ {
				if got := y.UpdateData(); !bytes.Equal(got, sec) {
					d := ref.FirstDiff(got, sec)
					c.Fail("reencode:noncanonical-input/"+kind, fmt.Sprintf("a decoded section that differed from the canonical one only in %s is serialised with a difference at byte %d of %d (encoding %d)", kind, d, len(sec), round+1), w(got, "input variant "+mon.Hex(v)))
					break
				}
			}
		} else if !bytes.Equal(v[len(v)-4:], sec[len(sec)-4:]) && kind == "wrong-crc," {
			c.Count("reencode.noncanonical_input_rejected")
		} else {
			c.Fail("reencode:noncanonical-input-rejected/"+kind, fmt.Sprintf("a section with %s was rejected: %v", kind, err), w(nil, mon.Hex(v)))
		}
	}
	// the bytes handed out are the caller's to scribble on: the next encoding is computed from the field values again
	if r.Chance(4) && len(re) > 8 {
		for k := 0; k < 4; k++ {
			re[len(re)-1-k] ^= byte(1 + r.Intn(255))
		}
		c.Count("reencode.after_caller_edit_of_result")
		if got := x.UpdateData(); !bytes.Equal(got, sec) {
			c.Fail("reencode:after-caller-edit-of-earlier-result", fmt.Sprintf("after the caller changed the CRC bytes of the slice an earlier UpdateData() returned, the next encoding differs from the canonical section at byte %d", ref.FirstDiff(got, sec)), w(got, ""))
		}
	}
	if len(s.Descs) > 0 || s.Cmd != 0 {
		ds := ""
		for k := range s.Descs {
			ds += s35.DescShape(&s.Descs[k]) + ","
		}
		if c.Class("reencode/"+s35.CmdShape(&s)+"|"+ds) && c.WantSample() && len(in) < 70 {
			c.Sample(func() interface{} { return w(re, "decode -> UpdateData reproduces the section") })
		}
	}
}

// ---------------------------------------------------------------- (b)+(d) build through the API

type built struct {
	c        *mon.Ctx
	r        *gen.Rand
	x        scte35.SCTE35
	m        ref.Sig // logical values; PTSAdj is derived at encode time
	adjusted uint64  // the signal's (adjusted) PTS as set
	ts       scte35.TimeSignalCommand
	ins      scte35.SpliceInsertCommand
	descs    []scte35.SegmentationDescriptor
	compH    map[int][]scte35.ComponentOffset // handles from Components(), kept across encodings
	midH     map[int][]scte35.UPID            // handles from MID(), kept across encodings
	last     []byte
	looked   bool // Data() has been looked at (or UpdateData() called) at least once: b.last is what it must still return
	hist     []string
	dead     bool
	kinds    map[string]bool
}

func (b *built) fail(sig, d string, got, want []byte) {
	b.c.Fail(sig, d, wit{Shape: s35.Shape(&b.m), History: append([]string{}, b.hist...), Got: mon.Hex(got), Want: mon.Hex(want), Detail: d})
	b.dead = true
}

func (b *built) log(f string, a ...interface{}) {
	s := fmt.Sprintf(f, a...)
	b.hist = append(b.hist, s)
	b.c.Tracef("%s", s)
}

func newBuilt(c *mon.Ctx, r *gen.Rand) *built {
	b := &built{c: c, r: r, x: scte35.CreateSCTE35(), kinds: map[string]bool{}}
	b.m = ref.Sig{TableID: 0xfc, Tier: 0xfff, Cmd: 0}
	b.log("CreateSCTE35()")
	// the starting point is stated through the API rather than assumed (defaults are the library's choice)
	b.x.SetCommandInfo(scte35.CreateSpliceNull())
	b.x.SetTier(0xfff)
	if len(b.x.Descriptors()) != 0 || r.Bool() {
		b.x.SetDescriptors(nil) // (a created signal that reports no descriptors may also keep the list it came with)
	}
	b.x.SetAdjustPTS(0)
	b.log("SetCommandInfo(CreateSpliceNull()); SetTier(0xfff); SetDescriptors(nil) unless there are none; SetAdjustPTS(0)")
	if b.x.Tier() != 0xfff || b.x.Command() != scte35.SpliceNull || len(b.x.Descriptors()) != 0 {
		b.fail("create:starting-point", "after SetCommandInfo(splice_null), SetTier(0xFFF), SetDescriptors(nil) the getters report something else", nil, nil)
	}
	if r.Bool() {
		b.dataUnchanged("creation") // the first look
	}
	return b
}

func (b *built) storedCmdPTS() uint64 {
	switch b.m.Cmd {
	case 6:
		return b.m.TSPTS
	case 5:
		return b.m.InsPTS
	}
	return 0
}

// val draws a value for a field of the given width, sometimes out of range.
func (b *built) val(width uint) uint64 {
	mask := uint64(1)<<width - 1
	switch b.r.Intn(8) {
	case 0:
		return b.r.PickU64([]uint64{0, 1, mask, mask - 1, 1 << (width - 1), 1<<(width-1) - 1})
	case 1: // out of range: must be truncated to the field width
		return b.r.Uint64()>>uint(b.r.Intn(20)) | 1<<width
	}
	return b.r.Uint64() & mask
}

func (b *built) dataUnchanged(op string) {
	if !b.looked {
		// what a created, never encoded signal hands out (nothing, or a first encoding made on demand) is the
		// library's choice; from the first look on it may change only by re-encoding
		b.last = append([]byte{}, b.x.Data()...)
		b.looked = true
		b.c.Count("created.first_look_at_data")
		return
	}
	if !bytes.Equal(b.x.Data(), b.last) {
		b.fail("data-changed-by-setter", fmt.Sprintf("Data() changed after %s without a call to UpdateData()", op), b.x.Data(), b.last)
	}
}

// presetTime: the command's own time is set before the command is attached to the signal (setters come in any
// order); 0 is a value like any other - the whole time then travels in pts_adjustment.
func (b *built) presetTime(cmd scte35.SpliceCommand) (bool, uint64) {
	if !b.r.Bool() {
		return false, 0
	}
	v := b.r.PickU64([]uint64{0, 0, 0, 1, m33, b.val(33) & m33})
	b.log("(on the new command, before it is attached) SetHasPTS(true); SetPTS(%d)", v)
	cmd.SetHasPTS(true)
	cmd.SetPTS(gots.PTS(v))
	b.c.Count("created.command_time_set_before_attaching")
	return true, v
}

func (b *built) setCommand(kind int) {
	r := b.r
	b.ts, b.ins = nil, nil
	switch kind {
	case 0:
		b.log("SetCommandInfo(CreateSpliceNull())")
		b.x.SetCommandInfo(scte35.CreateSpliceNull())
		b.m.Cmd = 0
	case 1:
		b.ts = scte35.CreateTimeSignalCommand()
		pre, pv := b.presetTime(b.ts)
		b.log("SetCommandInfo(CreateTimeSignalCommand())")
		b.x.SetCommandInfo(b.ts)
		if pre && (!b.ts.HasPTS() || uint64(b.ts.PTS()) != pv) {
			b.fail("getter:command-time-changed-by-attaching", fmt.Sprintf("a time_signal given pts_time %d before it was attached reports %d (time_specified_flag %v) after SetCommandInfo", pv, b.ts.PTS(), b.ts.HasPTS()), nil, nil)
		}
		// the field values of a freshly created command are whatever its getters report (defaults are the
		// library's choice, not the statement's)
		b.m.Cmd, b.m.TSHas, b.m.TSPTS = 6, b.ts.HasPTS(), uint64(b.ts.PTS())&m33
	default:
		b.ins = scte35.CreateSpliceInsertCommand()
		pre, pv := b.presetTime(b.ins)
		b.log("SetCommandInfo(CreateSpliceInsertCommand())")
		b.x.SetCommandInfo(b.ins)
		if pre && (!b.ins.HasPTS() || uint64(b.ins.PTS()) != pv) {
			b.fail("getter:command-time-changed-by-attaching", fmt.Sprintf("a splice_insert given pts_time %d before it was attached reports %d (time_specified_flag %v) after SetCommandInfo", pv, b.ins.PTS(), b.ins.HasPTS()), nil, nil)
		}
		m := &b.m
		m.Cmd = 5
		in := b.ins
		m.Event, m.Cancel, m.Out, m.Prog, m.HasDur, m.Imm, m.InsHas, m.InsPTS, m.AutoRet, m.Dur, m.UPID16, m.Avail, m.Avails = in.EventID(), in.IsEventCanceled(), in.IsOut(), in.IsProgramSplice(), in.HasDuration(), in.SpliceImmediate(), in.HasPTS(), uint64(in.PTS())&m33, in.IsAutoReturn(), uint64(in.Duration())&m33, in.UniqueProgramId(), in.AvailNum(), in.AvailsExpected()
		m.Comps = nil
	}
	_ = r
	if byte(b.x.Command()) != b.m.Cmd || byte(b.x.CommandInfo().CommandType()) != b.m.Cmd {
		b.fail("getter:command-type", "Command() does not report the command that was set", nil, nil)
	}
}

func (b *built) signalOp() {
	r, x, m := b.r, b.x, &b.m
	switch r.Intn(5) {
	case 0:
		v := uint16(b.val(12))
		if r.Chance(4) {
			v = uint16(r.Intn(65536))
		}
		b.log("SetTier(%#x)", v)
		x.SetTier(v)
		m.Tier = v & 0xfff
		if x.Tier() != m.Tier {
			b.fail("getter:tier", fmt.Sprintf("Tier()=%#x after SetTier(%#x)", x.Tier(), v), nil, nil)
		}
	case 1:
		v := b.val(33)
		b.log("SetPTS(%d)", v)
		x.SetPTS(gots.PTS(v))
		b.adjusted = v & m33
		switch m.Cmd {
		case 6:
			m.TSPTS = v & m33
		case 5:
			m.InsPTS = v & m33
		}
		if uint64(x.PTS()) != v&m33 {
			b.fail("getter:pts-after-SetPTS", fmt.Sprintf("PTS()=%d after SetPTS(%d); the field is 33 bits wide", x.PTS(), v), nil, nil)
		} else if m.Cmd != 0 && uint64(x.CommandInfo().PTS()) != v&m33 {
			b.fail("getter:command-pts-after-SetPTS", fmt.Sprintf("command PTS()=%d after SetPTS(%d)", x.CommandInfo().PTS(), v), nil, nil)
		}
	case 2:
		v := b.val(33)
		b.log("SetAdjustPTS(%d)", v)
		x.SetAdjustPTS(gots.PTS(v))
		b.adjusted = v & m33
		if uint64(x.PTS()) != v&m33 {
			b.fail("getter:pts-after-SetAdjustPTS", fmt.Sprintf("PTS()=%d after SetAdjustPTS(%d); the field is 33 bits wide", x.PTS(), v), nil, nil)
		}
	case 3:
		f := r.Bool()
		b.log("SetHasPTS(%v)", f)
		x.SetHasPTS(f)
		switch m.Cmd {
		case 6:
			m.TSHas = f
		case 5:
			m.InsHas = f
		}
		want := f && m.Cmd != 0
		if x.HasPTS() != want {
			b.fail("getter:has-pts-after-SetHasPTS", fmt.Sprintf("HasPTS()=%v after SetHasPTS(%v) on command %#x", x.HasPTS(), f, m.Cmd), nil, nil)
		}
		b.kinds["signal-has-pts"] = true
	default:
		n := uint(r.Intn(4))
		b.log("SetAlignmentStuffing(%d)", n)
		x.SetAlignmentStuffing(n)
		m.Stuffing = int(n)
		if x.AlignmentStuffing() != n {
			b.fail("getter:alignment-stuffing", "AlignmentStuffing() does not report the value set", nil, nil)
		}
	}
	b.kinds["signal"] = true
}

func (b *built) commandOp() {
	r, m := b.r, &b.m
	switch {
	case b.ts != nil:
		if r.Bool() {
			f := r.Bool()
			b.log("timeSignal.SetHasPTS(%v)", f)
			b.ts.SetHasPTS(f)
			m.TSHas = f
			if b.ts.HasPTS() != f || b.x.HasPTS() != f {
				b.fail("getter:time-signal-has-pts", "HasPTS() does not report the flag set on the time_signal", nil, nil)
			}
		} else {
			v := b.val(33)
			b.log("timeSignal.SetPTS(%d)", v)
			b.ts.SetPTS(gots.PTS(v))
			m.TSPTS = v & m33
			if uint64(b.ts.PTS()) != v&m33 {
				b.fail("getter:time-signal-pts", fmt.Sprintf("PTS()=%d after SetPTS(%d)", b.ts.PTS(), v), nil, nil)
			}
		}
		b.kinds["time-signal"] = true
	case b.ins != nil:
		in := b.ins
		switch r.Intn(13) {
		case 0:
			v := r.Uint32()
			b.log("insert.SetEventID(%#x)", v)
			in.SetEventID(v)
			m.Event = v
			if in.EventID() != v {
				b.fail("getter:insert-event-id", "EventID() does not report the value set", nil, nil)
			}
		case 1:
			f := r.Chance(3)
			b.log("insert.SetIsEventCanceled(%v)", f)
			in.SetIsEventCanceled(f)
			m.Cancel = f
			if in.IsEventCanceled() != f {
				b.fail("getter:insert-cancel", "IsEventCanceled() does not report the flag set", nil, nil)
			}
			b.kinds["insert-cancel"] = true
		case 2:
			f := r.Bool()
			b.log("insert.SetIsOut(%v)", f)
			in.SetIsOut(f)
			m.Out = f
			if in.IsOut() != f {
				b.fail("getter:insert-out", "IsOut() does not report the flag set", nil, nil)
			}
		case 3:
			f := r.Bool()
			b.log("insert.SetIsProgramSplice(%v)", f)
			in.SetIsProgramSplice(f)
			m.Prog = f
			if in.IsProgramSplice() != f {
				b.fail("getter:insert-program-splice", "IsProgramSplice() does not report the flag set", nil, nil)
			}
		case 4:
			f := r.Bool()
			b.log("insert.SetHasDuration(%v)", f)
			in.SetHasDuration(f)
			m.HasDur = f
			if in.HasDuration() != f {
				b.fail("getter:insert-has-duration", "HasDuration() does not report the flag set", nil, nil)
			}
		case 5:
			f := r.Bool()
			b.log("insert.SetSpliceImmediate(%v)", f)
			in.SetSpliceImmediate(f)
			m.Imm = f
			if in.SpliceImmediate() != f {
				b.fail("getter:insert-immediate", "SpliceImmediate() does not report the flag set", nil, nil)
			}
		case 6:
			f := r.Bool()
			b.log("insert.SetHasPTS(%v)", f)
			in.SetHasPTS(f)
			m.InsHas = f
			if in.HasPTS() != f {
				b.fail("getter:insert-has-pts", "HasPTS() does not report the flag set", nil, nil)
			}
		case 7:
			v := b.val(33)
			b.log("insert.SetPTS(%d)", v)
			in.SetPTS(gots.PTS(v))
			m.InsPTS = v & m33
			if uint64(in.PTS()) != v&m33 {
				b.fail("getter:insert-pts", fmt.Sprintf("PTS()=%d after SetPTS(%d)", in.PTS(), v), nil, nil)
			}
		case 8:
			v := b.val(33)
			b.log("insert.SetDuration(%d)", v)
			in.SetDuration(gots.PTS(v))
			m.Dur = v & m33
			if uint64(in.Duration()) != v&m33 {
				b.fail("getter:insert-duration", fmt.Sprintf("Duration()=%d after SetDuration(%d); break_duration is 33 bits wide", in.Duration(), v), nil, nil)
			}
		case 9:
			f := r.Bool()
			b.log("insert.SetIsAutoReturn(%v)", f)
			in.SetIsAutoReturn(f)
			m.AutoRet = f
			if in.IsAutoReturn() != f {
				b.fail("getter:insert-auto-return", "IsAutoReturn() does not report the flag set", nil, nil)
			}
		case 10:
			v := uint16(r.Intn(65536))
			b.log("insert.SetUniqueProgramId(%d)", v)
			in.SetUniqueProgramId(v)
			m.UPID16 = v
			if in.UniqueProgramId() != v {
				b.fail("getter:insert-unique-program-id", "UniqueProgramId() does not report the value set", nil, nil)
			}
		case 11:
			v := r.Byte()
			b.log("insert.SetAvailNum(%d)", v)
			in.SetAvailNum(v)
			m.Avail = v
			if in.AvailNum() != v {
				b.fail("getter:insert-avail-num", "AvailNum() does not report the value set", nil, nil)
			}
		default:
			v := r.Byte()
			b.log("insert.SetAvailsExpected(%d)", v)
			in.SetAvailsExpected(v)
			m.Avails = v
			if in.AvailsExpected() != v {
				b.fail("getter:insert-avails-expected", "AvailsExpected() does not report the value set", nil, nil)
			}
		}
		b.kinds["insert"] = true
	}
}

func (b *built) setDescriptors(n int) {
	b.descs = nil
	b.m.Descs = nil
	b.compH, b.midH = map[int][]scte35.ComponentOffset{}, map[int][]scte35.UPID{}
	for i := 0; i < n; i++ {
		d := scte35.CreateSegmentationDescriptor()
		b.descs = append(b.descs, d)
		// the field values of a freshly created descriptor are whatever its getters report
		w := ref.SegDesc{Event: d.EventID(), Cancel: d.IsEventCanceled(), ProgSeg: d.HasProgramSegmentation(), HasDur: d.HasDuration(), Dur: uint64(d.Duration()) & (1<<40 - 1),
			NotRestricted: d.IsDeliveryNotRestricted(), Web: d.IsWebDeliveryAllowed(), NoBlackout: d.HasNoRegionalBlackout(), Archive: d.IsArchiveAllowed(), DevRestr: byte(d.DeviceRestrictions()) & 3,
			UPIDType: byte(d.UPIDType()), UPID: append([]byte{}, d.UPID()...), Type: byte(d.TypeID()), Num: d.SegmentNumber(), Exp: d.SegmentsExpected(),
			HasSub: d.HasSubSegments(), SubNum: d.SubSegmentNumber(), SubExp: d.SubSegmentsExpected()}
		for _, co := range d.Components() {
			w.Comps = append(w.Comps, ref.SegComp{Tag: co.ComponentTag(), Off: uint64(co.PTSOffset()) & m33})
		}
		for _, u := range d.MID() {
			w.MID = append(w.MID, ref.UPID{Type: byte(u.UPIDType()), Data: append([]byte{}, u.UPID()...)})
		}
		b.m.Descs = append(b.m.Descs, w)
	}
	if cur := b.x.Descriptors(); len(cur) == 0 && n > 0 && b.r.Chance(3) {
		// the list is grown from the (empty) list the getter returned, the way callers add descriptors one by one
		lst := cur
		for _, d := range b.descs {
			lst = append(lst, d)
		}
		b.log("SetDescriptors(append(Descriptors(), %d fresh descriptors...))", n)
		b.x.SetDescriptors(lst)
		b.c.Count("descriptors.appended_to_the_list_the_getter_returned")
	} else {
		b.log("SetDescriptors(%d fresh descriptors)", n)
		b.x.SetDescriptors(b.descs)
	}
	if len(b.x.Descriptors()) != n {
		b.fail("getter:descriptors", "Descriptors() does not report the list set", nil, nil)
		return
	}
	for _, d := range b.descs {
		if d.SCTE35() != b.x {
			b.fail("getter:descriptor-backref", "a descriptor passed to SetDescriptors does not refer back to the signal", nil, nil)
		}
	}
}

func (b *built) descOp() {
	if len(b.descs) == 0 {
		return
	}
	r := b.r
	i := r.Intn(len(b.descs))
	d, m := b.descs[i], &b.m.Descs[i]
	p := fmt.Sprintf("desc[%d].", i)
	bad := func(name string) {
		b.fail("getter:descriptor-"+name, p+name+" getter does not report the value set", nil, nil)
	}
	if hs := b.compH[i]; len(hs) > 0 && len(hs) == len(m.Comps) && r.Chance(4) {
		// edit a component through a handle obtained earlier (possibly before the last encoding)
		j := r.Intn(len(hs))
		if r.Bool() {
			v := b.val(33)
			b.log(p+"Components()[%d] (handle kept from earlier).SetPTSOffset(%d)", j, v)
			hs[j].SetPTSOffset(gots.PTS(v))
			m.Comps[j].Off = v & m33
		} else {
			v := r.Byte()
			b.log(p+"Components()[%d] (handle kept from earlier).SetComponentTag(%d)", j, v)
			hs[j].SetComponentTag(v)
			m.Comps[j].Tag = v
		}
		if uint64(hs[j].PTSOffset()) != m.Comps[j].Off || hs[j].ComponentTag() != m.Comps[j].Tag {
			bad("component-handle")
		}
		b.kinds["component-handle"] = true
		b.c.Count("handle.component_edit")
		return
	}
	if hs := b.midH[i]; len(hs) > 0 && m.UPIDType == 0x0d && len(hs) == len(m.MID) && r.Chance(3) {
		j := r.Intn(len(hs))
		if r.Bool() {
			v := r.Bytes(r.Intn(14))
			b.log(p+"MID()[%d] (handle kept from earlier).SetUPID(%x)", j, v)
			hs[j].SetUPID(v)
			m.MID[j].Data = append([]byte{}, v...)
		} else {
			v := byte(1 + r.Intn(12))
			b.log(p+"MID()[%d] (handle kept from earlier).SetUPIDType(%d)", j, v)
			hs[j].SetUPIDType(scte35.SegUPIDType(v))
			m.MID[j].Type = v
		}
		b.kinds["mid-handle"] = true
		b.c.Count("handle.mid_edit")
		return
	}
	k := r.Intn(20)
	if m.UPIDType == 0x0d && len(b.midH[i]) == 0 && r.Chance(2) {
		k = 7 // give the MID a list
	}
	switch k {
	case 0:
		v := r.Uint32()
		b.log(p+"SetEventID(%#x)", v)
		d.SetEventID(v)
		m.Event = v
		if d.EventID() != v {
			bad("event-id")
		}
	case 1:
		v := segTypes[r.Intn(len(segTypes))]
		b.log(p+"SetTypeID(%#x)", v)
		wasPO := m.Type == 0x34 || m.Type == 0x36
		d.SetTypeID(scte35.SegDescType(v))
		m.Type = v
		switch isPO := v == 0x34 || v == 0x36; {
		case !isPO:
			// a type without sub-segment fields: the encoding has none; what the flag getter says meanwhile, and
			// whether the flag is still there when the type becomes a placement-opportunity start again, is the
			// library's choice (the flag is read back then)
			m.HasSub = false
			if byte(d.TypeID()) != v {
				bad("type-id")
			}
		case !wasPO:
			m.HasSub = d.HasSubSegments()
			if byte(d.TypeID()) != v {
				bad("type-id")
			}
		default:
			if byte(d.TypeID()) != v || d.HasSubSegments() != m.HasSub {
				bad("type-id")
			}
		}
	case 2:
		f := r.Chance(4)
		b.log(p+"SetIsEventCanceled(%v)", f)
		d.SetIsEventCanceled(f)
		m.Cancel = f
		if d.IsEventCanceled() != f {
			bad("cancel")
		}
		b.kinds["desc-cancel"] = true
	case 3:
		f := r.Bool()
		b.log(p+"SetHasDuration(%v)", f)
		d.SetHasDuration(f)
		m.HasDur = f
		if d.HasDuration() != f {
			bad("has-duration")
		}
	case 4:
		v := b.val(40)
		b.log(p+"SetDuration(%#x)", v)
		d.SetDuration(gots.PTS(v))
		m.Dur = v & m40
		if uint64(d.Duration()) != v&m40 {
			bad("duration")
		}
	case 5:
		v := r.PickByte([]byte{0, 1, 2, 3, 8, 9, 0x0c, 0x0d, 0x0d, 0x0d, 0x0d, 0x0d, 0x0e, 0x0f})
		b.log(p+"SetUPIDType(%#x)", v)
		d.SetUPIDType(scte35.SegUPIDType(v))
		m.UPIDType = v
		switch v {
		case 0x0d:
			m.UPID = nil
		case 0:
			m.UPID, m.MID = nil, nil
		default:
			m.MID = nil
		}
		if byte(d.UPIDType()) != v {
			bad("upid-type")
		}
		if v != 0x0d {
			delete(b.midH, i)
		}
		b.kinds["upid-type"] = true
	case 6:
		v := r.Bytes(r.Intn(30))
		b.log(p+"SetUPID(%x)", v)
		d.SetUPID(v)
		if m.UPIDType != 0x0d {
			m.UPID = append([]byte{}, v...)
		}
		if m.UPIDType != 0x0d && !bytes.Equal(d.UPID(), v) {
			bad("upid")
		}
		if m.UPIDType == 0x0d && len(d.UPID()) != 0 {
			bad("upid-while-mid")
		}
	case 7:
		var us []scte35.UPID
		var ms []ref.UPID
		for k := 1 + r.Intn(3); k > 0; k-- {
			u := scte35.CreateUPID()
			t, data := byte(1+r.Intn(12)), r.Bytes(r.Intn(12))
			u.SetUPIDType(scte35.SegUPIDType(t))
			u.SetUPID(data)
			if byte(u.UPIDType()) != t || !bytes.Equal(u.UPID(), data) {
				bad("mid-element")
			}
			us = append(us, u)
			ms = append(ms, ref.UPID{Type: t, Data: append([]byte{}, data...)})
		}
		if own := d.MID(); m.UPIDType == 0x0d && len(own) >= 2 && len(own) == len(m.MID) && r.Bool() {
			// the descriptor's own elements, handed back in another order (and possibly fewer of them)
			us, ms = nil, nil
			for _, k := range r.Perm(len(own))[:1+r.Intn(len(own))] {
				us = append(us, own[k])
				ms = append(ms, ref.UPID{Type: m.MID[k].Type, Data: append([]byte{}, m.MID[k].Data...)})
			}
			b.c.Count("handle.own_mid_reordered")
			b.log(p + "SetMID(own elements reordered)")
		}
		b.log(p+"SetMID(%d UPIDs)", len(us))
		d.SetMID(us)
		if m.UPIDType == 0x0d {
			m.MID = ms
			got := d.MID()
			if len(got) != len(ms) {
				bad("mid")
			} else {
				for k := range got {
					if byte(got[k].UPIDType()) != ms[k].Type || !bytes.Equal(got[k].UPID(), ms[k].Data) {
						bad("mid")
					}
				}
			}
			b.midH[i] = got
			b.kinds["mid"] = true
		} else if d.MID() != nil {
			bad("mid-while-not-mid")
		}
	case 8:
		v := r.Byte()
		b.log(p+"SetSegmentNumber(%d)", v)
		d.SetSegmentNumber(v)
		m.Num = v
		if d.SegmentNumber() != v || d.SegmentNum() != v {
			bad("segment-number")
		}
	case 9:
		v := r.Byte()
		b.log(p+"SetSegmentsExpected(%d)", v)
		d.SetSegmentsExpected(v)
		m.Exp = v
		if d.SegmentsExpected() != v {
			bad("segments-expected")
		}
	case 10:
		f := r.Bool() && (m.Type == 0x34 || m.Type == 0x36)
		if !f && m.Type != 0x34 && m.Type != 0x36 && r.Chance(3) {
			// the flag first, the type that carries the fields second (setters come in any order; no encoding
			// lies between the two calls, so "the next encoding" is one of a placement-opportunity start)
			v := r.PickByte([]byte{0x34, 0x36, 0x34, 0x36, 0x34, 0x36, 0x38, 0x3A, 0x30, 0x32, 0x3C, 0x35})
			b.log(p+"SetHasSubSegments(true); SetTypeID(%#x)", v)
			d.SetHasSubSegments(true)
			if !d.HasSubSegments() {
				bad("has-sub-segments")
			}
			d.SetTypeID(scte35.SegDescType(v))
			if v != 0x34 && v != 0x36 {
				// ... and when the type that follows is one without sub-segment fields its encoding has
				// none (what the flag getter says meanwhile is the library's choice, as after SetTypeID above)
				m.Type, m.HasSub = v, false
				if byte(d.TypeID()) != v {
					bad("type-id")
				}
				b.kinds["sub-segments-flag-then-a-type-without-them"] = true
				break
			}
			m.Type, m.HasSub = v, true
			if byte(d.TypeID()) != v || !d.HasSubSegments() {
				bad("has-sub-segments-set-before-type")
			}
			b.kinds["sub-segments"] = true
			break
		}
		b.log(p+"SetHasSubSegments(%v)", f)
		d.SetHasSubSegments(f)
		m.HasSub = f
		if d.HasSubSegments() != f {
			bad("has-sub-segments")
		}
		b.kinds["sub-segments"] = true
	case 11:
		v := r.Byte()
		b.log(p+"SetSubSegmentNumber(%d)", v)
		d.SetSubSegmentNumber(v)
		m.SubNum = v
		if d.SubSegmentNumber() != v {
			bad("sub-segment-number")
		}
	case 12:
		v := r.Byte()
		b.log(p+"SetSubSegmentsExpected(%d)", v)
		d.SetSubSegmentsExpected(v)
		m.SubExp = v
		if d.SubSegmentsExpected() != v {
			bad("sub-segments-expected")
		}
	case 13:
		f := r.Bool()
		b.log(p+"SetHasProgramSegmentation(%v)", f)
		d.SetHasProgramSegmentation(f)
		m.ProgSeg = f
		if d.HasProgramSegmentation() != f {
			bad("program-segmentation")
		}
	case 14:
		f := r.Bool()
		b.log(p+"SetIsDeliveryNotRestricted(%v)", f)
		d.SetIsDeliveryNotRestricted(f)
		m.NotRestricted = f
		if d.IsDeliveryNotRestricted() != f {
			bad("delivery-not-restricted")
		}
	case 15:
		f := r.Bool()
		b.log(p+"SetIsWebDeliveryAllowed(%v)", f)
		d.SetIsWebDeliveryAllowed(f)
		m.Web = f
		if d.IsWebDeliveryAllowed() != f {
			bad("web-delivery")
		}
	case 16:
		f := r.Bool()
		b.log(p+"SetHasNoRegionalBlackout(%v)", f)
		d.SetHasNoRegionalBlackout(f)
		m.NoBlackout = f
		if d.HasNoRegionalBlackout() != f {
			bad("no-regional-blackout")
		}
	case 17:
		f := r.Bool()
		b.log(p+"SetIsArchiveAllowed(%v)", f)
		d.SetIsArchiveAllowed(f)
		m.Archive = f
		if d.IsArchiveAllowed() != f {
			bad("archive-allowed")
		}
	case 18:
		v := byte(r.Intn(4))
		b.log(p+"SetDeviceRestrictions(%d)", v)
		d.SetDeviceRestrictions(scte35.DeviceRestrictions(v))
		m.DevRestr = v
		if byte(d.DeviceRestrictions()) != v {
			bad("device-restrictions")
		}
	default:
		var cs []scte35.ComponentOffset
		var ms []ref.SegComp
		nc := r.Intn(4)
		if r.Chance(6) {
			nc = 8 + r.Intn(14) // long component lists: the descriptor outgrows any small fixed buffer
		}
		for k := nc; k > 0; k-- {
			co := scte35.CreateComponentOffset()
			t, off := r.Byte(), b.val(33)
			co.SetComponentTag(t)
			co.SetPTSOffset(gots.PTS(off))
			if co.ComponentTag() != t {
				bad("component-tag")
			}
			if uint64(co.PTSOffset()) != off&m33 {
				b.fail("getter:component-pts-offset", fmt.Sprintf("PTSOffset()=%d after SetPTSOffset(%d); pts_offset is 33 bits wide", co.PTSOffset(), off), nil, nil)
			}
			cs = append(cs, co)
			ms = append(ms, ref.SegComp{Tag: t, Off: off & m33})
		}
		if own := d.Components(); len(own) >= 2 && len(own) == len(m.Comps) && r.Bool() {
			// the descriptor's own components, handed back in another order (and possibly fewer of them)
			cs, ms = nil, nil
			for _, k := range r.Perm(len(own))[:1+r.Intn(len(own))] {
				cs = append(cs, own[k])
				ms = append(ms, m.Comps[k])
			}
			b.c.Count("handle.own_components_reordered")
			b.log(p + "SetComponents(own components reordered)")
		}
		b.log(p+"SetComponents(%d components)", len(cs))
		d.SetComponents(cs)
		m.Comps = ms
		got := d.Components()
		if len(got) != len(ms) {
			bad("components")
		}
		b.compH[i] = got
		b.kinds["components"] = true
	}
	b.kinds["descriptor"] = true
}

var segTypes = []byte{0x00, 0x01, 0x10, 0x11, 0x13, 0x14, 0x20, 0x22, 0x30, 0x31, 0x34, 0x34, 0x35, 0x36, 0x36, 0x37, 0x38, 0x39, 0x3A, 0x3B, 0x3C, 0x3D, 0x32, 0x33, 0x24, 0x26, 0x40, 0x42, 0x44, 0x50, 0x51, 0xAA}

// decodable: the logical values lie in the syntax the decoder supports.
func decodable(m *ref.Sig) bool {
	switch m.Cmd {
	case 6:
		return m.TSHas
	case 5:
		return m.Cancel || !(m.Prog && !m.Imm) || m.InsHas
	}
	return true
}

// checkpoint encodes and compares with the reference encoding of the logical values.
func (b *built) checkpoint(viaString bool) {
	if b.dead {
		return
	}
	m := b.m
	m.PTSAdj = (b.adjusted - b.storedCmdPTS()) & m33
	want := m.Section()
	var got []byte
	if viaString {
		b.log("String()")
		prev := append([]byte{}, b.x.Data()...)
		_ = b.x.String()
		got = b.x.Data()
		if bytes.Equal(got, prev) && !bytes.Equal(got, want) {
			// String() did not re-encode the signal: the raw-data accessor may then not change, and it did not
			b.c.Count("string_left_data_alone")
			return
		}
	} else {
		b.log("UpdateData()")
		got = b.x.UpdateData()
		if !bytes.Equal(b.x.Data(), got) {
			b.fail("encode:data-differs-from-updatedata", "Data() does not return the bytes UpdateData() just produced", b.x.Data(), got)
			return
		}
	}
	b.c.Eval(1)
	b.last = append([]byte{}, got...)
	b.looked = true
	if len(got) < 4 || ref.CRC32MPEG2(got) != 0 {
		b.fail("encode:crc", "the CRC-32/MPEG-2 over the encoded section is not zero", got, want)
		return
	}
	cmp, cmpWant := got, want
	hasTime, _ := m.CommandHasTime()
	if !hasTime && b.storedCmdPTS() != 0 && len(got) == len(want) && len(got) > 12 {
		// the command stores a time it does not encode: pts_adjustment is not determined by the logical values; mask it and the CRC
		cmp, cmpWant = append([]byte{}, got...), append([]byte{}, want...)
		for _, s := range [][]byte{cmp, cmpWant} {
			s[4] &^= 1
			s[5], s[6], s[7], s[8] = 0, 0, 0, 0
			copy(s[len(s)-4:], []byte{0, 0, 0, 0})
		}
	}
	if m.Stuffing > 0 && len(got) == len(want) && len(got) >= 4+m.Stuffing {
		// the values of the alignment_stuffing bytes are the encoder's choice (the statement fixes their number through
		// section_length and the zero checksum, checked above): they and the CRC_32 field are masked
		if &cmp[0] == &got[0] {
			cmp, cmpWant = append([]byte{}, got...), append([]byte{}, want...)
		}
		for _, s := range [][]byte{cmp, cmpWant} {
			for k := len(s) - 4 - m.Stuffing; k < len(s); k++ {
				s[k] = 0
			}
		}
		b.c.Count("encode.alignment_stuffing_values_masked")
	}
	if !bytes.Equal(cmp, cmpWant) {
		d := ref.FirstDiff(cmp, cmpWant)
		where := "descriptor loop"
		cmdEnd := 14 + len(m.CmdBytes())
		switch {
		case d < 3:
			where = "table header / section_length"
		case d < 14:
			where = "fixed fields"
		case d < cmdEnd:
			where = "splice command"
		case d < cmdEnd+2:
			where = "descriptor_loop_length"
		case d >= len(want)-4:
			where = "CRC_32"
		}
		b.fail("encode:bytes/"+where+"/"+s35.CmdShape(&m), fmt.Sprintf("the encoding of an object built through the API differs from the reference encoding of its field values at byte %d (%s)", d, where), got, want)
		return
	}
	if !decodable(&m) {
		b.kinds["not-decodable"] = true
		return
	}
	if m.Stuffing != 0 {
		return // the decoder cannot recover alignment stuffing; bytes were compared above
	}
	in := append([]byte{0}, got...)
	y, err := scte35.NewSCTE35(in)
	if err != nil || y == nil {
		b.fail("roundtrip:decode-error/"+s35.CmdShape(&m), fmt.Sprintf("the library cannot decode the section it encoded: %v", err), got, want)
		return
	}
	if !s35.CheckDecoded(b.c, "roundtrip", &m, y, in) {
		b.dead = true
		return
	}
	if re := y.UpdateData(); !bytes.Equal(re, got) {
		b.fail("roundtrip:reencode-differs", "decoding the encoded section and encoding again gives different bytes", re, got)
		return
	}
	// the bytes returned by this encoding stay what they are when another signal is encoded afterwards
	o := scte35.CreateSCTE35()
	ts := scte35.CreateTimeSignalCommand()
	ts.SetHasPTS(true)
	ts.SetPTS(gots.PTS(b.r.U33()))
	o.SetCommandInfo(ts)
	od := scte35.CreateSegmentationDescriptor()
	od.SetUPIDType(0x0c)
	od.SetUPID(b.r.Bytes(len(got) % 60))
	o.SetDescriptors([]scte35.SegmentationDescriptor{od})
	o.UpdateData()
	if !bytes.Equal(got, b.last) || !bytes.Equal(b.x.Data(), b.last) {
		b.fail("encode:earlier-result-changed", "bytes returned by UpdateData() / Data() changed when another signal was encoded afterwards", got, b.last)
	}
}

// the signal the previous history built, and the section it last encoded to
var (
	prevSig  scte35.SCTE35
	prevWant []byte
)

func history(c *mon.Ctx, r *gen.Rand) {
	b := newBuilt(c, r)
	n := 5 + r.Intn(36)
	for i := 0; i < n && !b.dead; i++ {
		prev := len(b.hist)
		switch k := r.Intn(20); {
		case k < 3:
			b.signalOp()
		case k < 5:
			b.setCommand(r.Intn(3))
		case k < 10:
			b.commandOp()
		case k < 12:
			b.setDescriptors(r.Intn(4))
		case k < 18:
			b.descOp()
		case k == 18:
			b.checkpoint(r.Chance(4))
			continue
		default:
			b.signalOp()
		}
		c.Eval(1)
		if len(b.hist) > prev && !b.dead {
			b.dataUnchanged(b.hist[len(b.hist)-1])
		}
	}
	b.checkpoint(false)
	// the signal built by the previous history has not been touched since its last encoding: it still encodes to
	// the same section, whatever was created, filled and encoded in between
	if prevSig != nil {
		c.Count("earlier_signal_encoded_again")
		if re := prevSig.UpdateData(); !bytes.Equal(re, prevWant) {
			c.Fail("encode:earlier-signal-changed-by-another-signal", fmt.Sprintf("a signal built through the API encoded to one section; after another signal was created, filled and encoded, the untouched first signal encodes differently (first difference at byte %d of %d / %d)", ref.FirstDiff(re, prevWant), len(re), len(prevWant)),
				wit{Shape: s35.Shape(&b.m), History: b.hist, Got: mon.Hex(re), Want: mon.Hex(prevWant), Detail: "the history shown is the one of the signal built in between"})
		}
		prevSig = nil
	}
	if !b.dead && b.looked {
		prevSig, prevWant = b.x, append([]byte{}, b.last...)
	}
	if !b.dead && len(b.kinds) >= 2 {
		cls := "history/" + s35.CmdShape(&b.m) + "/"
		for _, k := range s35.SortedKeys(toInt(b.kinds)) {
			cls += k + "+"
		}
		if c.Class(cls) && c.WantSample() && len(b.hist) < 16 && len(b.m.Descs) > 0 {
			c.Sample(func() interface{} {
				return wit{Shape: s35.Shape(&b.m), History: b.hist, Got: mon.Hex(b.last), Detail: "setter history, encoded, compared with the reference and decoded again"}
			})
		}
	}
}

func toInt(m map[string]bool) map[string]int {
	o := map[string]int{}
	for k := range m {
		o[k] = 1
	}
	return o
}

// builtFrom builds a generated signal in natural order through the API.
func builtFrom(c *mon.Ctx, r *gen.Rand) {
	s := ref.GenSig(r, false)
	s.Ptr, s.CW, s.EncAlg = 0, 0, 0
	s.Comps = nil
	x := scte35.CreateSCTE35()
	x.SetTier(s.Tier)
	base := uint64(0)
	switch s.Cmd {
	case 6:
		cm := scte35.CreateTimeSignalCommand()
		cm.SetHasPTS(true)
		cm.SetPTS(gots.PTS(s.TSPTS))
		x.SetCommandInfo(cm)
		base = s.TSPTS
	case 5:
		cm := scte35.CreateSpliceInsertCommand()
		cm.SetEventID(s.Event)
		cm.SetIsEventCanceled(s.Cancel)
		cm.SetIsOut(s.Out)
		cm.SetIsProgramSplice(s.Prog)
		cm.SetHasDuration(s.HasDur)
		cm.SetSpliceImmediate(s.Imm)
		if s.Prog && !s.Imm && !s.Cancel {
			cm.SetHasPTS(true)
			cm.SetPTS(gots.PTS(s.InsPTS))
			base = s.InsPTS
		}
		cm.SetIsAutoReturn(s.AutoRet)
		cm.SetDuration(gots.PTS(s.Dur))
		cm.SetUniqueProgramId(s.UPID16)
		cm.SetAvailNum(s.Avail)
		cm.SetAvailsExpected(s.Avails)
		x.SetCommandInfo(cm)
	default:
		x.SetCommandInfo(scte35.CreateSpliceNull())
	}
	x.SetAdjustPTS(gots.PTS((base + s.PTSAdj) & m33))
	var ds []scte35.SegmentationDescriptor
	for i := range s.Descs {
		w := &s.Descs[i]
		d := scte35.CreateSegmentationDescriptor()
		d.SetEventID(w.Event)
		d.SetIsEventCanceled(w.Cancel)
		d.SetHasProgramSegmentation(w.ProgSeg)
		d.SetHasDuration(w.HasDur)
		d.SetIsDeliveryNotRestricted(w.NotRestricted)
		d.SetIsWebDeliveryAllowed(w.Web)
		d.SetHasNoRegionalBlackout(w.NoBlackout)
		d.SetIsArchiveAllowed(w.Archive)
		d.SetDeviceRestrictions(scte35.DeviceRestrictions(w.DevRestr))
		var cs []scte35.ComponentOffset
		for _, cp := range w.Comps {
			co := scte35.CreateComponentOffset()
			co.SetComponentTag(cp.Tag)
			co.SetPTSOffset(gots.PTS(cp.Off))
			cs = append(cs, co)
		}
		d.SetComponents(cs)
		d.SetDuration(gots.PTS(w.Dur))
		d.SetUPIDType(scte35.SegUPIDType(w.UPIDType))
		if w.UPIDType == 0x0d {
			var ms []scte35.UPID
			for _, u := range w.MID {
				uu := scte35.CreateUPID()
				uu.SetUPIDType(scte35.SegUPIDType(u.Type))
				uu.SetUPID(u.Data)
				ms = append(ms, uu)
			}
			d.SetMID(ms)
		} else {
			d.SetUPID(w.UPID)
		}
		d.SetTypeID(scte35.SegDescType(w.Type))
		d.SetSegmentNumber(w.Num)
		d.SetSegmentsExpected(w.Exp)
		d.SetHasSubSegments(w.HasSub)
		d.SetSubSegmentNumber(w.SubNum)
		d.SetSubSegmentsExpected(w.SubExp)
		ds = append(ds, d)
	}
	x.SetDescriptors(ds)
	got := x.UpdateData()
	want := s.Section()
	c.Eval(1)
	if !bytes.Equal(got, want) {
		d := ref.FirstDiff(got, want)
		c.Fail("built:bytes/"+s35.CmdShape(&s), fmt.Sprintf("an object built through the creation/setter API encodes differently from the reference encoding of the same field values (first difference at byte %d; %s)", d, s35.Shape(&s)),
			wit{Shape: s35.Shape(&s), Got: mon.Hex(got), Want: mon.Hex(want), Detail: fmt.Sprintf("first difference at byte %d", d)})
		return
	}
	if ref.CRC32MPEG2(got) != 0 {
		c.Fail("built:crc", "CRC residue of a built section is not zero", wit{Got: mon.Hex(got)})
	}
	y, err := scte35.NewSCTE35(append([]byte{0}, got...))
	if err != nil {
		c.Fail("built:decode-error/"+s35.CmdShape(&s), fmt.Sprintf("the library cannot decode the section it encoded: %v (%s)", err, s35.Shape(&s)), wit{Shape: s35.Shape(&s), Got: mon.Hex(got)})
		return
	}
	s35.CheckDecoded(c, "built-roundtrip", &s, y, append([]byte{0}, got...))
	ds2 := ""
	for k := range s.Descs {
		ds2 += s35.DescShape(&s.Descs[k]) + ","
	}
	c.Class("built/" + s35.CmdShape(&s) + "|" + ds2)
}

// large builds sections longer than 1023 bytes (section_length is a 12-bit field in SCTE 35).
func large(c *mon.Ctx, r *gen.Rand) {
	s := ref.Sig{TableID: 0xfc, Tier: 0xfff, Cmd: 6, TSHas: true, TSPTS: r.U33()}
	x := scte35.CreateSCTE35()
	cm := scte35.CreateTimeSignalCommand()
	cm.SetHasPTS(true)
	cm.SetPTS(gots.PTS(s.TSPTS))
	x.SetCommandInfo(cm)
	x.SetAdjustPTS(gots.PTS(s.TSPTS))
	var ds []scte35.SegmentationDescriptor
	for i := 4 + r.Intn(8); i > 0; i-- {
		w := ref.SegDesc{Event: r.Uint32(), ProgSeg: true, NotRestricted: true, UPIDType: 0x0c, UPID: r.Bytes(150 + r.Intn(90)), Type: 0x10, Num: 1, Exp: 1}
		d := scte35.CreateSegmentationDescriptor()
		d.SetEventID(w.Event)
		d.SetHasProgramSegmentation(true)
		d.SetIsDeliveryNotRestricted(true)
		d.SetUPIDType(0x0c)
		d.SetUPID(w.UPID)
		d.SetTypeID(0x10)
		d.SetSegmentNumber(1)
		d.SetSegmentsExpected(1)
		ds = append(ds, d)
		s.Descs = append(s.Descs, w)
	}
	x.SetDescriptors(ds)
	got, want := x.UpdateData(), s.Section()
	c.Eval(1)
	c.Count("large.sections")
	if !bytes.Equal(got, want) {
		d := ref.FirstDiff(got, want)
		sig := "large:bytes"
		if d == 1 {
			sig = "large:section_length-truncated-to-10-bits"
		}
		c.Fail(sig, fmt.Sprintf("a %d-byte section encodes differently from the reference at byte %d (section_length is a 12-bit field: got %#02x %#02x, want %#02x %#02x)", len(want), d, got[1], got[2], want[1], want[2]),
			wit{Shape: fmt.Sprintf("time_signal with %d descriptors, section of %d bytes", len(ds), len(want)), Detail: fmt.Sprintf("header got %x want %x", got[:3], want[:3])})
		return
	}
	c.Class(fmt.Sprintf("large/len=%d", len(want)/256))
}

// rejectedFirst decodes a section that is rejected late in the parse (after foreign and segmentation
// descriptors were read): what the failed call left behind must not show in the next decode / encode.
func rejectedFirst(c *mon.Ctx, r *gen.Rand) {
	t := ref.GenSig(r, true)
	for k := 1 + r.Intn(3); k > 0; k-- {
		t.Descs = append(t.Descs, ref.SegDesc{Foreign: true, Tag: r.PickByte([]byte{0x00, 0x01, 0x03, 0x80}), Body: append([]byte("CUEI"), r.Bytes(r.Intn(9))...)})
		t.Descs = append(t.Descs, ref.GenSegDesc(r, false))
	}
	switch r.Intn(3) {
	case 0:
		bad := ref.GenSegDesc(r, false)
		bad.BadID = true
		t.Descs = append(t.Descs, bad)
	case 1:
		p := t.Payload()
		if _, err := scte35.NewSCTE35(p[:len(p)-5-r.Intn(20)]); err != nil {
			c.Count("reencode.after_rejected_section")
		}
		return
	default:
		t.Descs = append(t.Descs, ref.SegDesc{Foreign: true, Tag: 0x02, Body: r.Bytes(r.Intn(8))}) // a tag-2 descriptor too short to be one
	}
	if _, err := scte35.NewSCTE35(t.Payload()); err != nil {
		c.Count("reencode.after_rejected_section")
	}
}

// ---------------------------------------------------------------- (e) a decoded signal edited through its descriptors

// decodedEdit decodes a canonical section and changes field values through the decoded descriptors,
// without touching the signal: Data() stays the decoded section until the next encoding, the other
// descriptors keep their values, and the next encoding is the canonical section of the new values.
func decodedEdit(c *mon.Ctx, r *gen.Rand) {
	s := ref.GenSig(r, true)
	for len(s.SegDescs()) < 2 || r.Chance(3) && len(s.Descs) < 6 {
		s.Descs = append(s.Descs, ref.GenSegDesc(r, false))
	}
	sec := s.Section()
	in := s.Payload()
	snap := append([]byte{}, in...)
	x, err := scte35.NewSCTE35(in)
	c.Eval(1)
	w := func(got []byte, d string) wit {
		return wit{Shape: s35.Shape(&s), Input: mon.Hex(snap), Got: mon.Hex(got), Want: mon.Hex(sec), Detail: d}
	}
	if err != nil || x == nil {
		c.Fail("decoded-edit:decode-error", fmt.Sprintf("a canonical section was rejected: %v", err), w(nil, ""))
		return
	}
	ds, ms := x.Descriptors(), s.SegDescs()
	if len(ds) != len(ms) {
		return // reported by C08
	}
	// two signals decoded from the same bytes are two signals: editing one through the handles its
	// descriptors hand out does not show in the other
	if r.Chance(3) {
		y, err := scte35.NewSCTE35(append([]byte{}, snap...))
		if err == nil && y != nil {
			touched := false
			for _, d := range y.Descriptors() {
				for _, cp := range d.Components() {
					cp.SetPTSOffset(cp.PTSOffset() ^ 0x0f0f0f0f)
					cp.SetComponentTag(cp.ComponentTag() + 1)
					touched = true
				}
				for _, u := range d.MID() {
					u.SetUPID(append([]byte("x"), u.UPID()...))
					touched = true
				}
			}
			if touched {
				c.Count("decoded_edit.twin_edited_through_handles")
				z, err := scte35.NewSCTE35(append([]byte{}, snap...))
				if err != nil || z == nil {
					c.Fail("decoded-edit:third-decode-error", fmt.Sprintf("the same bytes were rejected when decoded a third time: %v", err), w(nil, ""))
					return
				}
				for name, sig := range map[string]scte35.SCTE35{"decoded before": x, "decoded after": z} {
					if got := sig.UpdateData(); !bytes.Equal(got, sec) {
						c.Fail("decoded-edit:twin-shows-the-other-signals-edits", fmt.Sprintf("a second signal decoded from the same bytes was edited through the handles of its descriptors' components / MID elements; the signal %s the edit now encodes differently from the section at byte %d", name, ref.FirstDiff(got, sec)), w(got, name))
						return
					}
				}
			}
		}
	}
	var edits []string
	for n := 1 + r.Intn(3); n > 0; n-- {
		k := r.Intn(len(ds))
		d, m := ds[k], ms[k]
		switch r.Intn(4) {
		case 0, 1:
			if m.Cancel || m.UPIDType == 0 || m.UPIDType == 0x0d {
				continue
			}
			v := r.Bytes(r.PickInt([]int{0, 1, len(m.UPID), len(m.UPID) + 1, len(m.UPID) + 17, len(m.UPID) + 40, r.Intn(60)}))
			keep := m.UPID
			if m.UPID = v; len(m.Enc())-2 > 255 {
				m.UPID = keep
				continue
			}
			d.SetUPID(v)
			edits = append(edits, fmt.Sprintf("descriptor %d SetUPID(%d bytes, was %d)", k, len(v), len(keep)))
		case 2:
			m.Event = r.Uint32()
			d.SetEventID(m.Event)
			edits = append(edits, fmt.Sprintf("descriptor %d SetEventID", k))
		default:
			if m.Cancel {
				continue
			}
			m.Num, m.Exp = r.Byte(), r.Byte()
			d.SetSegmentNumber(m.Num)
			d.SetSegmentsExpected(m.Exp)
			edits = append(edits, fmt.Sprintf("descriptor %d SetSegmentNumber/SetSegmentsExpected", k))
		}
	}
	if len(edits) == 0 {
		return
	}
	c.Count("decoded_edit.cases")
	hist := strings.Join(edits, "; ")
	if !bytes.Equal(x.Data(), sec) {
		c.Fail("decoded-edit:data-changed-before-reencoding", "Data() of a decoded signal changed when a descriptor setter was called, before any re-encoding ("+hist+")", w(x.Data(), hist))
		return
	}
	for k, d := range ds {
		m := ms[k]
		if m.Cancel {
			continue
		}
		if m.UPIDType != 0x0d && !bytes.Equal(d.UPID(), m.UPID) {
			c.Fail("decoded-edit:other-descriptor-upid", fmt.Sprintf("descriptor %d reports UPID %x, its value is %x (%s)", k, d.UPID(), m.UPID, hist), w(nil, hist))
			return
		}
		if m.UPIDType == 0x0d {
			mid := d.MID()
			for j := range m.MID {
				if j >= len(mid) || !bytes.Equal(mid[j].UPID(), m.MID[j].Data) || byte(mid[j].UPIDType()) != m.MID[j].Type {
					c.Fail("decoded-edit:other-descriptor-mid", fmt.Sprintf("descriptor %d: MID element %d changed (%s)", k, j, hist), w(nil, hist))
					return
				}
			}
		}
	}
	// a second signal decoded from the very same buffer is not re-encoded: its Data() stays the section
	// whatever the first signal's descriptors and encoder do
	sharer, _ := scte35.NewSCTE35(in)
	for _, d := range ds {
		_ = d.Data()
	}
	want := s.Section()
	got := x.UpdateData()
	if sharer != nil && !bytes.Equal(sharer.Data(), sec) {
		c.Fail("decoded-edit:other-signal-on-the-same-buffer-changed", "two signals were decoded from one buffer; after "+hist+" and an encoding of the first, Data() of the second (which was not re-encoded) is no longer the section", w(sharer.Data(), hist))
		return
	}
	if !bytes.Equal(got, want) {
		c.Fail("decoded-edit:bytes", fmt.Sprintf("after %s the next encoding differs from the canonical section of the new values at byte %d", hist, ref.FirstDiff(got, want)), wit{Shape: s35.Shape(&s), Input: mon.Hex(snap), Got: mon.Hex(got), Want: mon.Hex(want), Detail: hist})
		return
	}
	c.Class(fmt.Sprintf("decoded-edit/%d-edits/descs=%d", len(edits), len(ds)))
}

// ownHandles hands a descriptor's own MID elements / components back to it in another order.
func ownHandles(c *mon.Ctx, r *gen.Rand) {
	s := ref.Sig{TableID: 0xfc, Tier: 0xfff, Cmd: 6, TSHas: true, TSPTS: r.U33()}
	x := scte35.CreateSCTE35()
	cm := scte35.CreateTimeSignalCommand()
	cm.SetHasPTS(true)
	cm.SetPTS(gots.PTS(s.TSPTS))
	x.SetCommandInfo(cm)
	x.SetAdjustPTS(gots.PTS(s.TSPTS))
	w := ref.SegDesc{Event: r.Uint32(), ProgSeg: false, NotRestricted: true, UPIDType: 0x0d, Type: 0x10, Num: 1, Exp: 1}
	d := scte35.CreateSegmentationDescriptor()
	d.SetEventID(w.Event)
	d.SetHasProgramSegmentation(false)
	d.SetIsDeliveryNotRestricted(true)
	d.SetTypeID(0x10)
	d.SetSegmentNumber(1)
	d.SetSegmentsExpected(1)
	d.SetUPIDType(0x0d)
	var us []scte35.UPID
	for k := 2 + r.Intn(4); k > 0; k-- {
		u := scte35.CreateUPID()
		t, data := byte(1+r.Intn(12)), r.Bytes(1+r.Intn(10))
		u.SetUPIDType(scte35.SegUPIDType(t))
		u.SetUPID(data)
		us = append(us, u)
		w.MID = append(w.MID, ref.UPID{Type: t, Data: data})
	}
	d.SetMID(us)
	var cs []scte35.ComponentOffset
	for k := 2 + r.Intn(4); k > 0; k-- {
		co := scte35.CreateComponentOffset()
		t, off := r.Byte(), r.U33()
		co.SetComponentTag(t)
		co.SetPTSOffset(gots.PTS(off))
		cs = append(cs, co)
		w.Comps = append(w.Comps, ref.SegComp{Tag: t, Off: off})
	}
	d.SetComponents(cs)
	x.SetDescriptors([]scte35.SegmentationDescriptor{d})
	s.Descs = []ref.SegDesc{w}
	c.Eval(1)
	if got, want := x.UpdateData(), s.Section(); !bytes.Equal(got, want) {
		c.Fail("own-handles:first-encoding", fmt.Sprintf("the first encoding differs from the reference at byte %d", ref.FirstDiff(got, want)), wit{Shape: s35.Shape(&s), Got: mon.Hex(got), Want: mon.Hex(want)})
		return
	}
	hist := ""
	for round := 0; round < 2; round++ {
		m := &s.Descs[0]
		if r.Bool() {
			own := d.MID()
			if len(own) != len(m.MID) {
				return
			}
			var nu []scte35.UPID
			var nm []ref.UPID
			perm := r.Perm(len(own))[:1+r.Intn(len(own))]
			for _, k := range perm {
				nu = append(nu, own[k])
				nm = append(nm, m.MID[k])
			}
			d.SetMID(nu)
			m.MID = nm
			hist += fmt.Sprintf("SetMID(own elements in order %v); ", perm)
			c.Count("handle.own_mid_reordered")
		} else {
			own := d.Components()
			if len(own) != len(m.Comps) {
				return
			}
			var nc []scte35.ComponentOffset
			var nm []ref.SegComp
			perm := r.Perm(len(own))[:1+r.Intn(len(own))]
			for _, k := range perm {
				nc = append(nc, own[k])
				nm = append(nm, m.Comps[k])
			}
			d.SetComponents(nc)
			m.Comps = nm
			hist += fmt.Sprintf("SetComponents(own components in order %v); ", perm)
			c.Count("handle.own_components_reordered")
		}
		if got, want := x.UpdateData(), s.Section(); !bytes.Equal(got, want) {
			c.Fail("own-handles:bytes", fmt.Sprintf("after %sthe encoding differs from the reference at byte %d", hist, ref.FirstDiff(got, want)), wit{Shape: s35.Shape(&s), Got: mon.Hex(got), Want: mon.Hex(want), Detail: hist})
			return
		}
	}
	c.Class("own-handles/" + fmt.Sprint(len(s.Descs[0].MID), len(s.Descs[0].Comps)))
}

func run(c *mon.Ctx) {
	c.Rule("(a) canonical sections from the reference encoder (incl. foreign descriptors, cw_index, component lists) decoded and re-encoded; (b) the same field values built through Create*/Set* and encoded; (d) random histories of 5..40 setter calls (set, overwrite, clear, out-of-range values, command and descriptor replacement) with a reference encoding of the final logical values at every UpdateData()/String() checkpoint, decoded again and compared getter by getter; (f) sections longer than 1023 bytes. distinct non-trivial = distinct (stream, command shape, descriptor shapes / kinds of setters used) with at least one descriptor or a non-null command")
	c.Assume("API gaps: cw_index, encryption_algorithm, foreign descriptors and splice_insert component lists cannot be set through the API and are covered by (a) only. Domain restrictions (DESIGN section 3): SetHasSubSegments(true) only on types 0x34/0x36 or directly followed by SetTypeID(0x34/0x36); device restrictions in 0..3; when a command stores a time that it does not encode, pts_adjustment is masked in the byte comparison; delivery sub-flags, durations, components and sub-segment numbers are compared after decoding only where their governing flag makes them present")
	c.Floor("reencode.foreign_after_segmentation", 50)
	c.Floor("large.sections", 20)
	c.Floor("reencode.noncanonical_input/cmdlen-0xfff,", 500)
	c.Floor("reencode.noncanonical_input/wrong-crc,", 500)
	c.Floor("reencode.after_caller_edit_of_result", 500)
	c.Floor("handle.component_edit", 100)
	c.Floor("handle.mid_edit", 40)
	// decoding and encoding are functions of their arguments whoever else is doing the same at that moment
	c.Floor("concurrent.calls", 5000)
	c.Stream("concurrent-codecs", c.N(8, 200), func(i int, r *gen.Rand) {
		c.Concurrent("scte35.NewSCTE35 + UpdateData", 8, 2000, r, func(q *gen.Rand) string {
			s := ref.GenSig(q, true)
			sec := s.Section()
			x, err := scte35.NewSCTE35(s.Payload())
			if err != nil || x == nil {
				return fmt.Sprintf("a canonical section was rejected: %v", err)
			}
			if q.Bool() {
				// an edit that keeps the length, then the encoding of the new values
				s.Tier = uint16(q.Intn(4096))
				x.SetTier(s.Tier)
				sec = s.Section()
			}
			if got := x.UpdateData(); !bytes.Equal(got, sec) {
				return fmt.Sprintf("the encoding differs from the canonical section at byte %d of %d (%s)", ref.FirstDiff(got, sec), len(sec), s35.Shape(&s))
			}
			return ""
		})
		c.Class("concurrent-codecs")
	})
	c.Stream("reencode", c.N(30000, 15000000), func(i int, r *gen.Rand) { reencode(c, r) })
	c.Stream("built", c.N(20000, 10000000), func(i int, r *gen.Rand) { builtFrom(c, r) })
	c.Stream("histories", c.N(20000, 10000000), func(i int, r *gen.Rand) { history(c, r) })
	c.Stream("large", c.N(100, 20000), func(i int, r *gen.Rand) { large(c, r) })
	c.Stream("own-handles", c.N(1500, 600000), func(i int, r *gen.Rand) { ownHandles(c, r) })
	c.Floor("decoded_edit.cases", 3000)
	c.Floor("decoded_edit.twin_edited_through_handles", 300)
	c.Floor("reencode.after_rejected_section", 1000)
	c.Floor("handle.own_mid_reordered", 500)
	c.Floor("handle.own_components_reordered", 500)
	c.Stream("decoded-edit", c.N(8000, 4000000), func(i int, r *gen.Rand) { decodedEdit(c, r) })
	// a decoded splice_insert in component splice mode (components only come from decoding), with timed components,
	// then flags and values of the command are changed: the next encoding is the canonical section of the new
	// values - a component's splice_time() is there exactly when splice_immediate_flag is 0
	c.Floor("decoded_component_insert.made_immediate", 100)
	c.Stream("decoded-component-insert-edited", c.N(1500, 300000), func(i int, r *gen.Rand) {
		s := ref.GenSig(r, false)
		s.Cmd, s.Cancel, s.Prog, s.Imm = 0x05, false, false, false
		s.Ptr, s.CW, s.EncAlg = 0, 0, 0
		s.Comps = nil
		for k := 1 + r.Intn(4); k > 0; k-- {
			s.Comps = append(s.Comps, ref.InsComp{Tag: r.Byte(), HasPTS: !r.Chance(4), PTS: r.U33()})
		}
		x, err := scte35.NewSCTE35(s.Payload())
		c.Eval(1)
		if err != nil || x == nil {
			c.Fail("component-insert:decode-error", fmt.Sprintf("a canonical section was rejected: %v", err), wit{Shape: s35.Shape(&s), Input: mon.Hex(s.Payload())})
			return
		}
		in, ok := x.CommandInfo().(scte35.SpliceInsertCommand)
		if !ok || in.IsProgramSplice() || in.SpliceImmediate() {
			return // reported by C08
		}
		var log []string
		for k := 1 + r.Intn(3); k > 0; k-- {
			switch r.Intn(5) {
			case 0, 1:
				in.SetSpliceImmediate(true)
				s.Imm = true
				log = append(log, "SetSpliceImmediate(true)")
				c.Count("decoded_component_insert.made_immediate")
			case 2:
				f := r.Bool()
				in.SetIsOut(f)
				s.Out = f
				log = append(log, fmt.Sprintf("SetIsOut(%v)", f))
			case 3:
				v := r.Uint32()
				in.SetEventID(v)
				s.Event = v
				log = append(log, fmt.Sprintf("SetEventID(%d)", v))
			default:
				v := uint16(r.Intn(65536))
				in.SetUniqueProgramId(v)
				s.UPID16 = v
				log = append(log, fmt.Sprintf("SetUniqueProgramId(%d)", v))
			}
		}
		got, want := x.UpdateData(), s.Section()
		c.Eval(1)
		if !bytes.Equal(got, want) {
			c.Fail("component-insert:encoding-after-edit", fmt.Sprintf("a decoded splice_insert with %d components (component splice mode, not immediate), then %v: the encoding is not the canonical section of the new values", len(s.Comps), log), wit{Shape: s35.Shape(&s), Input: mon.Hex(s.Payload()), Got: mon.Hex(got), Want: mon.Hex(want), Detail: fmt.Sprint(log)})
			return
		}
		if y, err := scte35.NewSCTE35(append([]byte{0}, got...)); err != nil || y == nil || !bytes.Equal(y.UpdateData(), got) {
			c.Fail("component-insert:roundtrip-after-edit", fmt.Sprintf("the encoding after %v cannot be decoded, or encodes to other bytes again: %v", log, err), wit{Shape: s35.Shape(&s), Got: mon.Hex(got), Detail: fmt.Sprint(log)})
		}
		c.Class(fmt.Sprintf("component-insert/comps=%d/imm=%v", len(s.Comps), s.Imm))
	})
	// a decoded section with foreign descriptors at several positions, then a shorter list of segmentation descriptors
	// is set: every foreign descriptor is still there, in the order it came in, and encoding stays idempotent
	c.Floor("list_replaced.cases", 300)
	c.Stream("decoded-then-list-replaced", c.N(1500, 300000), func(i int, r *gen.Rand) {
		s := ref.GenSig(r, false)
		s.Descs = nil
		var foreign [][]byte
		for k := 2 + r.Intn(5); k > 0; k-- {
			if r.Bool() || k == 1 {
				s.Descs = append(s.Descs, ref.GenSegDesc(r, false))
			}
			if r.Bool() || k == 2 {
				f := ref.SegDesc{Foreign: true, Tag: r.PickByte([]byte{0x00, 0x01, 0x03, 0x80, 0xfe}), Body: append([]byte("ABCD"), r.Bytes(r.Intn(6))...)}
				f.Body = append(f.Body, byte(len(foreign))) // (makes every foreign descriptor distinct)
				s.Descs = append(s.Descs, f)
				foreign = append(foreign, f.Enc())
			}
		}
		x, err := scte35.NewSCTE35(s.Payload())
		if err != nil || x == nil {
			c.Fail("list-replaced:decode-error", fmt.Sprintf("a canonical section was rejected: %v", err), wit{Shape: s35.Shape(&s), Input: mon.Hex(s.Payload())})
			return
		}
		ds := x.Descriptors()
		if len(ds) == 0 || len(foreign) < 2 {
			return
		}
		var keep []scte35.SegmentationDescriptor
		for _, d := range ds {
			if r.Bool() {
				keep = append(keep, d)
			}
		}
		if r.Chance(4) {
			keep = ds[:len(ds)-1]
		}
		x.SetDescriptors(keep)
		enc1 := append([]byte{}, x.UpdateData()...)
		enc2 := x.UpdateData()
		c.Eval(1)
		c.Count("list_replaced.cases")
		w := wit{Shape: s35.Shape(&s), Input: mon.Hex(s.Payload()), Got: mon.Hex(enc1), Detail: fmt.Sprintf("%d of %d segmentation descriptors kept through SetDescriptors", len(keep), len(ds))}
		if !bytes.Equal(enc1, enc2) {
			c.Fail("list-replaced:not-idempotent", "after SetDescriptors with a shorter list two encodings in a row differ", w)
			return
		}
		if len(enc1) < 20 || ref.CRC32MPEG2(enc1) != 0 {
			c.Fail("list-replaced:crc", "after SetDescriptors with a shorter list the encoded section has no zero CRC-32/MPEG-2", w)
			return
		}
		cl := int(enc1[11]&0x0f)<<8 | int(enc1[12])
		at := 14 + cl
		if at+2 > len(enc1)-4 {
			c.Fail("list-replaced:layout", "the encoded section ends before its descriptor loop", w)
			return
		}
		end := at + 2 + (int(enc1[at])<<8 | int(enc1[at+1]))
		at += 2
		var gotForeign [][]byte
		segs := 0
		for at+2 <= end && end <= len(enc1)-4 {
			l := 2 + int(enc1[at+1])
			if at+l > end {
				break
			}
			if enc1[at] == 0x02 {
				segs++
			} else {
				gotForeign = append(gotForeign, enc1[at:at+l])
			}
			at += l
		}
		ok := at == end && segs == len(keep) && len(gotForeign) == len(foreign)
		for k := 0; ok && k < len(foreign); k++ {
			ok = bytes.Equal(gotForeign[k], foreign[k])
		}
		if !ok {
			c.Fail("list-replaced:foreign-descriptors", fmt.Sprintf("after SetDescriptors with a shorter list the encoded loop holds %d segmentation and %d foreign descriptors (expected %d and the %d foreign ones of the decoded section, in their order)", segs, len(gotForeign), len(keep), len(foreign)), w)
		}
		c.Class(fmt.Sprintf("list-replaced/foreign=%d/kept=%d", len(foreign), len(keep)))
	})
}
