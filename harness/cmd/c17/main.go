// C17 — payload accumulator returns exactly the payloads since the last unit start.
package main

import (
	"bytes"
	"errors"
	"fmt"
	"io"
	"strings"

	gots "github.com/Comcast/gots/v2"
	"github.com/Comcast/gots/v2/packet"

	"verif/harness/internal/gen"
	"verif/harness/internal/mon"
	"verif/harness/internal/ref"
)

func main() { mon.Main("C17", run) }

var errPred = errors.New("injected predicate failure")

type wit struct {
	Predicate string   `json:"predicate"`
	History   []string `json:"history"`
	Detail    string   `json:"detail"`
}

// genPacket builds a well-formed packet; kind 0 payload only, 1 AF+payload, 2 AF only.
func genPacket(r *gen.Rand) (p packet.Packet, pay []byte, hasPay bool) {
	r.Fill(p[:])
	p[0] = 0x47
	p[1] &^= 0x40
	if r.Chance(3) {
		p[1] |= 0x40
	}
	p[3] &^= 0x30
	if r.Chance(24) {
		// adaptation_field_control 00: neither flag, no payload ("all packets" includes the reserved value)
		return p, nil, false
	}
	switch r.Intn(6) {
	case 0: // adaptation field only
		p[3] |= 0x20
		p[4] = 183
		p[5] = 0
		for i := 6; i < 188; i++ {
			p[i] = 0xff
		}
		return p, nil, false
	case 1, 2:
		p[3] |= 0x10
		if r.Chance(4) {
			copy(p[4:], [][]byte{{0x00, 0x00, 0x01, 0xe0, 0xff, 0xff, 0x84, 0xc0, 0x0a}, {0x00, 0x00, 0x01, 0xbd, 0x00, 0x00}, {0x00, 0x02, 0xb0, 0x12}}[r.Intn(3)])
		}
		return p, p[4:], true
	default:
		p[3] |= 0x30
		L := r.Intn(183)
		if r.Chance(4) {
			// 183 leaves a payload of zero bytes: the payload flag is set but nothing is contributed
			L = r.PickInt([]int{0, 1, 2, 181, 182, 183, 183})
		}
		if r.Chance(12) {
			// "all packets": an adaptation field that runs past the packet leaves no payload
			L = r.PickInt([]int{184, 185, 200, 250, 251, 252, 253, 254, 255, 184 + r.Intn(72)})
			p[4] = byte(L)
			return p, nil, false
		}
		if r.Chance(6) {
			L = 183 - r.PickInt([]int{3, 4, 5, 6, 7, 8, 9, 13, 14, 18, 19}) // a payload of a few bytes only
		}
		p[4] = byte(L)
		if L > 0 {
			p[5] = 0
			for i := 6; i < 5+L; i++ {
				p[i] = 0xff
			}
		}
		if r.Chance(4) && 188-(5+L) >= 3 {
			// the payload is the start of a PES packet or of a section (what the units the accumulator is used for
			// begin with), however much of it fits in
			copy(p[5+L:], [][]byte{{0x00, 0x00, 0x01, 0xe0, 0xff, 0xff, 0x84, 0xc0, 0x0a}, {0x00, 0x00, 0x01, 0xbd, 0x00, 0x00}, {0x00, 0x02, 0xb0, 0x12}, {0x00, 0xfc, 0x30, 0x11}}[r.Intn(4)])
		}
		return p, p[5+L:], true
	}
}

// payloadOf is the reference payload extraction for the packets genPacket builds.
func payloadOf(p *packet.Packet) ([]byte, bool) {
	if p[3]&0x10 == 0 {
		return nil, false
	}
	if p[3]&0x20 == 0 {
		return p[4:], true
	}
	if 5+int(p[4]) > 188 {
		return nil, false
	}
	return p[5+int(p[4]):], true
}

func hash(b []byte) uint32 {
	h := uint32(2166136261)
	for _, x := range b {
		h = (h ^ uint32(x)) * 16777619
	}
	return h
}

type pred struct {
	name string
	f    func(b []byte) (bool, error)
}

func mkPred(r *gen.Rand) pred {
	switch r.Intn(7) {
	case 6:
		// reports "done" together with an error while the length is inside a window
		T := r.Intn(600)
		lo := r.Intn(500)
		hi := lo + 1 + r.Intn(300)
		return pred{fmt.Sprintf("len >= %d, and (done, error) while %d <= len < %d", T, lo, hi), func(b []byte) (bool, error) {
			if len(b) >= lo && len(b) < hi {
				return true, errPred
			}
			return len(b) >= T, nil
		}}
	case 0:
		return pred{"never done", func(b []byte) (bool, error) { return false, nil }}
	case 1:
		return pred{"done on first payload", func(b []byte) (bool, error) { return true, nil }}
	case 2:
		m := uint32(2 + r.Intn(5))
		return pred{fmt.Sprintf("content hash %% %d == 0", m), func(b []byte) (bool, error) { return hash(b)%m == 0, nil }}
	case 3:
		T := r.Intn(900)
		lo := r.Intn(700)
		hi := lo + 1 + r.Intn(250)
		// the predicate's error is its own business; it may even be one of the library's own sentinels
		es := []error{errPred, errPred, gots.ErrAccumulatorDone, gots.ErrNoPayloadUnitStartIndicator, gots.ErrNoPayload, io.EOF,
			gots.ErrShortPayload, gots.ErrInvalidPATLength, gots.ErrInvalidSCTE35Length, gots.ErrPMTParse, gots.ErrPMTNotFound, gots.ErrPATNotFound,
			gots.ErrInvalidPacketLength, gots.ErrAccumulatorInvalidState, gots.ErrUnknownTableID, gots.ErrParsePMTDescriptor, gots.ErrSyncByteNotFound,
			gots.ErrSCTE35UnsupportedSpliceCommand, gots.ErrBadSyncByte, io.ErrUnexpectedEOF, io.ErrShortWrite}
		e := es[r.Intn(len(es))]
		return pred{fmt.Sprintf("len >= %d, error %q while %d <= len < %d", T, e, lo, hi), func(b []byte) (bool, error) {
			if len(b) >= lo && len(b) < hi {
				return false, e
			}
			return len(b) >= T, nil
		}}
	default:
		T := r.Intn(900)
		return pred{fmt.Sprintf("len >= %d", T), func(b []byte) (bool, error) { return len(b) >= T, nil }}
	}
}

func run(c *mon.Ctx) {
	c.Rule("histories of 1..24 WritePacket/Reset/Bytes/Packets calls over well-formed packets (payload only, adaptation field of any length + payload, adaptation field only; PUSI on a third) with five predicate families. distinct non-trivial = distinct (predicate family, multiset of event kinds seen: refused-before-start, restart-by-PUSI, no-payload, predicate-error, completion, refused-after-done, reset) for histories that accepted at least two packets")
	c.Assume("sequential model of the statement; tolerances of DESIGN section 3: a packet refused for lack of payload may or may not be listed by Packets(); the int result of WritePacket is not constrained; deep independence of the *Packet elements returned by Packets() is not asserted")
	c.Floor("event.completion", 500)
	c.Floor("event.refused_after_done", 300)
	c.Floor("event.restart_by_pusi", 500)
	c.Floor("event.predicate_error", 100)
	c.Floor("event.no_payload", 300)
	c.Floor("concurrent.calls", 5000)
	c.Stream("concurrent-accumulators", c.N(8, 200), func(i int, r *gen.Rand) {
		c.Concurrent("accumulators of their own", 8, 2400, r, func(q *gen.Rand) string {
			T := 200 + q.Intn(800)
			acc := packet.NewAccumulator(func(b []byte) (bool, error) { return len(b) >= T, nil })
			var want []byte
			var pkts []packet.Packet
			pid := 32 + q.Intn(8000)
			if q.Bool() { // something before the unit start is refused
				pk := packet.Packet(ref.PayloadPacket(pid, 0, false, q.Bytes(184)))
				if _, err := acc.WritePacket(&pk); err == nil {
					return "a packet was accepted before the first unit start"
				}
			}
			for k := 0; ; k++ {
				chunk := q.Bytes(1 + q.Intn(184))
				pk := packet.Packet(ref.PayloadPacket(pid, k, k == 0, chunk))
				_, err := acc.WritePacket(&pk)
				want = append(want, chunk...)
				pkts = append(pkts, pk)
				if done := len(want) >= T; done != (err == gots.ErrAccumulatorDone) || (!done && err != nil) {
					return fmt.Sprintf("packet %d (%d bytes so far, done at %d): WritePacket returned %v", k, len(want), T, err)
				}
				if len(want) >= T {
					break
				}
			}
			if got := acc.Bytes(); !bytes.Equal(got, want) {
				return fmt.Sprintf("Bytes() differs from the concatenated payloads at byte %d of %d", firstDiff(got, want), len(want))
			}
			got := acc.Packets()
			if len(got) != len(pkts) {
				return fmt.Sprintf("Packets() lists %d packets, %d were accepted", len(got), len(pkts))
			}
			for k := range got {
				if *got[k] != pkts[k] {
					return fmt.Sprintf("packet %d of Packets() is not the packet that was written", k)
				}
			}
			return ""
		})
		c.Class("concurrent-accumulators")
	})
	c.Stream("histories", c.N(30000, 40000000), func(i int, r *gen.Rand) { history(c, r) })
	// units far longer than any section or PES packet: completion is the predicate's business alone
	c.Floor("long_unit.bytes_above_64k", 4)
	c.Floor("long_unit.followed_by_another_unit", 8)
	c.Stream("long-unit", c.N(24, 600), func(i int, r *gen.Rand) { longUnit(c, r) })
}

func longUnit(c *mon.Ctx, r *gen.Rand) {
	threshold := r.PickInt([]int{-1, -1, 65536, 65541, 65542, 66000, 70000 + r.Intn(60000), 140000})
	calls := 0
	var lastArg []byte
	acc := packet.NewAccumulator(func(b []byte) (bool, error) {
		calls++
		lastArg = append(lastArg[:0], b...)
		return threshold >= 0 && len(b) >= threshold, nil
	})
	pid := 32 + r.Intn(8000)
	var want []byte
	var written []packet.Packet
	n := 0
	total := 380 + r.Intn(500)
	if threshold < 0 && r.Bool() {
		total = r.PickInt([]int{20, 45, 88, 89, 90, 91, 100, 178, 179, 200, 357}) // around 4, 8, 16, 32 and 64 KiB
	}
	for k := 0; k < total; k++ {
		chunk := r.Bytes(184)
		if k > 0 && r.Chance(10) {
			chunk = r.Bytes(1 + r.Intn(183))
		}
		pk := packet.Packet(ref.PayloadPacket(pid, k, k == 0, chunk))
		_, err := acc.WritePacket(&pk)
		c.Eval(1)
		want = append(want, chunk...)
		written = append(written, pk)
		n++
		holds := threshold >= 0 && len(want) >= threshold
		if holds != (err == gots.ErrAccumulatorDone) || (!holds && err != nil) {
			c.Fail("long-unit:completion", fmt.Sprintf("packet %d of a unit (%d payload bytes so far, predicate holds from %d bytes on; -1 = never): WritePacket returned %v", k, len(want), threshold, err), wit{Detail: fmt.Sprintf("threshold %d, %d bytes", threshold, len(want))})
			return
		}
		if holds {
			break
		}
	}
	if len(want) >= 65536 {
		c.Count("long_unit.bytes_above_64k")
	}
	if got := acc.Bytes(); !bytes.Equal(got, want) {
		c.Fail("long-unit:bytes", fmt.Sprintf("Bytes() of a %d-byte unit differs from the concatenated payloads at byte %d (got %d bytes)", len(want), firstDiff(got, want), len(got)), wit{Detail: fmt.Sprintf("threshold %d", threshold)})
	}
	if got := acc.Packets(); len(got) != n {
		c.Fail("long-unit:packets", fmt.Sprintf("Packets() lists %d packets, %d were accepted", len(got), n), wit{Detail: fmt.Sprintf("threshold %d", threshold)})
	} else {
		for k := range got {
			if got[k] == nil || *got[k] != written[k] {
				c.Fail("long-unit:packet-list-content", fmt.Sprintf("entry %d of the %d-entry packet list of a long unit is not the %d-th packet accepted", k, n, k), wit{Detail: fmt.Sprintf("threshold %d", threshold)})
				break
			}
		}
	}
	if calls != n {
		c.Fail("long-unit:predicate-calls", fmt.Sprintf("the predicate was evaluated %d times for %d accepted packets", calls, n), wit{Detail: fmt.Sprintf("threshold %d", threshold)})
	}
	c.Class(fmt.Sprintf("long-unit/threshold=%d", threshold/20000))
	// ---- what comes after a long unit: the next unit start, or a reset and then a unit, begins from nothing
	complete := threshold >= 0 && len(want) >= threshold
	how := "the next unit start"
	if complete || r.Bool() {
		how = "Reset()"
		acc.Reset()
		if b, p := acc.Bytes(), acc.Packets(); len(b) != 0 || len(p) != 0 {
			c.Fail("long-unit:after-reset", fmt.Sprintf("after a unit of %d bytes and Reset() the accumulator holds %d bytes and %d packets", len(want), len(b), len(p)), wit{Detail: fmt.Sprintf("first unit %d bytes", len(want))})
			return
		}
	}
	threshold = -1
	var want2 []byte
	m := 1 + r.Intn(4)
	for k := 0; k < m; k++ {
		chunk := r.Bytes(1 + r.Intn(184))
		pk := packet.Packet(ref.PayloadPacket(pid, k, k == 0, chunk))
		_, err := acc.WritePacket(&pk)
		c.Eval(1)
		want2 = append(want2, chunk...)
		if err != nil {
			c.Fail("long-unit:next-unit-refused", fmt.Sprintf("packet %d of the unit after a %d-byte unit and %s was refused: %v", k, len(want), how, err), wit{Detail: how})
			return
		}
		if !bytes.Equal(lastArg, want2) {
			c.Fail("long-unit:next-unit-predicate-argument", fmt.Sprintf("after a unit of %d bytes and %s the predicate was given %d bytes for a unit of %d bytes so far (first difference at byte %d)", len(want), how, len(lastArg), len(want2), firstDiff(lastArg, want2)), wit{Detail: how})
			return
		}
	}
	if got := acc.Bytes(); !bytes.Equal(got, want2) || len(acc.Packets()) != m {
		c.Fail("long-unit:next-unit-bytes", fmt.Sprintf("after a unit of %d bytes and %s, Bytes() of the following %d-byte unit has %d bytes (first difference at byte %d) and Packets() lists %d of %d packets", len(want), how, len(want2), len(got), firstDiff(got, want2), len(acc.Packets()), m), wit{Detail: how})
	}
	c.Count("long_unit.followed_by_another_unit")
}

func history(c *mon.Ctx, r *gen.Rand) {
	pr := mkPred(r)
	var lastArgs [][]byte
	acc := packet.NewAccumulator(func(b []byte) (bool, error) {
		lastArgs = append(lastArgs, append([]byte{}, b...))
		return pr.f(b)
	})
	const (
		starting = iota
		accumulating
		done
	)
	state := starting
	var mbytes []byte
	var mAll, mPay []packet.Packet
	var hist []string
	// lists returned earlier, with a snapshot of what they described when they were returned
	type kept struct {
		list []*packet.Packet
		snap []packet.Packet
		at   int
	}
	var retained []kept
	events := map[string]bool{}
	accepted := 0
	fail := func(sig, detail string) {
		c.Fail(sig, detail, wit{pr.name, append([]string{}, hist...), detail})
	}
	// a second accumulator used in turns with the first: nothing may carry over between the two
	acc2 := packet.NewAccumulator(func(b []byte) (bool, error) { return false, nil })
	var bytes2 []byte
	var pkts2 []packet.Packet
	other := func() bool {
		p2, pay2, _ := genPacket(r)
		p2[3] = p2[3]&^0x30 | 0x10 // payload only
		pay2 = p2[4:]
		if len(pkts2) == 0 || r.Chance(6) {
			p2[1] |= 0x40
			bytes2, pkts2 = nil, nil
		} else {
			p2[1] &^= 0x40
		}
		if _, err := acc2.WritePacket(&p2); err != nil {
			fail("second-accumulator:error", fmt.Sprintf("a second accumulator used in turns with the first refused a payload packet: %v", err))
			return false
		}
		bytes2 = append(bytes2, pay2...)
		pkts2 = append(pkts2, p2)
		if !bytes.Equal(acc2.Bytes(), bytes2) || !samePackets(acc2.Packets(), pkts2) {
			fail("second-accumulator:content", "a second accumulator used in turns with the first does not hold exactly its own packets")
			return false
		}
		return true
	}
	var prevPkt packet.Packet
	havePrev := false
	var slot packet.Packet
	oneVariable := r.Chance(3)
	if oneVariable {
		events["all_packets_written_through_one_variable"] = true
	}
	n := 1 + r.Intn(24)
	for step := 0; step < n; step++ {
		if r.Chance(3) && !other() {
			return
		}
		op := r.Intn(12)
		switch {
		case op < 9:
			p, pay, hasPay := genPacket(r)
			if havePrev && r.Chance(5) {
				// the byte-identical packet once more (same counter, same content): it is a packet like any other
				p = prevPkt
				pay, hasPay = payloadOf(&p)
				events["identical_packet_repeated"] = true
			}
			if havePrev && r.Chance(6) && p[3]&0x30 == 0x30 && prevPkt[3]&0x30 == 0x30 {
				// the same four header bytes as the packet before (a repeated counter, as for a duplicate packet), but
				// an adaptation field of another length and another payload
				copy(p[:4], prevPkt[:4])
				pay, hasPay = payloadOf(&p)
				events["same_header_other_adaptation_field"] = true
			}
			prevPkt, havePrev = p, true
			snap := p
			pusi := p[1]&0x40 != 0
			hist = append(hist, fmt.Sprintf("WritePacket(pusi=%v afc=%d aflen=%d payload=%d)", pusi, p[3]>>4&3, afl(&p), len(pay)))
			c.Tracef("%s", hist[len(hist)-1])
			lastArgs = nil
			arg := &p
			if oneVariable {
				// the caller fills one and the same packet variable for every write (the way a reading loop does)
				slot = p
				arg = &slot
			}
			_, err := acc.WritePacket(arg)
			if oneVariable {
				p = slot
				for k := range slot {
					slot[k] ^= 0xc3
				}
			}
			c.Eval(1)
			hist[len(hist)-1] += fmt.Sprintf(" -> %v", err)
			c.Tracef("   -> err=%v, predicate invoked %d time(s)", err, len(lastArgs))
			if p != snap {
				fail("input-modified", "WritePacket modified the packet it was given")
				p = snap
			}
			switch {
			case state == done:
				events["refused_after_done"] = true
				if err == nil {
					fail("accepted-after-done", "a packet was accepted after completion had been reported")
					return
				}
			case state == starting && !pusi:
				events["refused_before_start"] = true
				if err == nil {
					fail("accepted-before-pusi", "a packet without payload_unit_start_indicator was accepted before the first unit start")
					return
				}
			default:
				if pusi {
					if state == accumulating {
						events["restart_by_pusi"] = true
					}
					mbytes, mAll, mPay = nil, nil, nil
				}
				state = accumulating
				mAll = append(mAll, snap)
				if !hasPay {
					events["no_payload"] = true
					if err == nil {
						fail("no-payload-not-reported", "a packet without payload was accepted without an error")
						return
					}
					break
				}
				accepted++
				mPay = append(mPay, snap)
				mbytes = append(mbytes, pay...)
				wantDone, wantErr := pr.f(mbytes)
				switch {
				case wantErr != nil:
					events["predicate_error"] = true
					if err != wantErr {
						fail("predicate-error-not-propagated", fmt.Sprintf("the predicate failed on the %d accumulated bytes but WritePacket returned %v", len(mbytes), err))
						return
					}
					if wantDone {
						// "done" reported together with an error: whether the accumulator completes is not stated; stop here
						events["predicate_done_with_error"] = true
						for k := range events {
							c.Count("event." + k)
						}
						return
					}
				case wantDone:
					events["completion"] = true
					if err != gots.ErrAccumulatorDone {
						fail("completion-not-reported", fmt.Sprintf("the predicate holds on the %d accumulated bytes but WritePacket returned %v", len(mbytes), err))
						return
					}
					state = done
				default:
					if err != nil {
						sig := "spurious-error"
						if err == gots.ErrAccumulatorDone {
							sig = "completion-reported-early"
						}
						fail(sig, fmt.Sprintf("the predicate does not hold on the %d accumulated bytes and did not fail, but WritePacket returned %v", len(mbytes), err))
						return
					}
				}
			}
			// later writes to the caller's packet must not reach the accumulator
			for k := range p {
				p[k] ^= 0x5a
			}
		case op == 9:
			hist = append(hist, "Reset()")
			c.Tracef("Reset()")
			acc.Reset()
			c.Eval(1)
			events["reset"] = true
			state, mbytes, mAll, mPay = starting, nil, nil, nil
		default:
			hist = append(hist, "Bytes()/Packets()")
		}
		// observe Bytes() and Packets() after every call
		gb := acc.Bytes()
		if !bytes.Equal(gb, mbytes) {
			fail("bytes-differ-from-model", fmt.Sprintf("Bytes() has %d bytes, the payloads accepted since the last unit start are %d bytes (first difference at %d)", len(gb), len(mbytes), firstDiff(gb, mbytes)))
			return
		}
		gp := acc.Packets()
		if !samePackets(gp, mAll) && !samePackets(gp, mPay) {
			fail("packets-differ-from-model", fmt.Sprintf("Packets() returned %d packets that are neither the %d packets taken since the last unit start nor the %d payload-carrying ones, in order", len(gp), len(mAll), len(mPay)))
			return
		}
		// a list returned earlier must still describe the packets it described then
		for _, k := range retained {
			for j := range k.list {
				if k.list[j] == nil || *k.list[j] != k.snap[j] {
					fail("packets-returned-earlier-changed", fmt.Sprintf("the packet list returned after step %d was changed by a later call (element %d now differs): it is not an independent copy", k.at, j))
					return
				}
			}
		}
		if len(gp) > 0 && r.Chance(3) {
			keep := acc.Packets()
			k := kept{list: keep, at: step}
			for _, q := range keep {
				if q == nil {
					break
				}
				k.snap = append(k.snap, *q)
			}
			if len(k.snap) == len(keep) {
				retained = append(retained, k)
				events["retained_list"] = true
			}
		}
		// mutating what was returned must not change the accumulator
		if len(gb) > 0 {
			for k := range gb {
				gb[k] ^= 0xa5
			}
			if !bytes.Equal(acc.Bytes(), mbytes) {
				fail("bytes-not-a-copy", "modifying the slice returned by Bytes() changed the accumulator")
				return
			}
		}
		if len(gp) > 0 {
			for k := range gp {
				gp[k] = nil
			}
			g2 := acc.Packets()
			if !samePackets(g2, mAll) && !samePackets(g2, mPay) {
				fail("packets-not-a-copy", "modifying the slice returned by Packets() changed the accumulator")
				return
			}
		}
	}
	// last of all, the caller writes over the packets of a list it was given (whether or not later lists show
	// that is not asserted, see the assumptions): the accumulated bytes are those of the packets that were written
	if gp := acc.Packets(); len(gp) > 0 && len(mbytes) > 0 {
		for _, q := range gp {
			if q != nil {
				for k := range q {
					q[k] ^= 0x3c
				}
			}
		}
		c.Count("returned_packets_overwritten_then_bytes")
		if state == done {
			c.Count("returned_packets_overwritten_then_bytes.complete_unit")
		}
		if gb := acc.Bytes(); !bytes.Equal(gb, mbytes) {
			fail("bytes-follow-the-returned-packets", fmt.Sprintf("after the caller wrote over the packets Packets() had returned, Bytes() (%d bytes, first difference at %d) is no longer the concatenation of the payloads that were accepted", len(gb), firstDiff(gb, mbytes)))
			return
		}
	}
	if accepted >= 2 {
		var ev []string
		for k := range events {
			ev = append(ev, k)
			c.Count("event." + k)
		}
		sortStrings(ev)
		if c.Class(strings.SplitN(pr.name, " ", 3)[0]+"/"+strings.Join(ev, "+")) && c.WantSample() && len(ev) >= 3 {
			c.Sample(func() interface{} { return wit{pr.name, hist, "events: " + strings.Join(ev, ", ")} })
		}
	}
}

func sortStrings(s []string) {
	for i := 1; i < len(s); i++ {
		for j := i; j > 0 && s[j] < s[j-1]; j-- {
			s[j], s[j-1] = s[j-1], s[j]
		}
	}
}

func afl(p *packet.Packet) int {
	if p[3]&0x20 == 0 {
		return -1
	}
	return int(p[4])
}

func samePackets(got []*packet.Packet, want []packet.Packet) bool {
	if len(got) != len(want) {
		return false
	}
	for i := range got {
		if got[i] == nil || *got[i] != want[i] {
			return false
		}
	}
	return true
}

func firstDiff(a, b []byte) int {
	for i := 0; i < len(a) && i < len(b); i++ {
		if a[i] != b[i] {
			return i
		}
	}
	if len(a) < len(b) {
		return len(a)
	}
	return len(b)
}
