// C07 — PAT decoding: program count, program map and single-program PID are exact.
package main

import (
	"bytes"
	"fmt"
	"io"
	"strings"

	gots "github.com/Comcast/gots/v2"
	"github.com/Comcast/gots/v2/packet"
	"github.com/Comcast/gots/v2/psi"

	"verif/harness/internal/gen"
	"verif/harness/internal/mon"
	"verif/harness/internal/ref"
)

func main() { mon.Main("C07", run) }

type wit struct {
	Carrier string `json:"carrier"`
	Entries string `json:"entries"`
	Input   string `json:"input_hex"`
	Detail  string `json:"detail"`
}

func genPAT(r *gen.Rand, maxN int) ref.PAT {
	p := ref.PAT{TSID: uint16(r.Intn(65536)), Version: byte(r.Intn(32)), CurrentNext: r.Bool()}
	n := r.Intn(6)
	switch r.Intn(8) {
	case 0:
		n = 0
	case 1:
		n = 1
	case 2:
		n = maxN
	case 3:
		n = r.Intn(maxN + 1)
	}
	if n > maxN {
		n = maxN
	}
	used := map[uint16]bool{}
	for i := 0; i < n; i++ {
		pn := uint16(1 + r.Intn(65535))
		if r.Chance(6) {
			pn = 0 // network PID entry
		}
		if r.Chance(3) {
			pn = uint16(r.PickInt([]int{1, 2, 255, 256, 65535, 0x8000}))
		}
		for pn != 0 && used[pn] {
			pn = uint16(1 + r.Intn(65535))
		}
		used[pn] = true
		pid := r.Intn(8192)
		if r.Chance(3) {
			pid = r.PickInt([]int{0, 1, 16, 0x1f, 0x20, 0xff, 0x100, 0x0fff, 0x1000, 0x1ffe, 0x1fff})
		}
		p.Entries = append(p.Entries, ref.PATEntry{Program: pn, PID: pid})
	}
	return p
}

func entriesString(p *ref.PAT) string {
	s := ""
	for i, e := range p.Entries {
		if i >= 12 {
			s += fmt.Sprintf(" ...(%d entries)", len(p.Entries))
			break
		}
		s += fmt.Sprintf("%d->%#x ", e.Program, e.PID)
	}
	return s
}

func checkPAT(c *mon.Ctx, carrier string, pat psi.PAT, err error, p *ref.PAT, input []byte) bool {
	w := func(d string) wit { return wit{carrier, entriesString(p), mon.Hex(input), d} }
	if err != nil || pat == nil {
		c.Fail(carrier+":decode-error", fmt.Sprintf("a well-formed PAT with %d entries was rejected: %v", len(p.Entries), err), w(fmt.Sprint(err)))
		return false
	}
	ok := true
	n := len(p.Entries)
	if g := pat.NumPrograms(); g != n {
		c.Fail(carrier+":NumPrograms", fmt.Sprintf("NumPrograms()=%d, the section has %d entries", g, n), w(""))
		ok = false
	}
	want := map[int]int{}
	for _, e := range p.Entries {
		if e.Program != 0 {
			want[int(e.Program)] = e.PID
		}
	}
	m := pat.ProgramMap()
	if len(m) != len(want) {
		c.Fail(carrier+":ProgramMap-size", fmt.Sprintf("ProgramMap() has %d entries, the section has %d entries with non-zero program_number", len(m), len(want)), w(""))
		ok = false
	} else {
		for k, v := range want {
			if g, found := m[k]; !found || g != v {
				c.Fail(carrier+":ProgramMap-entry", fmt.Sprintf("ProgramMap()[%d]=%#x (present=%v), the section maps it to PID %#x", k, g, found, v), w(""))
				ok = false
				break
			}
		}
	}
	pid, serr := pat.SPTSpmtPID()
	if n == 1 && p.Entries[0].Program != 0 {
		if serr != nil || pid != p.Entries[0].PID {
			c.Fail(carrier+":SPTSpmtPID", fmt.Sprintf("SPTSpmtPID()=%#x,%v for a single-program table whose PMT PID is %#x", pid, serr, p.Entries[0].PID), w(""))
			ok = false
		}
	} else if serr == nil {
		c.Fail(carrier+":SPTSpmtPID-should-fail", fmt.Sprintf("SPTSpmtPID() succeeded (%#x) on a table with %d entries (%d programs)", pid, n, len(want)), w(""))
		ok = false
	}
	if ok && !strings.HasSuffix(carrier, "/again") {
		// the map handed out belongs to the caller: editing it must not change what the PAT reports afterwards
		for k := range m {
			delete(m, k)
		}
		if m != nil { // a table without programs may report a nil map
			m[7777] = 0x1abc
			m[1] = 0x0001
		}
		ok = checkPAT(c, carrier+"/again", pat, nil, p, input)
	}
	return ok
}

func isPMTSweep(c *mon.Ctx, pat psi.PAT, p *ref.PAT, r *gen.Rand, all bool) {
	vals := map[int]bool{}
	for _, e := range p.Entries {
		if e.Program != 0 {
			vals[e.PID] = true
		}
	}
	try := func(pid int) {
		var pk packet.Packet
		r.Fill(pk[4:])
		pk[0], pk[1], pk[2], pk[3] = 0x47, byte(pid>>8)|byte(r.Intn(8))<<5, byte(pid), 0x10|byte(r.Intn(16))
		if r.Bool() {
			// the classification is by PID alone: adaptation-field-only packets, scrambled packets, ...
			pk[3] = byte(r.Intn(4))<<6 | byte(1+r.Intn(3))<<4 | byte(r.Intn(16))
			if pk[3]&0x20 != 0 {
				pk[4] = byte(r.Intn(184))
				if pk[3]&0x10 == 0 {
					pk[4] = 183
				}
			}
		}
		g, err := psi.IsPMT(&pk, pat)
		c.Eval(1)
		if err != nil || g != vals[pid] {
			c.Fail("IsPMT", fmt.Sprintf("IsPMT(packet with PID %#x)=%v,%v; PID is a value of the program map: %v", pid, g, err, vals[pid]), wit{"IsPMT", entriesString(p), mon.Hex(pk[:4]), ""})
		}
	}
	if all {
		for pid := 0; pid < 8192; pid++ {
			try(pid)
		}
		return
	}
	for pid := range vals {
		try(pid)
		try((pid + 1) & 0x1fff)
		try(pid ^ 0x1000)
	}
	for k := 0; k < 8; k++ {
		try(r.Intn(8192))
	}
}

// keptPATs: decoded PATs that are looked at again after many later ones were decoded.
var keptPATs mon.Keeper

func run(c *mon.Ctx) {
	c.Rule("PAT sections built from ground-truth entries by a reference builder (0..253 entries for the payload carrier, 0..42 for packet/stream carriers; network entries, boundary program numbers and PIDs), each decoded through its carrier. distinct non-trivial = distinct (carrier, entry-count class, has network entry, single-program verdict, padding style, packets before the PAT) with at least one entry")
	c.Assume("pointer_field is 0 (the statement does not vary it for PAT); payload carriers of exactly 188 bytes are avoided because NewPAT documents that it treats a 188-byte slice as a transport packet; program numbers within one table are distinct")
	c.Floor("kept.decoded PAT.looked_at_again_after_64_or_more_later_objects", 500)
	c.Floor("concurrent.calls", 5000)
	c.Stream("concurrent-decoders", c.N(8, 200), func(i int, r *gen.Rand) {
		c.Concurrent("psi.NewPAT (payload, packet) / psi.ReadPAT", 8, 2000, r, func(q *gen.Rand) string {
			p := genPAT(q, 30)
			pay := q.Slack(append([]byte{0}, p.Section()...))
			if len(pay) == 188 {
				pay = append(pay, 0xff)
			}
			pat, err := psi.NewPAT(pay)
			switch q.Intn(3) {
			case 1: // the whole-packet carrier
				pk := ref.PaddedPacket(0, q.Intn(16), true, append([]byte{0}, p.Section()...))
				if q.Bool() && len(p.Section()) < 150 {
					pk = ref.PayloadPacket(0, q.Intn(16), true, append([]byte{0}, p.Section()...))
				}
				pat, err = psi.NewPAT(pk[:])
			case 2: // the stream carrier
				pk := ref.PaddedPacket(0, q.Intn(16), true, append([]byte{0}, p.Section()...))
				o := ref.PaddedPacket(1+q.Intn(8190), q.Intn(16), q.Bool(), q.Bytes(q.Intn(185)))
				pat, err = psi.ReadPAT(bytes.NewReader(append(append([]byte{}, o[:]...), pk[:]...)))
			}
			if err != nil || pat == nil {
				return fmt.Sprintf("a well-formed PAT was rejected: %v", err)
			}
			want := map[int]int{}
			for _, e := range p.Entries {
				if e.Program != 0 {
					want[int(e.Program)] = e.PID
				}
			}
			m := pat.ProgramMap()
			if pat.NumPrograms() != len(p.Entries) || len(m) != len(want) {
				return fmt.Sprintf("NumPrograms()=%d, ProgramMap() has %d entries; the section has %d entries, %d of them programs", pat.NumPrograms(), len(m), len(p.Entries), len(want))
			}
			for k, v := range want {
				if m[k] != v {
					return fmt.Sprintf("ProgramMap()[%d]=%#x, the section maps it to %#x", k, m[k], v)
				}
			}
			return ""
		})
		c.Class("concurrent-decoders")
	})
	c.Stream("concurrent-classification", c.N(8, 200), func(i int, r *gen.Rand) {
		c.Concurrent("psi.IsPMT with PATs of their own", 8, 3200, r, func(q *gen.Rand) string {
			p := genPAT(q, 12)
			pat, err := psi.NewPAT(append([]byte{0}, p.Section()...))
			if err != nil || pat == nil {
				return fmt.Sprintf("a well-formed payload was rejected: %v", err)
			}
			vals := map[int]bool{}
			for _, e := range p.Entries {
				if e.Program != 0 {
					vals[e.PID] = true
				}
			}
			try := func(pid int) string {
				var pk packet.Packet
				pk[0], pk[1], pk[2], pk[3] = 0x47, byte(pid>>8), byte(pid), 0x10
				g, err := psi.IsPMT(&pk, pat)
				if err != nil || g != vals[pid] {
					return fmt.Sprintf("IsPMT(packet with PID %#x)=%v,%v; PID is a value of the program map: %v (%s)", pid, g, err, vals[pid], entriesString(&p))
				}
				return ""
			}
			for pid := range vals {
				if s := try(pid); s != "" {
					return s
				}
				if s := try((pid + 1) & 0x1fff); s != "" {
					return s
				}
			}
			for k := 0; k < 6; k++ {
				if s := try(q.Intn(8192)); s != "" {
					return s
				}
			}
			return ""
		})
		c.Class("concurrent-classification")
	})
	c.Stream("payload", c.N(12000, 400000), func(i int, r *gen.Rand) {
		p := genPAT(r, 253)
		sec := p.Section()
		pay := append([]byte{0}, sec...)
		pad := 0
		if r.Bool() {
			pad = r.Intn(40)
			pay = append(pay, bytes.Repeat([]byte{0xff}, pad)...)
		}
		if len(pay) == 188 {
			pay = append(pay, 0xff)
		}
		pay = r.Slack(pay)
		snap := append([]byte{}, pay...)
		if i%8 == 3 {
			// right after calls that fail: no state is carried over
			psi.NewPAT(pay[:r.Intn(8)])
			psi.NewPAT(nil)
			c.Count("decode_after_failed_decode")
		}
		pat, err := psi.NewPAT(pay)
		c.Eval(1)
		ok := checkPAT(c, "payload", pat, err, &p, snap)
		if ok && i%4 == 0 {
			// an object of its own is kept and looked at again after 1 ... 4095 later PATs were decoded
			if pk, err := psi.NewPAT(append([]byte{}, snap...)); err == nil && pk != nil {
				truth, in := p, snap
				keptPATs.Keep(c, "decoded PAT", r, func() string {
					checkPAT(c, "payload-object-kept-across-many-later-decodes", pk, nil, &truth, in)
					return ""
				})
			}
		}
		if !bytes.Equal(pay, snap) {
			c.Fail("payload:input-modified", "NewPAT or a getter modified the payload bytes", wit{"payload", entriesString(&p), mon.Hex(snap), ""})
		}
		if ok && pat != nil {
			isPMTSweep(c, pat, &p, r, i%500 == 0)
		}
		// the caller's buffer is re-used for the next table of the same size: the new PAT object reports the
		// new table through every accessor (IsPMT included)
		if ok && len(p.Entries) > 0 && i%3 == 0 {
			q := genPAT(r, 253)
			for len(q.Entries) != len(p.Entries) {
				if len(q.Entries) > len(p.Entries) {
					q.Entries = q.Entries[:len(p.Entries)]
				} else {
					q.Entries = append(q.Entries, ref.PATEntry{Program: uint16(1000 + len(q.Entries)), PID: r.Intn(8192)})
				}
			}
			seen := map[uint16]bool{}
			for k := range q.Entries {
				for q.Entries[k].Program != 0 && seen[q.Entries[k].Program] {
					q.Entries[k].Program++
				}
				seen[q.Entries[k].Program] = true
			}
			copy(pay[1:], q.Section())
			snap2 := append([]byte{}, pay...)
			pat2, err2 := psi.NewPAT(pay)
			c.Count("payload.buffer_reused_for_next_table")
			if checkPAT(c, "payload-buffer-reused", pat2, err2, &q, snap2) && pat2 != nil {
				isPMTSweep(c, pat2, &q, r, false)
			}
		}
		cls := fmt.Sprintf("payload/n=%s/net=%v/padded=%v", nClass(len(p.Entries)), hasNet(&p), pad > 0)
		if len(p.Entries) > 0 && c.Class(cls) && c.WantSample() && len(p.Entries) < 5 {
			c.Sample(func() interface{} { return wit{"payload", entriesString(&p), mon.Hex(snap), ""} })
		}
	})
	c.Stream("packet", c.N(8000, 300000), func(i int, r *gen.Rand) {
		withAF := r.Chance(3)
		maxN := 42
		afl := 0
		if withAF {
			afl = r.Intn(100)
			maxN = (184 - 1 - afl - 1 - 12) / 4
		}
		p := genPAT(r, maxN)
		pay := append([]byte{0}, p.Section()...)
		var pk ref.Pkt
		if withAF {
			// adaptation field of afl bytes, then the PAT, then 0xFF payload padding
			pk[0], pk[1], pk[3] = 0x47, 0x40, 0x30|byte(r.Intn(16))
			pk[4] = byte(afl)
			if afl > 0 {
				pk[5] = 0
				for k := 6; k < 5+afl; k++ {
					pk[k] = 0xff
				}
			}
			n := copy(pk[5+afl:], pay)
			for k := 5 + afl + n; k < 188; k++ {
				pk[k] = 0xff
			}
		} else {
			pk = ref.PaddedPacket(0, r.Intn(16), true, pay)
		}
		if r.Chance(3) {
			pk[1] |= 0x20 // transport_priority
		}
		snap := pk
		pat, err := psi.NewPAT(pk[:])
		c.Eval(1)
		ok := checkPAT(c, "packet", pat, err, &p, snap[:])
		if pk != snap {
			c.Fail("packet:input-modified", "NewPAT or a getter modified the packet bytes", wit{"packet", entriesString(&p), mon.Hex(snap[:]), ""})
		}
		if ok && pat != nil {
			isPMTSweep(c, pat, &p, r, false)
		}
		if len(p.Entries) > 0 {
			c.Class(fmt.Sprintf("packet/n=%s/net=%v/af=%v", nClass(len(p.Entries)), hasNet(&p), withAF))
		}
	})
	c.Stream("stream", c.N(8000, 300000), func(i int, r *gen.Rand) {
		p := genPAT(r, 42)
		pay := append([]byte{0}, p.Section()...)
		pk := ref.PaddedPacket(0, r.Intn(16), true, pay)
		if r.Chance(3) && len(pay) < 184 {
			pk = ref.PayloadPacket(0, r.Intn(16), true, pay) // the section behind adaptation-field stuffing, ending with the packet
		}
		if r.Chance(3) {
			pk[1] |= 0x20 // transport_priority: a header flag next to the PID, legal on any packet
			c.Count("stream.pat_packet_with_transport_priority")
		}
		var st bytes.Buffer
		before := r.Intn(5)
		if r.Chance(10) {
			before = 20 + r.Intn(100)
		}
		if r.Chance(400) {
			// "any packets of other PIDs": several megabytes of them (no bound on the search is part of the contract)
			before = r.PickInt([]int{22309, 22310, 22311, 30000, 45000, 5578, 5579})
			c.Count("stream.pat_behind_megabytes")
		}
		for k := 0; k < before; k++ {
			o := ref.PaddedPacket(1+r.Intn(8190), r.Intn(16), r.Bool(), r.Bytes(r.Intn(185)))
			if r.Chance(3) {
				// packets of other PIDs come in every shape: with an adaptation field (stuffing, a PCR), without payload, scrambled
				o = ref.PayloadPacket(1+r.Intn(8190), r.Intn(16), r.Bool(), r.Bytes(r.Intn(184)))
				if o[3]&0x20 != 0 && o[4] >= 7 && r.Bool() {
					o[5] = 0x10
					r.Fill(o[6:12])
				}
				if r.Chance(4) {
					o[3] &^= 0x10
					o[4] = 183
				}
				o[3] |= byte(r.PickInt([]int{0, 0, 2, 3})) << 6
			}
			st.Write(o[:])
		}
		noPAT := r.Chance(5)
		if !noPAT {
			st.Write(pk[:])
			for k := r.Intn(3); k > 0; k-- {
				o := ref.PaddedPacket(r.Intn(8191), r.Intn(16), r.Bool(), r.Bytes(r.Intn(185)))
				st.Write(o[:])
			}
		} else if r.Bool() {
			st.Write(pk[:r.Intn(188)]) // a PAT packet cut by the end of the stream
		}
		in := append([]byte{}, st.Bytes()...)
		// "a packet stream" is whatever an io.Reader hands out: all at once, in small pieces, one byte at a
		// time, the last piece together with io.EOF
		var src io.Reader = bytes.NewReader(in)
		switch r.Intn(7) {
		case 5, 6:
			// a seekable reader that its owner has already advanced past earlier packets, among them another
			// PAT: the stream is what is left in it
			old := genPAT(r, 20)
			pre := ref.PaddedPacket(0, r.Intn(16), true, append([]byte{0}, old.Section()...))
			var lead []byte
			for k := r.Intn(3); k > 0; k-- {
				o := ref.PaddedPacket(1+r.Intn(8190), r.Intn(16), r.Bool(), r.Bytes(r.Intn(185)))
				lead = append(lead, o[:]...)
			}
			lead = append(lead, pre[:]...)
			all := append(append([]byte{}, lead...), in...)
			br := bytes.NewReader(all)
			br.Seek(int64(len(lead)), io.SeekStart)
			src = br
			if r.Bool() {
				se := io.NewSectionReader(bytes.NewReader(all), 0, int64(len(all)))
				se.Seek(int64(len(lead)), io.SeekStart)
				src = se
			}
			c.Count("stream.seekable_reader_already_advanced")
		case 1:
			src = &pieces{b: in, max: 1}
		case 2:
			src = &pieces{b: in, max: 1 + r.Intn(400), r: r}
		case 3:
			src = &pieces{b: in, max: 188 * (1 + r.Intn(40)), eofWithData: true}
		case 4:
			src = &pieces{b: in, max: 1 + r.Intn(300), r: r, eofWithData: true}
		}
		if r.Chance(8) {
			// the stream read before this one was of a kind the functions are not made for (a capture with 16
			// parity bytes or a 4-byte time stamp around every packet, a file that is not a transport stream):
			// whatever they made of it, nothing of it carries over to this stream
			var junk []byte
			kind := r.Intn(4)
			for k := 2 + r.Intn(6); k > 0; k-- {
				o := ref.PaddedPacket(r.PickInt([]int{0, 0, 0x100, 1 + r.Intn(8190)}), k&15, k%2 == 0, r.Bytes(r.Intn(100)))
				switch kind {
				case 0: // 204-byte packets
					junk = append(append(junk, o[:]...), r.Bytes(16)...)
				case 1: // 192-byte packets (time stamp first)
					junk = append(append(junk, r.Bytes(4)...), o[:]...)
				case 2:
					junk = append(junk, r.Bytes(188)...)
				default:
					junk = append(junk, o[:100]...)
				}
			}
			psi.ReadPAT(bytes.NewReader(junk))
			psi.ReadPMT(bytes.NewReader(junk), 0x100)
			c.Count("stream.after_a_stream_of_another_kind")
		}
		pat, err := psi.ReadPAT(src)
		c.Eval(1)
		if noPAT {
			c.Count("stream.without_pat")
			// the statement names the error; what accompanies it (nil, an empty table) is not constrained
			if err != gots.ErrPATNotFound {
				c.Fail("stream:not-found", fmt.Sprintf("a stream of %d bytes without a complete PID-0 packet returned %v, %v instead of the not-found error", len(in), pat, err), wit{"stream", "", mon.Hex(tail(in, 400)), ""})
			}
			if pat != nil {
				c.Count("stream.value_next_to_not_found")
			}
			c.Class(fmt.Sprintf("stream/no-pat/before=%d", min(before, 5)))
			return
		}
		if checkPAT(c, "stream", pat, err, &p, tail(in, 600)) && len(p.Entries) > 0 {
			c.Class(fmt.Sprintf("stream/n=%s/net=%v/before=%d", nClass(len(p.Entries)), hasNet(&p), min(before, 5)))
		}
		// a PAT read earlier keeps reporting its own table after other streams were read
		if pat != nil && err == nil {
			for k := 0; k < 2; k++ {
				q := genPAT(r, 42)
				qk := ref.PaddedPacket(0, r.Intn(16), true, append([]byte{0}, q.Section()...))
				var st2 bytes.Buffer
				if k == 1 {
					o := ref.PaddedPacket(1+r.Intn(8190), 0, false, r.Bytes(184))
					st2.Write(o[:]) // this one ends without a PAT
				} else {
					st2.Write(qk[:])
				}
				psi.ReadPAT(bytes.NewReader(st2.Bytes()))
			}
			c.Count("stream.rechecked_after_later_reads")
			checkPAT(c, "stream-after-later-reads", pat, nil, &p, tail(in, 600))
		}
		// another stream whose PAT has the same transport_stream_id, version and number of entries (another
		// multiplex of the same operator, a test vector edited by hand) but lists other programs: every read reports
		// the table of the stream it is given
		if len(p.Entries) > 0 && r.Chance(3) {
			q := p
			q.Entries = nil
			used := map[uint16]bool{}
			for _, e := range p.Entries {
				pn := e.Program
				if pn != 0 {
					for pn = uint16(1 + r.Intn(65535)); used[pn]; {
						pn = uint16(1 + r.Intn(65535))
					}
					used[pn] = true
				}
				q.Entries = append(q.Entries, ref.PATEntry{Program: pn, PID: (e.PID + 1 + r.Intn(100)) & 0x1fff})
			}
			qk := ref.PaddedPacket(0, r.Intn(16), true, append([]byte{0}, q.Section()...))
			var st3 bytes.Buffer
			for k := r.Intn(3); k > 0; k-- {
				o := ref.PaddedPacket(1+r.Intn(8190), r.Intn(16), r.Bool(), r.Bytes(r.Intn(185)))
				st3.Write(o[:])
			}
			st3.Write(qk[:])
			in3 := append([]byte{}, st3.Bytes()...)
			// (the first stream is read once more directly before, so that the two reads follow each other)
			patAgain, errAgain := psi.ReadPAT(bytes.NewReader(in))
			checkPAT(c, "stream-read-again", patAgain, errAgain, &p, tail(in, 600))
			pat3, err3 := psi.ReadPAT(bytes.NewReader(in3))
			c.Count("stream.second_stream_with_the_same_pat_header")
			checkPAT(c, "stream-with-the-same-header-as-the-previous-one", pat3, err3, &q, tail(in3, 600))
		}
	})
	// one PAT read by several goroutines at once (its accessors and IsPMT only read it)
	c.Stream("concurrent-readers-of-one-pat", c.N(8, 200), func(i int, r *gen.Rand) {
		c.ConcurrentReaders("PAT", c.N(300, 300), r, func(q *gen.Rand) func() string {
			p := genPAT(q, 42)
			var pat psi.PAT
			var err error
			if q.Bool() {
				pat, err = psi.NewPAT(append([]byte{0}, p.Section()...))
			} else {
				pk := ref.PaddedPacket(0, q.Intn(16), true, append([]byte{0}, p.Section()...))
				pat, err = psi.ReadPAT(bytes.NewReader(pk[:]))
			}
			if err != nil || pat == nil {
				return func() string { return fmt.Sprintf("a well-formed PAT was rejected: %v", err) }
			}
			want := map[int]int{}
			for _, e := range p.Entries {
				if e.Program != 0 {
					want[int(e.Program)] = e.PID
				}
			}
			probe := ref.PaddedPacket(0x1fff, 0, false, nil)
			if len(p.Entries) > 0 {
				probe = ref.PaddedPacket(p.Entries[0].PID, 3, false, []byte{1, 2, 3})
			}
			pp := packet.Packet(probe)
			wantPMT := false
			for _, pid := range want {
				if pid == pp.PID() {
					wantPMT = true
				}
			}
			return func() string {
				if n := pat.NumPrograms(); n != len(p.Entries) {
					return fmt.Sprintf("NumPrograms() = %d, the section has %d entries", n, len(p.Entries))
				}
				m := pat.ProgramMap()
				if len(m) != len(want) {
					return fmt.Sprintf("ProgramMap() has %d entries, the section has %d programs", len(m), len(want))
				}
				for k, v := range want {
					if m[k] != v {
						return fmt.Sprintf("ProgramMap()[%d] = %#x, encoded %#x", k, m[k], v)
					}
				}
				if g, err := psi.IsPMT(&pp, pat); err != nil || g != wantPMT {
					return fmt.Sprintf("IsPMT(packet on PID %#x) = %v, %v; want %v", pp.PID(), g, err, wantPMT)
				}
				return ""
			}
		})
		c.Class("concurrent-readers-of-one-pat")
	})
	// nil PAT is an error
	var pk packet.Packet
	if g, err := psi.IsPMT(&pk, nil); err != gots.ErrNilPAT || g {
		c.Fail("IsPMT:nil-pat", fmt.Sprintf("IsPMT(pkt, nil) = %v, %v; want false and the nil-PAT error", g, err), nil)
	}
	c.Floor("stream.without_pat", 100)
	c.Floor("stream.seekable_reader_already_advanced", 500)
	c.Floor("stream.second_stream_with_the_same_pat_header", 300)
	c.Floor("stream.pat_behind_megabytes", 5)
}

// pieces is a reader that hands out its bytes in pieces of at most max bytes (random sizes when r is set) and,
// if eofWithData is set, returns io.EOF together with the last piece instead of on a separate call.
type pieces struct {
	b           []byte
	max         int
	r           *gen.Rand
	eofWithData bool
}

func (p *pieces) Read(out []byte) (int, error) {
	if len(p.b) == 0 {
		return 0, io.EOF
	}
	n := p.max
	if p.r != nil {
		n = 1 + p.r.Intn(p.max)
	}
	if n > len(out) {
		n = len(out)
	}
	n = copy(out[:n], p.b)
	p.b = p.b[n:]
	if len(p.b) == 0 && p.eofWithData {
		return n, io.EOF
	}
	return n, nil
}

func tail(b []byte, n int) []byte {
	if len(b) > n {
		return b[len(b)-n:]
	}
	return b
}

func hasNet(p *ref.PAT) bool {
	for _, e := range p.Entries {
		if e.Program == 0 {
			return true
		}
	}
	return false
}

func nClass(n int) string {
	switch {
	case n <= 3:
		return fmt.Sprint(n)
	case n < 42:
		return "4-41"
	case n == 42:
		return "42"
	case n < 253:
		return "43-252"
	}
	return "253"
}

func min(a, b int) int {
	if a < b {
		return a
	}
	return b
}
