// C15 — PTS arithmetic is consistent modulo 2^33 across rollover.
package main

import (
	"fmt"

	gots "github.com/Comcast/gots/v2"

	"verif/harness/internal/gen"
	"verif/harness/internal/mon"
)

func main() { mon.Main("C15", run) }

const (
	mod    = uint64(1) << 33
	maxV   = mod - 1
	window = uint64(162000000) // 30 minutes of 90 kHz ticks
	lower  = window
	upper  = maxV - window
)

type wit struct {
	P    uint64 `json:"p"`
	Q    uint64 `json:"q,omitempty"`
	D    uint64 `json:"d,omitempty"`
	Note string `json:"note"`
}

func neighbourhood() []uint64 {
	var v []uint64
	seen := map[uint64]bool{}
	for _, c := range []uint64{0, lower, upper, maxV} {
		for k := -64; k <= 64; k++ {
			x := int64(c) + int64(k)
			if x < 0 || uint64(x) > maxV {
				continue
			}
			if !seen[uint64(x)] {
				seen[uint64(x)] = true
				v = append(v, uint64(x))
			}
		}
	}
	return v
}

func zone(p uint64) string {
	switch {
	case p < lower:
		return "first30"
	case p == lower:
		return "atL"
	case p > upper:
		return "last30"
	case p == upper:
		return "atU"
	}
	return "middle"
}

func pair(c *mon.Ctx, p, q uint64) {
	P, Q := gots.PTS(p), gots.PTS(q)
	c.Eval(1)
	fail := func(sig, note string) {
		c.Fail(sig, fmt.Sprintf("p=%d q=%d: %s", p, q, note), wit{P: p, Q: q, Note: note})
	}
	// rollover definition
	want := p < lower && q > upper
	if g := P.RolledOver(Q); g != want {
		fail("rolledover:definition", fmt.Sprintf("p.RolledOver(q)=%v but p<162000000=%v and q>2^33-1-162000000=%v", g, p < lower, q > upper))
	}
	pq, qp := P.After(Q), Q.After(P)
	n := 0
	if pq {
		n++
	}
	if qp {
		n++
	}
	if p == q {
		n++
		if pq || qp {
			fail("order:irreflexive", "p.After(p) is true")
		}
	}
	if n != 1 {
		fail("order:trichotomy", fmt.Sprintf("p.After(q)=%v q.After(p)=%v p==q=%v: exactly one must hold", pq, qp, p == q))
	}
	if g := P.GreaterOrEqual(Q); g != (pq || p == q) {
		fail("order:greater-or-equal", fmt.Sprintf("p.GreaterOrEqual(q)=%v but After=%v equal=%v", g, pq, p == q))
	}
	d1, d2 := P.DurationFrom(Q), Q.DurationFrom(P)
	if d1 != d2 {
		fail("duration:symmetric", fmt.Sprintf("p.DurationFrom(q)=%d but q.DurationFrom(p)=%d", d1, d2))
	}
	if (d1 == 0) != (p == q) {
		fail("duration:zero-iff-equal", fmt.Sprintf("DurationFrom=%d", d1))
	}
}

func add(c *mon.Ctx, p, d uint64) {
	P := gots.PTS(p)
	c.Eval(1)
	fail := func(sig, note string) {
		c.Fail(sig, fmt.Sprintf("p=%d d=%d: %s", p, d, note), wit{P: p, D: d, Note: note})
	}
	s := P.Add(gots.PTS(d))
	want := (p + d) % mod
	if uint64(s) != want {
		fail("add:value", fmt.Sprintf("p.Add(d)=%d, (p+d) mod 2^33=%d", uint64(s), want))
		return
	}
	if !s.After(P) {
		fail("add:after", "p.Add(d) is not After p")
	}
	if P.After(s) {
		fail("add:not-vice-versa", "p is After p.Add(d)")
	}
	wrapped := p+d >= mod
	if g := s.RolledOver(P); g != wrapped {
		fail("add:rolledover-iff-wrapped", fmt.Sprintf("p.Add(d).RolledOver(p)=%v but the addition wrapped=%v", g, wrapped))
	}
	if g := s.DurationFrom(P); g != d {
		fail("add:duration", fmt.Sprintf("p.Add(d).DurationFrom(p)=%d, want d", g))
	}
	if g := P.DurationFrom(s); g != d {
		fail("add:duration-reverse", fmt.Sprintf("p.DurationFrom(p.Add(d))=%d, want d", g))
	}
}

func sentinels(c *mon.Ctx, p uint64) {
	P := gots.PTS(p)
	c.Eval(1)
	if !P.After(gots.PtsNegativeInfinity) {
		c.Fail("sentinel:neg-infinity", fmt.Sprintf("finite time %d is not After the negative-infinity sentinel", p), wit{P: p, Note: "After(PtsNegativeInfinity)"})
	}
	if P.After(gots.PtsPositiveInfinity) {
		c.Fail("sentinel:pos-infinity", fmt.Sprintf("finite time %d is After the positive-infinity sentinel", p), wit{P: p, Note: "After(PtsPositiveInfinity)"})
	}
}

var coldDone bool

func run(c *mon.Ctx) {
	c.Rule("pairs: all pairs from the +-64 neighbourhoods of 0, the two rollover thresholds and 2^33-1 (exhaustive), plus PRNG pairs; Add: p from the same neighbourhoods and PRNG, d in {1,2,window-1,window} and PRNG <= window. distinct non-trivial = distinct (zone(p), zone(q), order relation, distance-to-boundary class) / (zone(p), wrapped, d class) with p != q")
	c.Assume("oracle = the definitions in the property statement computed with uint64 arithmetic; After on general pairs is only held to the stated axioms (irreflexive, asymmetric, total), not to a particular formula")
	nb := neighbourhood()
	c.Exhaustive("all ordered pairs over the boundary neighbourhoods", int64(len(nb)*len(nb)))
	// ---- the first call in a fresh process: each operation in turn is the very first thing a worker process asks
	// of the package, on a pair across the wrap (whatever is derived on first use is derived by that operation)
	c.Floor("cold_start.first_call_in_process", 5)
	c.StreamSeedless("cold-start", 16, func(k int, r *gen.Rand) {
		if coldDone {
			c.Class("cold-start/later-in-the-process")
			return
		}
		coldDone = true
		d := []uint64{16, 1, window, 90000}[k/4%4]
		p := maxV - d/2
		P, S := gots.PTS(p), gots.PTS((p+d)%mod)
		bad := ""
		switch k % 5 {
		case 0:
			if got := S.DurationFrom(P); got != d {
				bad = fmt.Sprintf("DurationFrom = %d, want %d", got, d)
			}
		case 1:
			if got := P.DurationFrom(S); got != d {
				bad = fmt.Sprintf("DurationFrom (later time as argument) = %d, want %d", got, d)
			}
		case 2:
			if !S.After(P) || P.After(S) {
				bad = "After does not order the pair"
			}
		case 3:
			if !S.RolledOver(P) || P.RolledOver(S) {
				bad = "RolledOver does not report the wrap"
			}
		default:
			if got := P.Add(gots.PTS(d)); got != S || !S.GreaterOrEqual(P) {
				bad = fmt.Sprintf("Add = %d, want %d, or GreaterOrEqual false", got, S)
			}
		}
		c.Eval(1)
		c.Count("cold_start.first_call_in_process")
		if bad != "" {
			c.Fail("cold-start", fmt.Sprintf("the first PTS operation of the process, on p=%d and p+%d across the wrap: %s", p, d, bad), nil)
		}
		add(c, p, d)
		c.Class(fmt.Sprintf("cold-start/op=%d", k%5))
	})
	c.Floor("concurrent.calls", 20000)
	c.Stream("concurrent-callers", c.N(8, 200), func(i int, r *gen.Rand) {
		c.Concurrent("PTS arithmetic", 8, 250000, r, func(q *gen.Rand) string {
			p := q.Uint64() & maxV
			if q.Chance(3) {
				p = maxV - q.Uint64()%(2*window)
			}
			d := 1 + q.Uint64()%window
			if q.Bool() {
				// a handful of values that every goroutine keeps asking about: the same question from two callers at once
				p = []uint64{0, 1, lower - 1, lower, upper, upper + 1, maxV, maxV - 1}[q.Intn(8)]
				d = []uint64{1, 2, window}[q.Intn(3)]
			}
			P := gots.PTS(p)
			s := P.Add(gots.PTS(d))
			wrapped := p+d >= mod
			if uint64(s) != (p+d)%mod || !s.After(P) || P.After(s) || !s.GreaterOrEqual(P) || s.RolledOver(P) != wrapped || s.DurationFrom(P) != d || P.DurationFrom(s) != d {
				return fmt.Sprintf("p=%d d=%d: Add=%d After=%v/%v RolledOver=%v DurationFrom=%d/%d", p, d, s, s.After(P), P.After(s), s.RolledOver(P), s.DurationFrom(P), P.DurationFrom(s))
			}
			return ""
		})
		c.Class("concurrent-callers")
	})
	c.StreamSeedless("boundary-pairs", len(nb), func(i int, r *gen.Rand) {
		p := nb[i]
		for _, q := range nb {
			pair(c, p, q)
			if p != q {
				c.Class(fmt.Sprintf("pair/%s/%s/gt=%v/near=%v", zone(p), zone(q), p > q, absdiff(p, q) <= 2))
			}
		}
		sentinels(c, p)
		for _, d := range []uint64{1, 2, 3, 63, 64, 65, window - 1, window, window / 2, maxV - p, maxV - p + 1, maxV - p + 2} {
			if d >= 1 && d <= window {
				add(c, p, d)
				if c.Class(fmt.Sprintf("add/%s/wrapped=%v/dclass=%s", zone(p), p+d >= mod, dclass(d))) && c.WantSample() && p+d >= mod {
					c.Sample(func() interface{} {
						return wit{P: p, D: d, Note: fmt.Sprintf("Add -> %d, wrapped", (p+d)%mod)}
					})
				}
			}
		}
	})
	// pairs whose distance is a power of two or one off it (half the timeline, 2^31, 2^16, ...): arithmetic
	// narrowed to fewer than 33 bits shows here and nowhere near the boundaries
	c.Exhaustive("distances 2^k-1, 2^k, 2^k+1 for k = 0..32 from every boundary-neighbourhood value", int64(33*3*len(nb)))
	c.StreamSeedless("power-of-two-distances", 33, func(k int, r *gen.Rand) {
		for _, dd := range []uint64{1<<uint(k) - 1, 1 << uint(k), 1<<uint(k) + 1} {
			for j := 0; j < len(nb)+64; j++ {
				var p uint64
				if j < len(nb) {
					p = nb[j]
				} else {
					p = r.Uint64() & maxV
				}
				q := (p + dd) & maxV
				pair(c, p, q)
				pair(c, p, p^(1<<uint(k)))
				if p != q {
					c.Class(fmt.Sprintf("pow2/k=%d/%s", k, zone(p)))
				}
			}
		}
	})
	// the functions are functions of their two arguments: the answer does not depend on the call made just
	// before (receivers that differ by multiples of 2^31, 2^32 against the same argument; the same pair again)
	c.Stream("call-sequences", c.N(2000, 2000000), func(i int, r *gen.Rand) {
		f := r.Uint64() & maxV
		a := r.Uint64() & maxV
		if r.Chance(3) {
			a = nb[r.Intn(len(nb))]
		}
		step := r.PickU64([]uint64{1 << 31, 1 << 32, 3 << 31, 1 << 30, 1 << 16, 1})
		b := (a + step) & maxV
		F, A, B := gots.PTS(f), gots.PTS(a), gots.PTS(b)
		unrelated := func() {
			u, v := gots.PTS(r.Uint64()&maxV), gots.PTS(r.Uint64()&maxV)
			u.DurationFrom(v)
			u.After(v)
			u.RolledOver(v)
			u.GreaterOrEqual(v)
		}
		unrelated()
		d1, af1, ro1, ge1 := B.DurationFrom(F), B.After(F), B.RolledOver(F), B.GreaterOrEqual(F) // asked after an unrelated pair
		unrelated()
		A.DurationFrom(F)
		A.After(F)
		A.RolledOver(F)
		A.GreaterOrEqual(F)
		d2, af2, ro2, ge2 := B.DurationFrom(F), B.After(F), B.RolledOver(F), B.GreaterOrEqual(F) // asked right after the pair (a, f)
		unrelated()
		F.DurationFrom(A)
		d3 := F.DurationFrom(B)
		c.Eval(3)
		if d1 != d2 || af1 != af2 || ro1 != ro2 || ge1 != ge2 {
			c.Fail("sequence:answer-depends-on-previous-call", fmt.Sprintf("%d.DurationFrom/After/RolledOver/GreaterOrEqual(%d) = %d/%v/%v/%v when asked first and %d/%v/%v/%v when asked right after the same questions for %d", b, f, d1, af1, ro1, ge1, d2, af2, ro2, ge2, a), wit{P: b, Q: f, Note: fmt.Sprintf("the call in between had receiver %d", a)})
		}
		if d3 != d1 {
			c.Fail("duration:symmetric", fmt.Sprintf("p.DurationFrom(q)=%d but q.DurationFrom(p)=%d (asked right after q.DurationFrom(%d))", d1, d3, a), wit{P: b, Q: f})
		}
		c.Class(fmt.Sprintf("call-sequence/step=%d", step>>16))
	})
	c.Stream("random-pairs", c.N(2000, 6000000), func(i int, r *gen.Rand) {
		for k := 0; k < 500; k++ {
			p, q := r.Uint64()&maxV, r.Uint64()&maxV
			switch r.Intn(6) {
			case 0: // one operand near a boundary
				p = nb[r.Intn(len(nb))]
			case 1:
				q = nb[r.Intn(len(nb))]
			case 2: // inside the two windows
				p, q = r.Uint64()%lower, upper+1+r.Uint64()%window
			case 3:
				q = (p + r.Uint64()%1000) & maxV
			}
			pair(c, p, q)
			c.Class(fmt.Sprintf("rpair/%s/%s/gt=%v", zone(p), zone(q), p > q))
		}
		for k := 0; k < 200; k++ {
			p := r.Uint64() & maxV
			if r.Chance(3) {
				p = maxV - r.Uint64()%(2*window)
			}
			d := 1 + r.Uint64()%window
			add(c, p, d)
			sentinels(c, p)
			c.Class(fmt.Sprintf("radd/%s/wrapped=%v/dclass=%s", zone(p), p+d >= mod, dclass(d)))
		}
	})
	// constants the statement names
	// (the two threshold constants are the library's way of spelling the windows: "last 30 minutes" can be written
	// as "> 2^33-1-162000000" or ">= 2^33-162000000"; the windows themselves are checked through RolledOver above)
	if gots.MaxPtsValue != maxV || gots.MaxPtsTicks != mod {
		c.Fail("constants", "the exported PTS constants MaxPtsValue / MaxPtsTicks differ from 2^33-1 and 2^33", nil)
	}
}

func absdiff(a, b uint64) uint64 {
	if a > b {
		return a - b
	}
	return b - a
}

func dclass(d uint64) string {
	switch {
	case d <= 2:
		return fmt.Sprint(d)
	case d == window:
		return "window"
	case d == window-1:
		return "window-1"
	case d < 1000:
		return "small"
	case d < window/2:
		return "lowhalf"
	}
	return "highhalf"
}
