// C02 — header and payload partition the packet; setting a payload reads back exactly.
package main

import (
	"bytes"
	"fmt"

	"github.com/Comcast/gots/v2/packet"

	"verif/harness/internal/gen"
	"verif/harness/internal/mon"
	"verif/harness/internal/ref"
)

func main() { mon.Main("C02", run) }

type wit struct {
	Op     string `json:"op"`
	Before string `json:"packet_before"`
	After  string `json:"packet_after,omitempty"`
	Want   string `json:"packet_expected,omitempty"`
	N      int    `json:"payload_len_requested,omitempty"`
	Detail string `json:"detail"`
}

func desc(m *ref.TSPacket) string {
	afc := m.Hdr[3] >> 4 & 3
	if afc == 1 {
		return "afc=01"
	}
	c := 0
	fl := byte(0)
	if m.L > 0 {
		c = m.AF.Size()
		fl = m.AF.Content()[0]
	}
	return fmt.Sprintf("afc=%02b L=%d flags=%02x content=%d", afc, m.L, fl, c)
}

func lClass(m *ref.TSPacket) string {
	if !m.HasAF() {
		return "none"
	}
	switch {
	case m.L == 0:
		return "0"
	case m.L == 1:
		return "1"
	case m.L < 8:
		return "2-7"
	case m.L < 181:
		return "8-180"
	case m.L < 183:
		return "181-182"
	}
	return "183"
}

func partition(c *mon.Ctx, m *ref.TSPacket) {
	raw := m.Bytes()
	p := packet.Packet(raw)
	orig := p
	hl := m.HeaderLen()
	c.Eval(1)
	w := func(d string) wit {
		return wit{Op: "partition", Before: mon.Hex(orig[:]), Detail: d + " (" + desc(m) + ")"}
	}
	if h := packet.Header(&p); !bytes.Equal(h, orig[:hl]) {
		c.Fail("partition:header", fmt.Sprintf("Header() returned %d bytes, the header (4 bytes + adaptation field) is %d bytes (%s)", len(h), hl, desc(m)), w(""))
	}
	pf, ef := packet.Payload(&p)
	pm, em := p.Payload()
	if !m.HasPayload() {
		if ef == nil || em == nil || len(pf) != 0 || len(pm) != 0 { // an empty non-nil slice next to the error carries no bytes either
			c.Fail("partition:payload-without-flag", fmt.Sprintf("a packet without the payload flag yielded payload bytes / no error (function: %d bytes, %v; method: %d bytes, %v)", len(pf), ef, len(pm), em), w(""))
		}
		c.Count("partition.no_payload_flag")
	} else {
		if ef != nil || !bytes.Equal(pf, orig[hl:]) {
			c.Fail("partition:payload-func", fmt.Sprintf("packet.Payload returned %d bytes (%v), the trailing part is %d bytes (%s)", len(pf), ef, 188-hl, desc(m)), w(""))
		}
		if em != nil || !bytes.Equal(pm, orig[hl:]) {
			c.Fail("partition:payload-method", fmt.Sprintf("(*Packet).Payload returned %d bytes (%v), the trailing part is %d bytes (%s)", len(pm), em, 188-hl, desc(m)), w(""))
		}
		if len(pm) > 0 {
			for i := range pm {
				pm[i] ^= 0xff
			}
			if p != orig {
				c.Fail("partition:payload-method-aliases", "modifying the slice returned by (*Packet).Payload changed the packet", w(""))
				p = orig
			}
		}
		c.Count("partition.with_payload")
	}
	if p != orig {
		c.Fail("partition:mutates", "a read accessor modified the packet", w(""))
	}
}

var slot packet.Packet
var arena [3 * 188]byte

func setPayload(c *mon.Ctx, m *ref.TSPacket, n int, r *gen.Rand) {
	raw := m.Bytes()
	// every case is loaded into the same packet object, the way a muxer re-uses its packet buffers:
	// what an earlier SetPayload learnt about the previous occupant must not matter
	p := &slot
	arenaOff := -1
	if r.Chance(5) {
		// ... or the packet is one of several in a larger receive buffer, at any position in it
		arenaOff = r.Intn(2*188 + 1)
		p = (*packet.Packet)(arena[arenaOff : arenaOff+188])
		c.Count("setpayload.packet_inside_a_larger_buffer")
	}
	*p = packet.Packet(raw)
	orig := *p
	data := r.Bytes(n)
	alias := false
	if m.Hdr[3]&0x10 != 0 && r.Chance(6) {
		// the argument is a view into this very packet - part of what the function-form Payload returned (a payload
		// cut short in place), or any other stretch of its bytes: the bytes to store are the ones it holds at the call
		alias = true
		a := r.Intn(188)
		if v, err := packet.Payload(p); err == nil && len(v) > 0 && r.Bool() {
			a = 188 - len(v) + r.Intn(len(v))
			if r.Bool() {
				a = 188 - len(v)
			}
		}
		b := a + r.Intn(188-a+1)
		data = p[a:b]
		switch {
		case r.Chance(4):
			data = p[a:b:b] // a view that ends where its bytes end (no spare capacity behind it)
			c.Count("setpayload.argument_is_a_view_without_spare_capacity")
		case arenaOff >= 0 && r.Bool():
			data = arena[arenaOff+a : arenaOff+b] // cut from the enclosing buffer: its capacity runs on behind the packet
			c.Count("setpayload.argument_is_cut_from_the_enclosing_buffer")
		}
		n = len(data)
		c.Count("setpayload.argument_is_a_view_into_the_packet")
	}
	dsnap := append([]byte{}, data...)
	cnt, err := p.SetPayload(data)
	c.Eval(1)
	w := func(d string, want *packet.Packet) wit {
		x := wit{Op: "SetPayload", Before: mon.Hex(orig[:]), After: mon.Hex(p[:]), N: n, Detail: d + " (" + desc(m) + ")"}
		if want != nil {
			x.Want = mon.Hex(want[:])
		}
		return x
	}
	if !alias && !bytes.Equal(data, dsnap) {
		c.Fail("setpayload:mutates-data", "SetPayload modified the caller's data slice", w("", nil))
	}
	data = dsnap // (for an argument inside the packet: what it held when the call was made)
	afc := m.Hdr[3] >> 4 & 3
	if afc == 2 {
		c.Count("setpayload.refused_af_only")
		if err == nil || *p != orig {
			c.Fail("setpayload:af-only-not-refused", fmt.Sprintf("SetPayload on an adaptation-field-only packet returned %d, %v and changed the packet: %v", cnt, err, *p != orig), w("", nil))
		}
		return
	}
	content := []byte{}
	if afc == 3 && m.L > 0 {
		content = m.AF.Content()
	}
	capa := 184
	if afc == 3 {
		capa = 183 - len(content)
	}
	k := n
	if k > capa {
		k = capa
	}
	rel := "below"
	if n == capa {
		rel = "equal"
	} else if n > capa {
		rel = "above"
	}
	c.Count("setpayload.n_" + rel + "_capacity")
	if capa == 0 {
		c.Count("setpayload.capacity_zero")
	}
	// a truncating store (n above the capacity) may come with an error value next to the short count, as an
	// io.Writer would do: the statement asks for the count and the stored bytes, and names an error only for the refusal
	if err != nil && n > capa {
		c.Count("setpayload.error_next_to_short_count")
		err = nil
	}
	if err != nil || cnt != k {
		c.Fail("setpayload:count/"+rel, fmt.Sprintf("SetPayload(%d bytes) returned %d, %v; capacity is %d so %d bytes must be stored (%s)", n, cnt, err, capa, k, desc(m)), w(fmt.Sprintf("capacity=%d", capa), nil))
		return
	}
	// expected packet
	want := orig
	if afc == 1 && k == 184 {
		// the payload fills the packet: no adaptation field is needed
	} else {
		want[3] |= 0x30
		newL := 183 - k
		want[4] = byte(newL)
		cc := content
		if len(cc) == 0 {
			cc = []byte{0x00} // a field that is created, or grows from length 0, has no flags set
		}
		if newL > 0 {
			copy(want[5:], cc)
			for i := 5 + len(cc); i < 5+newL; i++ {
				want[i] = 0xff
			}
		}
	}
	copy(want[188-k:], data[:k])
	if *p != want {
		d := ref.FirstDiff(p[:], want[:])
		sig := "setpayload:bytes/"
		switch {
		case afc == 1:
			sig += "afc01"
		case m.L == 0:
			sig += "afc11-L0"
		default:
			sig += "afc11"
		}
		sig += "/" + rel
		c.Fail(sig, fmt.Sprintf("after SetPayload(%d bytes) byte %d is %#02x, expected %#02x (%s, capacity %d)", n, d, p[d], want[d], desc(m), capa), w(fmt.Sprintf("first difference at byte %d", d), &want))
		return
	}
	// reading the payload back
	back, e1 := p.Payload()
	back2, e2 := packet.Payload(p)
	if e1 != nil || e2 != nil || !bytes.Equal(back, data[:k]) || !bytes.Equal(back2, data[:k]) {
		c.Fail("setpayload:readback", fmt.Sprintf("Payload() after SetPayload returned %d / %d bytes (%v, %v), stored %d", len(back), len(back2), e1, e2, k), w("", &want))
	}
	flags := byte(0)
	if len(content) > 0 {
		flags = content[0]
	}
	if c.Class(fmt.Sprintf("setpayload/afc=%d/L=%s/flags=%02x/n-%s", afc, lClass(m), flags&0x1f, rel)) && c.WantSample() && afc == 3 && len(content) > 8 && rel == "below" {
		c.Sample(func() interface{} { return w(fmt.Sprintf("stored %d bytes, capacity %d", k, capa), &want) })
	}
}

func setAFC(c *mon.Ctx, m *ref.TSPacket, v int) {
	raw := m.Bytes()
	p := packet.Packet(raw)
	orig := p
	hadAF := m.HasAF()
	err := p.SetAdaptationFieldControl(packet.AdaptationFieldControlOptions(v))
	c.Eval(1)
	w := wit{Op: fmt.Sprintf("SetAdaptationFieldControl(%02b)", v), Before: mon.Hex(orig[:]), After: mon.Hex(p[:]), Detail: desc(m)}
	if int(p[3]>>4&3) != v || int(p.AdaptationFieldControl()) != v {
		c.Fail("setafc:bits", fmt.Sprintf("after SetAdaptationFieldControl(%02b) the control bits are %02b (err %v)", v, p[3]>>4&3, err), w)
	}
	if p[0] != orig[0] || p[1] != orig[1] || p[2] != orig[2] || p[3]&0xcf != orig[3]&0xcf {
		c.Fail("setafc:other-header-bits", "SetAdaptationFieldControl changed header bits outside adaptation_field_control", w)
	}
	if !hadAF && v >= 2 {
		// a newly created adaptation field must be well-formed
		L := int(p[4])
		okL := (v == 2 && L == 183) || (v == 3 && L <= 182)
		wf := okL
		if wf && L > 0 {
			if p[5] != 0 {
				wf = false
			}
			for i := 6; i < 5+L; i++ {
				if p[i] != 0xff {
					wf = false
				}
			}
		}
		c.Count("setafc.created_af")
		if !wf {
			c.Fail("setafc:created-af-malformed", fmt.Sprintf("the adaptation field created by SetAdaptationFieldControl(%02b) is not well-formed: length %d, flags %#02x", v, L, p[5]), w)
		}
	}
	c.Class(fmt.Sprintf("setafc/from=%d/to=%d/L=%s", m.Hdr[3]>>4&3, v, lClass(m)))
}

func creation(c *mon.Ctx, r *gen.Rand) {
	pid, cc := r.Intn(8192), uint8(r.Intn(16))
	if r.Chance(4) {
		pid = r.PickInt([]int{0, 1, 0xff, 0x100, 0x1fff, 0x1000})
	}
	pusi, hasPay := r.Bool(), r.Bool()
	w := func(p *packet.Packet, d string) wit { return wit{Op: "create", After: mon.Hex(p[:]), Detail: d} }
	c.Eval(4)
	p := packet.CreateTestPacket(pid, cc, pusi, hasPay)
	if p == nil || p[0] != 0x47 || p.PID() != pid || p.ContinuityCounter() != int(cc) || p.HasPayload() != hasPay || (hasPay && p.PayloadUnitStartIndicator() != pusi) {
		c.Fail("create:CreateTestPacket", fmt.Sprintf("CreateTestPacket(pid=%d, cc=%d, pusi=%v, hasPay=%v) does not carry the requested sync/PID/counter/flags", pid, cc, pusi, hasPay), w(p, ""))
	}
	// the helpers are asked for the same packet again after the first one was put to use (its PID, counter,
	// flags and payload changed): the second one is again the one requested
	if p != nil {
		first := *p
		p.SetPID((pid + 1 + r.Intn(8000)) & 0x1fff)
		p.SetContinuityCounter(int(cc+1+uint8(r.Intn(14))) & 15)
		p.SetTransportScramblingControl(packet.ScrambleEvenKeyFlag)
		if hasPay {
			p.SetPayload(r.Bytes(1 + r.Intn(100)))
		}
		again := packet.CreateTestPacket(pid, cc, pusi, hasPay)
		c.Count("create.same_request_again")
		if again == nil || *again != first {
			c.Fail("create:CreateTestPacket-again", fmt.Sprintf("a second CreateTestPacket(pid=%d, cc=%d, pusi=%v, hasPay=%v), made after the first result had been modified, does not return the same packet as the first call did", pid, cc, pusi, hasPay), w(again, "first result was "+mon.Hex(first[:])))
		}
		for _, q := range []*packet.Packet{packet.CreateDCPacket(pid, cc), packet.CreatePacketWithPayload(pid, cc, []byte{1, 2, 3}), packet.Create(pid)} {
			if q != nil {
				q.SetPID(0x1abc)
				q[10] ^= 0xff
			}
		}
	}
	p = packet.CreateDCPacket(pid, cc)
	if p == nil || p[0] != 0x47 || p.PID() != pid || p.ContinuityCounter() != int(cc) || !p.HasPayload() {
		c.Fail("create:CreateDCPacket", fmt.Sprintf("CreateDCPacket(pid=%d, cc=%d) does not carry the requested sync/PID/counter/payload flag", pid, cc), w(p, ""))
	}
	n := r.Intn(200)
	if r.Chance(3) {
		n = r.PickInt([]int{0, 1, 183, 184, 185})
	}
	pay := r.Bytes(n)
	p = packet.CreatePacketWithPayload(pid, cc, pay)
	k := n
	if k > 184 {
		k = 184
	}
	got, err := packet.Payload(p)
	if p == nil || p[0] != 0x47 || p.PID() != pid || p.ContinuityCounter() != int(cc) || !p.HasPayload() || err != nil || len(got) < k || !bytes.Equal(got[:k], pay[:k]) {
		c.Fail("create:CreatePacketWithPayload", fmt.Sprintf("CreatePacketWithPayload(pid=%d, cc=%d, %d bytes) does not carry the requested sync/PID/counter/payload", pid, cc, n), w(p, ""))
	}
	p = packet.Create(pid, packet.WithHasPayloadFlag, packet.WithPUSI)
	if p == nil || p[0] != 0x47 || p.PID() != pid || !p.HasPayload() || !p.PayloadUnitStartIndicator() || p.HasAdaptationField() {
		c.Fail("create:Create", fmt.Sprintf("Create(pid=%d, WithHasPayloadFlag, WithPUSI) does not carry the requested sync/PID/flags", pid), w(p, ""))
	}
	// option lists that share a backing array (built incrementally / sub-sliced): Create must not write into them
	pay4 := r.Bytes(4)
	opts := make([]func(*packet.Packet), 0, 8)
	opts = append(opts, packet.WithHasPayloadFlag)
	short := opts[:1]
	opts = append(opts, packet.WithPUSI, func(q *packet.Packet) { packet.SetPayload(q, pay4) })
	p1 := packet.Create(pid, short...)
	p2 := packet.Create(pid, opts...)
	c.Eval(2)
	if p1 == nil || p1[0] != 0x47 || p1.PID() != pid || !p1.HasPayload() || p1.PayloadUnitStartIndicator() {
		c.Fail("create:Create-sublist", "Create with a one-option list does not carry exactly the requested flags", w(p1, ""))
	}
	if got2, err := packet.Payload(p2); p2 == nil || p2[0] != 0x47 || p2.PID() != pid || !p2.HasPayload() || !p2.PayloadUnitStartIndicator() || err != nil || !bytes.Equal(got2[:4], pay4) {
		c.Fail("create:Create-option-list-overwritten", "a second Create with a longer option list that shares its backing array with the first call's list lost a requested option", w(p2, ""))
	}
	// the flag options in every order: each one sets its flag and leaves the others alone
	type opt struct {
		f    func(*packet.Packet)
		name string
	}
	all := []opt{{packet.WithHasPayloadFlag, "WithHasPayloadFlag"}, {packet.WithHasAdaptationFieldFlag, "WithHasAdaptationFieldFlag"}, {packet.WithPUSI, "WithPUSI"}}
	perm := r.Perm(3)
	use := 1 + r.Intn(3)
	var fs []func(*packet.Packet)
	names, want := "", map[string]bool{}
	for _, k := range perm[:use] {
		fs = append(fs, all[k].f)
		names += all[k].name + ", "
		want[all[k].name] = true
	}
	p = packet.Create(pid, fs...)
	c.Eval(1)
	if p == nil || p[0] != 0x47 || p.PID() != pid || p.HasPayload() != want["WithHasPayloadFlag"] || p.HasAdaptationField() != want["WithHasAdaptationFieldFlag"] || p.PayloadUnitStartIndicator() != want["WithPUSI"] {
		c.Fail("create:Create-option-order", fmt.Sprintf("Create(pid=%d, %s) does not carry exactly the requested flags", pid, names), w(p, names))
	}
	pts := r.U33()
	p = packet.Create(pid)
	packet.WithPES(p, pts)
	if hb, err := packet.Payload(p); err != nil || len(hb) < 14 || hb[0] != 0 || hb[1] != 0 || hb[2] != 1 || ref.DecPTS(hb[9:14]) != pts {
		c.Fail("create:WithPES", fmt.Sprintf("WithPES(pts=%d) did not produce a payload starting with a PES header carrying that PTS", pts), w(p, ""))
	}
	c.Class(fmt.Sprintf("create/pusi=%v/pay=%v/n=%d", pusi, hasPay, min(n/46, 4)))
}

func min(a, b int) int {
	if a < b {
		return a
	}
	return b
}

func lengths(capa int) []int {
	v := []int{0, 1, 2, 182, 183, 184, 185, 200}
	for _, d := range []int{-2, -1, 0, 1, 2} {
		if x := capa + d; x >= 0 && x <= 200 {
			v = append(v, x)
		}
	}
	return v
}

func run(c *mon.Ctx) {
	c.Rule("well-formed packets from a reference builder: payload only, adaptation field only (length 183), both (every adaptation_field_length 0..182) with random combinations of optional fields that fit (including exactly full fields); SetPayload lengths 0..200 with capacity-2..capacity+2 forced; creation helpers with all PIDs/counters sampled. distinct non-trivial = distinct (operation, AFC, adaptation_field_length class, optional-field flag set, relation of n to capacity)")
	c.Assume("well-formed means ISO/IEC 13818-1: AFC=10 => adaptation_field_length 183, AFC=11 => 0..182, content within the length, 0xFF stuffing; SetAdaptationFieldControl is held only to the weak facts of DESIGN section 5.C02")
	c.Floor("setpayload.argument_is_a_view_into_the_packet", 500)
	c.Floor("setpayload.argument_is_a_view_without_spare_capacity", 60)
	c.Floor("setpayload.argument_is_cut_from_the_enclosing_buffer", 20)
	c.Floor("setpayload.packet_inside_a_larger_buffer", 1000)
	c.Floor("setpayload.refused_af_only", 200)
	c.Floor("setpayload.n_equal_capacity", 500)
	c.Floor("setpayload.n_above_capacity", 500)
	c.Floor("setpayload.n_below_capacity", 500)
	reps := c.N(12, 1500)
	c.Exhaustive("every adaptation_field_length 0..183 (AFC 11 / 10; 183 also with AFC 11) and AFC 01, each with boundary payload lengths", 186)
	c.Floor("setpayload.capacity_zero", 10)
	c.Floor("payload_copies.appended_to", 2000)
	c.Stream("by-length", 186, func(i int, r *gen.Rand) {
		for k := 0; k < reps; k++ {
			var m ref.TSPacket
			switch {
			case i == 185:
				// payload flag set and adaptation_field_length 183: a zero-byte payload; with a field whose
				// content ends exactly at byte 188 the capacity is 0
				m = ref.GenTSPacket(r, 3, 183)
				if room := 183 - m.AF.Size(); k%2 == 0 && m.AF.TPD == nil && room >= 1 {
					v := r.Bytes(room - 1)
					m.AF.TPD = &v
				}
			case i == 184:
				m = ref.GenTSPacket(r, 1, 0)
			case i == 183:
				m = ref.GenTSPacket(r, 2, 183)
			default:
				m = ref.GenTSPacket(r, 3, i)
			}
			partition(c, &m)
			capa := 184
			if m.HasAF() {
				capa = 183
				if m.L > 0 {
					capa -= m.AF.Size()
				}
			}
			if c.Thorough() && k < 2 {
				for n := 0; n <= 200; n++ {
					setPayload(c, &m, n, r)
				}
			} else {
				for _, n := range lengths(capa) {
					setPayload(c, &m, n, r)
				}
				setPayload(c, &m, r.Intn(201), r)
			}
			for v := 1; v <= 3; v++ {
				setAFC(c, &m, v)
			}
		}
	})
	c.Stream("random", c.N(20000, 60000000), func(i int, r *gen.Rand) {
		m := ref.GenTSPacket(r, 0, -1)
		partition(c, &m)
		setPayload(c, &m, r.Intn(201), r)
		// a second SetPayload on the result of the first (multi-step)
		raw := m.Bytes()
		p := packet.Packet(raw)
		if m.HasPayload() {
			n1, n2 := r.Intn(201), r.Intn(201)
			d1, d2 := r.Bytes(n1), r.Bytes(n2)
			p.SetPayload(d1)
			k2, err := p.SetPayload(d2)
			c.Eval(1)
			back, _ := p.Payload()
			capa := 184
			if m.HasAF() {
				capa = 183
				if m.L > 0 {
					capa -= m.AF.Size()
				}
			}
			// capacity for the second call: the first call may have created an adaptation field
			// (length byte, plus a flags byte once its length is > 0)
			cap2 := capa
			if !m.HasAF() || m.L == 0 {
				k1 := n1
				if k1 > capa {
					k1 = capa
				}
				switch {
				case k1 == 184:
					cap2 = 184
				case k1 == 183:
					cap2 = 183
				default:
					cap2 = 182
				}
			}
			want2 := n2
			if want2 > cap2 {
				want2 = cap2
			}
			if err != nil && n2 > cap2 {
				err = nil // an error value next to a short count is not excluded by the statement
			}
			if err != nil || k2 != want2 || !bytes.Equal(back, d2[:want2]) {
				c.Fail("setpayload:second-call", fmt.Sprintf("a second SetPayload(%d bytes) after SetPayload(%d bytes) returned %d, %v and reads back %d bytes (%s)", n2, n1, k2, err, len(back), desc(&m)),
					wit{Op: "SetPayload x2", Before: mon.Hex(raw[:]), After: mon.Hex(p[:]), N: n2, Detail: desc(&m)})
			}
		}
	})
	// the method form returns independent copies: appending to one result leaves the others alone
	c.Stream("payload-copies", c.N(4000, 2000000), func(i int, r *gen.Rand) {
		var ps []packet.Packet
		var hl []int
		for len(ps) < 3 {
			m := ref.GenTSPacket(r, r.PickInt([]int{1, 3, 3}), -1)
			ps = append(ps, packet.Packet(m.Bytes()))
			hl = append(hl, m.HeaderLen())
		}
		var got [][]byte
		order := []int{0, 1, 2, 0, 1}
		for _, k := range order {
			b, err := ps[k].Payload()
			if err != nil {
				return
			}
			got = append(got, b)
		}
		c.Eval(len(order))
		victim := r.Intn(len(got))
		got[victim] = append(got[victim], r.Bytes(1+r.Intn(400))...)
		if r.Bool() {
			w := got[(victim+1)%len(got)]
			got[(victim+1)%len(got)] = append(w[:len(w)/2], r.Bytes(200)...)
		}
		c.Count("payload_copies.appended_to")
		for j, k := range order {
			if j == victim || j == (victim+1)%len(got) {
				continue
			}
			if !bytes.Equal(got[j], ps[k][hl[k]:]) {
				c.Fail("partition:payload-method-copies-share-memory", fmt.Sprintf("appending to the slice returned by one (*Packet).Payload() call changed the bytes returned by another call (result %d of %d, appended to result %d)", j, len(got), victim), wit{Op: "Payload x5 + append", Before: mon.Hex(ps[k][:]), Detail: "got " + mon.Hex(got[j])})
				break
			}
		}
		c.Class(fmt.Sprintf("payload-copies/victim=%d", victim))
	})
	// the same packet object holds, one after the other, two packets that differ only in the length of an
	// optional field (same flags byte): the capacity is the second packet's
	c.Floor("slot_reuse.same_flags_other_layout", 1000)
	c.Stream("slot-reuse", c.N(3000, 1500000), func(i int, r *gen.Rand) {
		L := 20 + r.Intn(163)
		a := ref.GenTSPacket(r, 3, L)
		b := a
		b.Hdr[1], b.Hdr[2] = r.Byte(), r.Byte()
		b.Payload = r.Bytes(len(a.Payload))
		if r.Bool() {
			v := r.Bytes(r.Intn(L / 2))
			w := r.Bytes(r.Intn(L / 2))
			a.AF.TPD, b.AF.TPD = &v, &w
		} else {
			v := r.Bytes(r.Intn(L / 2))
			w := r.Bytes(r.Intn(L / 2))
			a.AF.Ext, b.AF.Ext = &v, &w
		}
		if a.AF.Size() > L || b.AF.Size() > L {
			return
		}
		c.Count("slot_reuse.same_flags_other_layout")
		setPayload(c, &a, r.Intn(201), r)
		capB := 183 - b.AF.Size()
		for _, n := range append(lengths(capB), 200) {
			setPayload(c, &b, n, r)
			setPayload(c, &a, r.Intn(201), r)
		}
	})
	// the helpers and accessors work on the packet they are given / return, whoever else is using them at that moment
	c.Floor("concurrent.calls", 20000)
	c.Stream("concurrent-callers", c.N(8, 200), func(i int, r *gen.Rand) {
		c.Concurrent("creation helpers / SetPayload / Payload", 8, 6000, r, func(q *gen.Rand) string {
			pid, cc := q.Intn(8192), uint8(q.Intn(16))
			pusi, hasPay := q.Bool(), q.Bool()
			p := packet.CreateTestPacket(pid, cc, pusi, hasPay)
			if p == nil || p[0] != 0x47 || p.PID() != pid || p.ContinuityCounter() != int(cc) || p.HasPayload() != hasPay {
				return fmt.Sprintf("CreateTestPacket(pid=%d, cc=%d, pusi=%v, hasPay=%v) does not carry the requested sync/PID/counter/flags", pid, cc, pusi, hasPay)
			}
			pay := q.Bytes(1 + q.Intn(184))
			p2 := packet.CreatePacketWithPayload(pid, cc, pay)
			got, err := packet.Payload(p2)
			if p2 == nil || p2[0] != 0x47 || p2.PID() != pid || err != nil || len(got) < len(pay) || !bytes.Equal(got[:len(pay)], pay) {
				return fmt.Sprintf("CreatePacketWithPayload(pid=%d, %d bytes) does not carry the requested PID/payload", pid, len(pay))
			}
			if d := packet.CreateDCPacket(pid, cc); d == nil || d.PID() != pid || d.ContinuityCounter() != int(cc) {
				return fmt.Sprintf("CreateDCPacket(pid=%d, cc=%d) does not carry the requested PID/counter", pid, cc)
			}
			m := ref.GenTSPacket(q, 3, q.Intn(183))
			pk := packet.Packet(m.Bytes())
			data := q.Bytes(q.Intn(190))
			capa := 183
			if m.L > 0 {
				capa -= m.AF.Size()
			}
			k := len(data)
			if k > capa {
				k = capa
			}
			n, err := pk.SetPayload(data)
			if err != nil && len(data) > capa {
				err = nil
			}
			back, err2 := pk.Payload()
			if err != nil || n != k || err2 != nil || !bytes.Equal(back, data[:k]) || pk[0] != 0x47 || pk.PID() != int(m.Hdr[1]&0x1f)<<8|int(m.Hdr[2]) {
				return fmt.Sprintf("SetPayload(%d bytes) on a packet with capacity %d stored %d (%v) and reads back %d bytes (%v)", len(data), capa, n, err, len(back), err2)
			}
			return ""
		})
		c.Class("concurrent-callers")
	})
	c.Stream("creation", c.N(5000, 4000000), func(i int, r *gen.Rand) { creation(c, r) })
}
