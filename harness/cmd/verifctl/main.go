// verifctl builds the worker of one property from /repo's current working
// tree, shards its case list over child processes, merges their reports,
// matches violations against known_findings.json, writes replay files and the
// evidence file, and sets the exit code (0 held, 1 violated, 2 inconclusive).
package main

import (
	"bytes"
	"encoding/json"
	"flag"
	"fmt"
	"os"
	"os/exec"
	"path/filepath"
	"sort"
	"strconv"
	"strings"
	"sync"
	"time"

	"verif/harness/internal/gen"
	"verif/harness/internal/mon"
)

type knownFinding struct {
	Property  string `json:"property"`
	Signature string `json:"signature"`
	Status    string `json:"status"` // open | fixed
	Commit    string `json:"commit,omitempty"`
	What      string `json:"what"`
	Line      string `json:"line,omitempty"`
}

var levels = map[string]string{"C18": "fault_enumeration"}

func levelOf(p string) string {
	if l, ok := levels[p]; ok {
		return l
	}
	return "exploration"
}

func main() {
	var (
		prop    = flag.String("prop", "", "property id, e.g. C01")
		tier    = flag.String("tier", "quick", "quick|thorough")
		replay  = flag.String("replay", "", "replay file")
		workers = flag.Int("workers", 0, "number of worker processes")
		root    = flag.String("root", os.Getenv("VERIF_ROOT"), "the /verif directory")
		noEv    = flag.Bool("no-evidence", false, "do not write evidence / replay files (used by mutation trials)")
		modfile = flag.String("modfile", "", "alternative go.mod (mutation trials against a scratch copy)")
	)
	flag.Parse()
	if *root == "" {
		*root = "/verif"
	}
	if *prop == "" {
		fmt.Fprintln(os.Stderr, "usage: verifctl -prop Cxx [-tier quick|thorough] [-replay file]")
		os.Exit(2)
	}
	seed := uint64(1)
	if s := os.Getenv("VERIF_SEED"); s != "" {
		if v, err := strconv.ParseUint(s, 10, 64); err == nil {
			seed = v
		} else if v, err := strconv.ParseInt(s, 10, 64); err == nil {
			seed = uint64(v)
		} else {
			seed = gen.HashString(s)
		}
	}
	start := time.Now()
	id := strings.ToUpper(*prop)
	work := filepath.Join(*root, ".work")
	os.MkdirAll(filepath.Join(work, "bin"), 0o755)
	runDir := filepath.Join(work, "run", id+"-"+*tier)
	alt := ""
	if *modfile != "" {
		// mutation trials run against a scratch copy and must not disturb a normal run, nor each other
		alt = "-alt-" + strings.TrimSuffix(filepath.Base(*modfile), filepath.Ext(*modfile))
		runDir += alt
	}
	os.RemoveAll(runDir)
	os.MkdirAll(runDir, 0o755)

	// ---- build the worker from the current tree
	bin := filepath.Join(work, "bin", strings.ToLower(id)) + alt
	args := []string{"build", "-tags", "verif", "-o", bin}
	if *modfile != "" {
		args = append(args, "-modfile="+*modfile)
	}
	args = append(args, "./cmd/"+strings.ToLower(id))
	cmd := exec.Command("go", args...)
	cmd.Dir = filepath.Join(*root, "harness")
	var berr bytes.Buffer
	cmd.Stderr = &berr
	cmd.Stdout = &berr
	if err := cmd.Run(); err != nil {
		fmt.Printf("INCONCLUSIVE property=%s reason=worker does not build against the current tree\n%s\n", id, berr.String())
		os.Exit(2)
	}

	if id == "C05" {
		// the CLI tool is one of C05's entry points: build it from the current tree as well
		cliBin := filepath.Join(work, "bin", "c05-parsefile") + alt
		os.Setenv("VERIF_C05_CLI", cliBin)
		a := []string{"build", "-o", cliBin}
		if *modfile != "" {
			a = append(a, "-modfile="+*modfile)
		}
		cb := exec.Command("go", append(a, "github.com/Comcast/gots/v2/cli")...)
		cb.Dir = filepath.Join(*root, "harness")
		if out, err := cb.CombinedOutput(); err != nil {
			fmt.Printf("INCONCLUSIVE property=%s reason=cli/parsefile does not build against the current tree\n%s\n", id, out)
			os.Exit(2)
		}
	}

	if *replay != "" {
		doReplay(bin, *replay)
		return
	}

	n := *workers
	if n <= 0 {
		n = 8
		if *tier == "thorough" {
			n = 16
		}
	}
	if v := os.Getenv("VERIF_WORKERS"); v != "" {
		if k, err := strconv.Atoi(v); err == nil && k > 0 {
			n = k
		}
	}

	type shardOut struct {
		res     *mon.Result
		deaths  []map[string]interface{}
		err     string
		stopped bool
	}
	outs := make([]shardOut, n)
	var wg sync.WaitGroup
	timeout := 40 * time.Minute
	if *tier == "thorough" {
		timeout = 6 * time.Hour
	}
	for s := 0; s < n; s++ {
		wg.Add(1)
		go func(s int) {
			defer wg.Done()
			var merged *mon.Result
			resumeS, resumeI := "", -1
			for attempt := 0; attempt < 200; attempt++ {
				out := filepath.Join(runDir, fmt.Sprintf("shard%d.%d.json", s, attempt))
				cur := filepath.Join(runDir, fmt.Sprintf("shard%d.cur", s))
				os.Remove(cur)
				a := []string{"-tier", *tier, "-seed", strconv.FormatUint(seed, 10), "-shard", strconv.Itoa(s), "-nshards", strconv.Itoa(n), "-out", out, "-cur", cur}
				if resumeI >= 0 {
					a = append(a, "-resume-stream", resumeS, "-resume-index", strconv.Itoa(resumeI))
				}
				c := exec.Command(bin, a...)
				logf, _ := os.Create(filepath.Join(runDir, fmt.Sprintf("shard%d.%d.log", s, attempt)))
				c.Stdout, c.Stderr = logf, logf
				done := make(chan error, 1)
				if err := c.Start(); err != nil {
					outs[s].err = "cannot start worker: " + err.Error()
					logf.Close()
					return
				}
				go func() { done <- c.Wait() }()
				var werr error
				select {
				case werr = <-done:
				case <-time.After(timeout):
					c.Process.Kill()
					<-done
					outs[s].err = "wall-clock watchdog fired (inconclusive)"
					logf.Close()
					return
				}
				logf.Close()
				if b, err := os.ReadFile(out); err == nil {
					var r mon.Result
					if json.Unmarshal(b, &r) == nil && r.Completed {
						if merged == nil {
							merged = &r
						} else {
							mergeInto(merged, &r)
						}
						outs[s].res = merged
						return
					}
				}
				// the child died without a report: attribute to the persisted case
				death := map[string]interface{}{"exit": fmt.Sprint(werr)}
				if b, err := os.ReadFile(cur); err == nil && len(b) > 4 {
					// 4-byte length, one JSON header line, then the raw input the child was working on
					n := int(b[0]) | int(b[1])<<8 | int(b[2])<<16 | int(b[3])<<24
					if n > 0 && 4+n <= len(b) {
						b = b[4 : 4+n]
						hdr, raw := b, []byte(nil)
						if i := bytes.IndexByte(b, '\n'); i >= 0 {
							hdr, raw = b[:i], b[i+1:]
						}
						json.Unmarshal(hdr, &death)
						if len(raw) > 0 {
							death["input_hex"] = fmt.Sprintf("%x", raw)
						}
					}
				}
				tail, _ := os.ReadFile(filepath.Join(runDir, fmt.Sprintf("shard%d.%d.log", s, attempt)))
				if len(tail) > 1500 {
					tail = tail[:1500]
				}
				death["log_head"] = string(tail)
				outs[s].deaths = append(outs[s].deaths, death)
				// the same kind of death three times in one shard is evidence enough: do not keep paying for it
				kind := fmt.Sprint(death["entry"], "|", death["reason"])
				sameKind := 0
				for _, d := range outs[s].deaths {
					if fmt.Sprint(d["entry"], "|", d["reason"]) == kind {
						sameKind++
					}
				}
				if sameKind >= 3 {
					outs[s].res = merged
					outs[s].stopped = true
					return
				}
				st, _ := death["stream"].(string)
				ix, ok := death["index"].(float64)
				if st == "" || !ok {
					outs[s].err = "worker died before its first case: " + fmt.Sprint(werr)
					return
				}
				resumeS, resumeI = st, int(ix)
			}
			outs[s].err = "worker kept dying (200 restarts)"
		}(s)
	}
	wg.Wait()

	// ---- race-detector pass: the concurrent workloads once more, in a worker built with -race
	raceInfo, raceViol := racePass(*root, id, *tier, *modfile, bin, runDir, seed)

	// ---- merge
	total := &mon.Result{Prop: id, Tier: *tier, Seed: seed, Counters: map[string]int64{}, Floors: map[string]int64{},
		Exhaustive: map[string]int64{}, Streams: map[string]int64{}}
	classes := map[string]struct{}{}
	viol := map[string]*mon.Viol{}
	var inconclusive []string
	stoppedShards := 0
	for s := range outs {
		if outs[s].err != "" {
			inconclusive = append(inconclusive, fmt.Sprintf("shard %d: %s", s, outs[s].err))
		}
		if outs[s].stopped {
			stoppedShards++
		}
		for _, d := range outs[s].deaths {
			entry, _ := d["entry"].(string)
			reason, _ := d["reason"].(string)
			if reason == "" {
				reason = "fatal"
				if lh, _ := d["log_head"].(string); strings.Contains(lh, "fatal error:") {
					i := strings.Index(lh, "fatal error:")
					e := strings.IndexByte(lh[i:], '\n')
					if e < 0 {
						e = len(lh) - i
					}
					reason = strings.TrimSpace(lh[i : i+e])
				}
			}
			sig := "died: " + entry + " : " + reason
			v := viol[sig]
			if v == nil {
				st, _ := d["stream"].(string)
				ix, _ := d["index"].(float64)
				v = &mon.Viol{Sig: sig, What: "the worker process did not survive this call (" + reason + ")", Witness: d, Stream: st, Index: int(ix)}
				viol[sig] = v
			}
			v.Count++
		}
		r := outs[s].res
		if r == nil {
			continue
		}
		total.Evaluations += r.Evaluations
		for _, c := range r.Classes {
			classes[c] = struct{}{}
		}
		for k, v := range r.Counters {
			total.Counters[k] += v
		}
		for k, v := range r.Floors {
			total.Floors[k] = v
		}
		for k, v := range r.Exhaustive {
			total.Exhaustive[k] = v
		}
		for k, v := range r.Streams {
			total.Streams[k] = v
		}
		if total.Rule == "" {
			total.Rule = r.Rule
			total.Assumptions = r.Assumptions
			total.Notes = r.Notes
		}
		if len(total.Samples) < 6 {
			for _, smp := range r.Samples {
				if len(total.Samples) < 6 {
					total.Samples = append(total.Samples, smp)
				}
			}
		}
		for _, v := range r.Violations {
			if have := viol[v.Sig]; have != nil {
				have.Count += v.Count
			} else {
				viol[v.Sig] = v
			}
		}
	}
	for _, v := range raceViol {
		viol[v.Sig] = v
	}
	if total.Notes == nil {
		total.Notes = map[string]string{}
	}
	for k, v := range raceInfo {
		total.Notes["race_detector."+k] = v
	}
	for k, want := range total.Floors {
		if total.Counters[k] < want {
			inconclusive = append(inconclusive, fmt.Sprintf("counter %q = %d is under its floor %d: the workload did not observe enough of these events", k, total.Counters[k], want))
		}
	}
	if len(total.Samples) == 0 && total.Evaluations > 0 {
		inconclusive = append(inconclusive, "the worker recorded no sample case")
	}
	if total.Evaluations == 0 && len(inconclusive) == 0 {
		inconclusive = append(inconclusive, "no case was evaluated")
	}

	// ---- known findings
	known := loadKnown(filepath.Join(*root, "known_findings.json"))
	var sigs []string
	for s := range viol {
		sigs = append(sigs, s)
	}
	sort.Strings(sigs)
	var newViol []*mon.Viol
	var knownHit []string
	for _, s := range sigs {
		v := viol[s]
		matched := false
		for _, k := range known {
			if k.Status == "open" && k.Property == id && k.Signature == v.Sig {
				fmt.Printf("KNOWN-FINDING: property=%s %s (signature %q, %d occurrence(s) this run)\n", id, k.What, k.Signature, v.Count)
				knownHit = append(knownHit, v.Sig)
				matched = true
				break
			}
		}
		if !matched {
			newViol = append(newViol, v)
		}
	}

	if stoppedShards > 0 {
		fmt.Printf("note: %d shard(s) stopped early after the same process death three times; their remaining cases were not explored\n", stoppedShards)
	}
	wall := time.Since(start).Seconds()
	// ---- report
	fmt.Printf("property %s tier=%s seed=%d workers=%d: %d evaluations, %d distinct non-trivial classes, %.1fs\n",
		id, *tier, seed, n, total.Evaluations, len(classes), wall)
	var ck []string
	for k := range total.Counters {
		ck = append(ck, k)
	}
	sort.Strings(ck)
	for _, k := range ck {
		fmt.Printf("  observed %-46s %d\n", k, total.Counters[k])
	}

	if !*noEv {
		writeEvidence(*root, id, *tier, seed, total, len(classes), wall, len(newViol), knownHit, inconclusive, n)
	}

	exit := 0
	if len(newViol) > 0 {
		exit = 1
		rdir := filepath.Join(*root, "replay", id)
		if *noEv {
			rdir = filepath.Join(runDir, "replay")
		}
		os.MkdirAll(rdir, 0o755)
		for _, v := range newViol {
			name := fmt.Sprintf("%016x.json", gen.HashString(v.Sig))
			p := filepath.Join(rdir, name)
			rec := map[string]interface{}{"property": id, "signature": v.Sig, "what": v.What, "witness": v.Witness,
				"stream": v.Stream, "index": v.Index, "seed": seed, "tier": *tier, "occurrences": v.Count}
			b, _ := json.MarshalIndent(rec, "", " ")
			os.WriteFile(p, b, 0o644)
			fmt.Printf("VIOLATION property=%s replay=%s\n", id, p)
			fmt.Printf("  signature: %s\n  what: %s\n  occurrences: %d\n", v.Sig, v.What, v.Count)
		}
	}
	if len(inconclusive) > 0 {
		for _, r := range inconclusive {
			fmt.Printf("INCONCLUSIVE property=%s reason=%s\n", id, r)
		}
		if exit == 0 {
			exit = 2
		}
	}
	if exit == 0 {
		fmt.Printf("HELD property=%s on everything explored\n", id)
	}
	os.Exit(exit)
}

// racePass builds the worker with the Go race detector and runs its concurrent workloads (streams named
// "concurrent..." and "cold-start...") at the quick size. Every report of the detector whose stacks differ is a
// violation of its own ("race: f / g"); what was run and how many reports were seen goes into the evidence. A
// tool chain without cgo / -race support skips the pass and says so (the functional comparison of the concurrent
// workloads is unaffected).
func racePass(root, id, tier, modfile, bin, runDir string, seed uint64) (map[string]string, []*mon.Viol) {
	info := map[string]string{}
	if os.Getenv("VERIF_NO_RACE") != "" {
		info["skipped"] = "VERIF_NO_RACE is set"
		return info, nil
	}
	raceBin := bin + "-race"
	args := []string{"build", "-race", "-tags", "verif", "-o", raceBin}
	if modfile != "" {
		args = append(args, "-modfile="+modfile)
	}
	args = append(args, "./cmd/"+strings.ToLower(id))
	cmd := exec.Command("go", args...)
	cmd.Dir = filepath.Join(root, "harness")
	cmd.Env = append(os.Environ(), "CGO_ENABLED=1")
	if out, err := cmd.CombinedOutput(); err != nil {
		first := strings.SplitN(strings.TrimSpace(string(out)), "\n", 2)[0]
		info["skipped"] = "the worker does not build with -race here: " + first
		fmt.Printf("note: race-detector pass skipped (%s)\n", first)
		return info, nil
	}
	shards := 2
	if tier == "thorough" {
		shards = 8
	}
	var wg sync.WaitGroup
	for s := 0; s < shards; s++ {
		wg.Add(1)
		go func(s int) {
			defer wg.Done()
			out := filepath.Join(runDir, fmt.Sprintf("race%d.json", s))
			c := exec.Command(raceBin, "-tier", "quick", "-seed", strconv.FormatUint(seed, 10), "-shard", strconv.Itoa(s), "-nshards", "8",
				"-out", out, "-only", "concurrent,cold-start,overlapping", "-maxprocs", "4")
			c.Env = append(os.Environ(), "GORACE=halt_on_error=0 log_path="+filepath.Join(runDir, fmt.Sprintf("racelog%d", s)))
			logf, _ := os.Create(filepath.Join(runDir, fmt.Sprintf("race%d.log", s)))
			c.Stdout, c.Stderr = logf, logf
			done := make(chan error, 1)
			if err := c.Start(); err != nil {
				logf.Close()
				return
			}
			go func() { done <- c.Wait() }()
			select {
			case <-done:
			case <-time.After(30 * time.Minute):
				c.Process.Kill()
				<-done
			}
			logf.Close()
		}(s)
	}
	wg.Wait()
	logs, _ := filepath.Glob(filepath.Join(runDir, "racelog*"))
	reports := 0
	bySig := map[string]*mon.Viol{}
	calls := int64(0)
	for s := 0; s < shards; s++ {
		if b, err := os.ReadFile(filepath.Join(runDir, fmt.Sprintf("race%d.json", s))); err == nil {
			var r mon.Result
			if json.Unmarshal(b, &r) == nil {
				calls += r.Counters["concurrent.calls"] + r.Counters["concurrent.reads_of_a_shared_object"]
			}
		}
	}
	for _, lf := range logs {
		b, err := os.ReadFile(lf)
		if err != nil {
			continue
		}
		for _, blk := range strings.Split(string(b), "==================") {
			if !strings.Contains(blk, "WARNING: DATA RACE") {
				continue
			}
			reports++
			// the two access stacks: the first library function of each (or the first function at all)
			var fns []string
			var cur []string
			flush := func() {
				if cur == nil {
					return
				}
				pick := ""
				for _, f := range cur {
					if strings.Contains(f, "github.com/Comcast/gots") {
						pick = f
						break
					}
				}
				if pick == "" && len(cur) > 0 {
					pick = cur[0]
				}
				fns = append(fns, pick)
				cur = nil
			}
			for _, ln := range strings.Split(blk, "\n") {
				t := strings.TrimSpace(ln)
				switch {
				case strings.HasPrefix(t, "Write at"), strings.HasPrefix(t, "Read at"), strings.HasPrefix(t, "Previous write at"), strings.HasPrefix(t, "Previous read at"),
					strings.HasPrefix(t, "Atomic"), strings.HasPrefix(t, "Previous atomic"):
					flush()
					cur = []string{}
				case strings.HasPrefix(t, "Goroutine "), t == "":
					flush()
				case cur != nil && !strings.Contains(t, ".go:") && strings.HasSuffix(t, ")"):
					if i := strings.LastIndex(t, "("); i > 0 {
						t = t[:i]
					}
					cur = append(cur, t)
				}
			}
			flush()
			for len(fns) < 2 {
				fns = append(fns, "?")
			}
			sort.Strings(fns[:2])
			sig := "race: " + fns[0] + " / " + fns[1]
			if v := bySig[sig]; v != nil {
				v.Count++
				continue
			}
			txt := strings.TrimSpace(blk)
			if len(txt) > 3000 {
				txt = txt[:3000]
			}
			bySig[sig] = &mon.Viol{Sig: sig, What: "the Go race detector reported unsynchronised conflicting accesses while the concurrent workloads of this property ran (goroutines with inputs of their own, or reading one shared object)", Witness: map[string]interface{}{"report": txt}, Count: 1}
		}
	}
	info["built_with"] = "go build -race"
	info["worker_processes"] = strconv.Itoa(shards)
	info["streams"] = "those named concurrent..., cold-start... and overlapping... at the quick size"
	info["concurrent_calls_observed"] = strconv.FormatInt(calls, 10)
	info["reports"] = strconv.Itoa(reports)
	fmt.Printf("  race detector: %d worker process(es), %d concurrent calls observed, %d report(s)\n", shards, calls, reports)
	var out []*mon.Viol
	for _, v := range bySig {
		out = append(out, v)
	}
	return info, out
}

func mergeInto(dst, src *mon.Result) {
	dst.Evaluations += src.Evaluations
	seen := map[string]struct{}{}
	for _, c := range dst.Classes {
		seen[c] = struct{}{}
	}
	for _, c := range src.Classes {
		if _, ok := seen[c]; !ok {
			dst.Classes = append(dst.Classes, c)
		}
	}
	for k, v := range src.Counters {
		dst.Counters[k] += v
	}
	for k, v := range src.Floors {
		dst.Floors[k] = v
	}
	for k, v := range src.Exhaustive {
		dst.Exhaustive[k] = v
	}
	for k, v := range src.Streams {
		dst.Streams[k] = v
	}
	if len(dst.Samples) < 4 {
		dst.Samples = append(dst.Samples, src.Samples...)
	}
	for _, v := range src.Violations {
		found := false
		for _, h := range dst.Violations {
			if h.Sig == v.Sig {
				h.Count += v.Count
				found = true
			}
		}
		if !found {
			dst.Violations = append(dst.Violations, v)
		}
	}
}

func loadKnown(p string) []knownFinding {
	b, err := os.ReadFile(p)
	if err != nil {
		return nil
	}
	var f struct {
		Findings []knownFinding `json:"findings"`
	}
	if json.Unmarshal(b, &f) != nil {
		return nil
	}
	return f.Findings
}

func writeEvidence(root, id, tier string, seed uint64, t *mon.Result, distinct int, wall float64, nviol int, knownHit, inconclusive []string, workers int) {
	cov := map[string]interface{}{
		"evaluations":         t.Evaluations,
		"distinct_nontrivial": distinct,
		"rule":                t.Rule,
		"samples":             t.Samples,
		"observed":            t.Counters,
		"streams":             t.Streams,
	}
	if len(t.Exhaustive) > 0 {
		cov["exhaustive_subspaces"] = t.Exhaustive
	}
	if len(t.Floors) > 0 {
		cov["floors"] = t.Floors
	}
	if len(t.Notes) > 0 {
		cov["notes"] = t.Notes
	}
	if len(knownHit) > 0 {
		cov["known_findings_hit"] = knownHit
	}
	if len(inconclusive) > 0 {
		cov["inconclusive"] = inconclusive
	}
	cov["workers"] = workers
	if len(t.Samples) == 0 {
		cov["samples"] = []interface{}{}
	}
	ev := map[string]interface{}{
		"property_id": id,
		"tier":        tier,
		"seed":        int64(seed & 0x7fffffffffffffff),
		"level":       levelOf(id),
		"coverage":    cov,
		"assumptions": t.Assumptions,
		"wall_s":      wall,
		"violations":  nviol,
	}
	if ev["assumptions"] == nil {
		ev["assumptions"] = []string{}
	}
	b, _ := json.MarshalIndent(ev, "", " ")
	os.MkdirAll(filepath.Join(root, "evidence"), 0o755)
	os.WriteFile(filepath.Join(root, "evidence", id+".json"), append(b, '\n'), 0o644)
}

func doReplay(bin, file string) {
	b, err := os.ReadFile(file)
	if err != nil {
		fmt.Fprintln(os.Stderr, err)
		os.Exit(2)
	}
	var rec struct {
		Property  string      `json:"property"`
		Signature string      `json:"signature"`
		What      string      `json:"what"`
		Witness   interface{} `json:"witness"`
		Stream    string      `json:"stream"`
		Index     int         `json:"index"`
		Seed      uint64      `json:"seed"`
		Tier      string      `json:"tier"`
	}
	if err := json.Unmarshal(b, &rec); err != nil {
		fmt.Fprintln(os.Stderr, err)
		os.Exit(2)
	}
	fmt.Printf("recorded: property=%s signature=%q\n  %s\n", rec.Property, rec.Signature, rec.What)
	w, _ := json.MarshalIndent(rec.Witness, "  ", " ")
	fmt.Printf("  witness: %s\n", w)
	c := exec.Command(bin, "-tier", rec.Tier, "-seed", strconv.FormatUint(rec.Seed, 10), "-replay-stream", rec.Stream, "-replay-index", strconv.Itoa(rec.Index))
	c.Stdout, c.Stderr = os.Stdout, os.Stderr
	if err := c.Run(); err != nil {
		if ee, ok := err.(*exec.ExitError); ok {
			os.Exit(ee.ExitCode())
		}
		os.Exit(2)
	}
}
