// C10 — SCTE-35 state tracker: open/closed bookkeeping is consistent for every history.
package main

import (
	"fmt"
	"sort"
	"strings"

	gots "github.com/Comcast/gots/v2"
	"github.com/Comcast/gots/v2/scte35"

	"verif/harness/internal/gen"
	"verif/harness/internal/mon"
	"verif/harness/internal/ref"
)

func main() { mon.Main("C10", run) }

type D = scte35.SegmentationDescriptor

type wit struct {
	History []string `json:"history"`
	Detail  string   `json:"detail"`
}

type info struct {
	id     int
	typ    byte
	event  uint32
	pts    uint64
	hasPTS bool
}

func (i info) String() string {
	if !i.hasPTS {
		return fmt.Sprintf("d%d(type=%#02x event=%d no-PTS)", i.id, i.typ, i.event)
	}
	return fmt.Sprintf("d%d(type=%#02x event=%d pts=%d)", i.id, i.typ, i.event, i.pts)
}

func mk(typ byte, ev uint32, pts uint64, hasPTS bool, num, exp byte) D {
	d := scte35.CreateSegmentationDescriptor()
	d.SetTypeID(scte35.SegDescType(typ))
	d.SetEventID(ev)
	d.SetSegmentNumber(num)
	d.SetSegmentsExpected(exp)
	s := scte35.CreateSCTE35()
	if hasPTS {
		ts := scte35.CreateTimeSignalCommand()
		ts.SetHasPTS(true)
		s.SetCommandInfo(ts)
		if adj := (pts/100 + uint64(ev) + uint64(typ)) % 4; adj == 0 {
			// the signal time is the command's pts_time plus a pts_adjustment that is not 0
			ts.SetPTS(gots.PTS((pts - 4321) & (1<<33 - 1)))
			s.SetPTS(gots.PTS((pts - 4321) & (1<<33 - 1)))
			s.SetAdjustPTS(gots.PTS(pts))
		} else {
			ts.SetPTS(gots.PTS(pts))
			s.SetPTS(gots.PTS(pts))
		}
	}
	s.SetDescriptors([]D{d})
	return d
}

// tracker drives one state object and checks the invariants after every call.
type tracker struct {
	c                *mon.Ctx
	st               scte35.State
	live             map[D]bool
	seq              map[D]int
	inf              map[D]info
	all              []D
	n                int
	hist             []string
	dead             bool
	lastProc         D
	lastRej          bool // the last ProcessDescriptor call was rejected
	lastWasP         bool
	perPTS           map[uint64]int
	pat              map[string]bool
	pendingBreakaway bool
	kept             []keptList
}

func newTracker(c *mon.Ctx) *tracker {
	return &tracker{c: c, st: scte35.NewState(), live: map[D]bool{}, seq: map[D]int{}, inf: map[D]info{}, perPTS: map[uint64]int{}, pat: map[string]bool{}}
}

func (t *tracker) fail(sig, detail string) {
	t.c.Fail(sig, detail, wit{append([]string{}, t.hist...), detail})
	t.dead = true
}

func (t *tracker) name(d D) string {
	if d == nil {
		return "nil"
	}
	if i, ok := t.inf[d]; ok {
		return i.String()
	}
	return "unknown-descriptor"
}

func (t *tracker) names(ds []D) string {
	var s []string
	for _, d := range ds {
		s = append(s, t.name(d))
	}
	return "[" + strings.Join(s, " ") + "]"
}

func (t *tracker) register(d D, typ byte, ev uint32, pts uint64, hasPTS bool) {
	t.inf[d] = info{len(t.all), typ, ev, pts, hasPTS}
	t.all = append(t.all, d)
}

type keptList struct {
	list []D
	snap []D
	at   int
}

// checkKept: closed lists returned by earlier calls belong to the caller and stay what they were.
func (t *tracker) checkKept(after string) bool {
	for _, k := range t.kept {
		if !same(k.list, k.snap) {
			t.fail("closed:earlier-list-changed", fmt.Sprintf("the closed list returned by call %d (%s) was changed by a later %s: now %s", k.at, t.names(k.snap), after, t.names(k.list)))
			return false
		}
	}
	return true
}

func (t *tracker) known(d D) bool { _, ok := t.inf[d]; return ok }

func same(a, b []D) bool {
	if len(a) != len(b) {
		return false
	}
	for i := range a {
		if a[i] != b[i] {
			return false
		}
	}
	return true
}

func (t *tracker) open() []D {
	var o []D
	t.guard("Open()", func() { o = t.st.Open() })
	return o
}

func (t *tracker) guard(call string, f func()) {
	defer func() {
		if r := recover(); r != nil {
			t.fail("panic: "+strings.SplitN(call, "(", 2)[0]+" > "+mon.PanicSite(r), fmt.Sprintf("%s panicked: %v", call, r))
		}
	}()
	f()
}

func (t *tracker) checkOpen(open []D, after string) {
	seen := map[D]bool{}
	prev := -1
	for _, x := range open {
		switch {
		case x == nil:
			t.fail("open:nil-element", "Open() contains nil after "+after)
			return
		case !t.known(x):
			t.fail("open:never-processed", "Open() contains a descriptor that was never processed, after "+after)
			return
		case seen[x]:
			t.fail("open:duplicate", fmt.Sprintf("Open() contains %s twice after %s: %s", t.name(x), after, t.names(open)))
			return
		case !t.live[x]:
			why := "was never accepted by ProcessDescriptor"
			if _, ok := t.seq[x]; ok {
				why = "has already been reported closed or discarded"
			}
			t.fail("open:not-live", fmt.Sprintf("Open() contains %s which %s, after %s: %s", t.name(x), why, after, t.names(open)))
			return
		case t.seq[x] <= prev:
			t.fail("open:order", fmt.Sprintf("Open() is not in the order the descriptors were opened after %s: %s", after, t.names(open)))
			return
		}
		seen[x] = true
		prev = t.seq[x]
	}
}

var rejection = map[error]bool{gots.ErrSCTE35DuplicateDescriptor: true, gots.ErrSCTE35UnsupportedSpliceCommand: true, gots.ErrVSSSignalIdNotFound: true}

func (t *tracker) process(d D) {
	if t.dead {
		return
	}
	i := t.inf[d]
	// the signal's PTS is what it is at the time of the call (a signal can lose / gain its time between calls)
	i.hasPTS = d.SCTE35().HasPTS()
	if ci := d.SCTE35().CommandInfo(); ci != nil && !ci.HasPTS() {
		// (a signal carries a PTS through its command: when the command says it has no time, the signal has none,
		// whichever of the two objects the caller used to say so)
		i.hasPTS = false
	}
	if i.hasPTS {
		i.pts = uint64(d.SCTE35().PTS())
		if ci := d.SCTE35().CommandInfo(); ci != nil && ci.HasPTS() && uint64(ci.PTS()) != i.pts {
			t.c.Count("event.signal_with_pts_adjustment")
		}
	}
	t.inf[d] = i
	if i.hasPTS {
		t.perPTS[i.pts]++
	}
	before := t.open()
	if t.dead {
		return
	}
	call := "ProcessDescriptor(" + i.String() + ")"
	var closed []D
	var err error
	t.guard(call, func() { closed, err = t.st.ProcessDescriptor(d) })
	t.hist = append(t.hist, fmt.Sprintf("%s -> closed %s, err=%v", call, t.names(closed), err))
	t.c.Tracef("%s", t.hist[len(t.hist)-1])
	t.c.Eval(1)
	if t.dead {
		return
	}
	after := t.open()
	if t.dead {
		return
	}
	repeat := t.lastWasP && t.lastProc == d
	wasRej := t.lastRej
	t.lastWasP, t.lastProc = true, d
	if !i.hasPTS {
		t.c.Count("event.no_pts")
		t.lastRej = true
		if err == nil || len(closed) != 0 || !same(before, after) {
			t.fail("process:no-pts-not-rejected", fmt.Sprintf("a descriptor whose signal has no PTS was not rejected without effect (err=%v, closed %s, open %s -> %s)", err, t.names(closed), t.names(before), t.names(after)))
		}
		return
	}
	if repeat {
		t.c.Count("event.immediate_repeat")
		if !wasRej && err != gots.ErrSCTE35DuplicateDescriptor {
			t.fail("process:repeat-not-duplicate", fmt.Sprintf("the same descriptor processed twice in a row was not rejected as a duplicate the second time (err=%v)", err))
			return
		}
		if err == nil || !rejection[err] {
			t.fail("process:repeat-not-rejected", fmt.Sprintf("the same descriptor processed twice in a row was accepted the second time (err=%v)", err))
			return
		}
	}
	if rejection[err] {
		t.lastRej = true
		t.c.Count("event.rejected")
		if len(closed) != 0 || !same(before, after) {
			t.fail("process:rejected-but-changed", fmt.Sprintf("a call rejected with %q returned closed descriptors or changed the open list (%s -> %s)", err, t.names(before), t.names(after)))
		}
		return
	}
	t.lastRej = false
	t.n++
	if !t.checkKept("ProcessDescriptor") {
		return
	}
	if len(closed) > 0 {
		t.kept = append(t.kept, keptList{list: closed, snap: append([]D{}, closed...), at: len(t.hist)})
	}
	prev := 1 << 30
	for _, cl := range closed {
		switch {
		case cl == nil:
			t.fail("closed:nil-element", "the closed list contains nil")
			return
		case !t.live[cl]:
			t.fail("closed:not-open", fmt.Sprintf("%s was reported closed but was not open before the call (already closed, discarded or never opened)", t.name(cl)))
			return
		case !listed(before, cl) && t.inf[cl].typ != 0x13:
			// (the pending breakaway of a blackout is open without being listed; nothing else is)
			t.fail("closed:not-listed-as-open", fmt.Sprintf("%s was reported closed but Open() did not list it immediately before the call: %s", t.name(cl), t.names(before)))
			return
		case !d.CanClose(cl):
			t.fail("closed:not-closable", fmt.Sprintf("%s was reported closed by %s but the closing rules do not allow it", t.name(cl), i))
			return
		case !ref.CanClose(byte(d.TypeID()), byte(cl.TypeID()), d.EventID() == cl.EventID(), d.SCTE35().PTS() == cl.SCTE35().PTS(), d.SegmentNumber() == d.SegmentsExpected()):
			// "closable under the closing rules" is also asked of the documented rule table itself (C19 decides
			// CanClose against it; here the tracker's result is)
			t.fail("closed:not-closable-by-the-documented-rules", fmt.Sprintf("%s was reported closed by %s but the documented closing-rule table has no rule that allows it", t.name(cl), i))
			return
		case t.seq[cl] >= prev:
			t.fail("closed:order", fmt.Sprintf("the closed list is not ordered last-opened first: %s", t.names(closed)))
			return
		}
		prev = t.seq[cl]
		if t.inf[cl].typ == 0x13 {
			t.pat["breakaway-closed-by-other"] = true
			t.pendingBreakaway = false
		}
		delete(t.live, cl)
	}
	t.live[d] = true
	t.seq[d] = t.n
	switch i.typ {
	case 0x13:
		if t.pendingBreakaway {
			t.pat["second-breakaway"] = true
		}
		t.pendingBreakaway = true
		t.pat["breakaway"] = true
	case 0x14:
		if err != gots.ErrSCTE35InvalidDescriptor {
			// a resumption inside a blackout discards the breakaway and everything opened after it
			t.pat["resumption-in-blackout"] = true
			t.pendingBreakaway = false
			nl := map[D]bool{}
			for _, x := range after {
				if !t.live[x] {
					t.fail("open:not-live", fmt.Sprintf("after an in-blackout resumption Open() contains %s which was not open before", t.name(x)))
					return
				}
				nl[x] = true
			}
			t.live = nl
		} else {
			t.pat["resumption-outside-blackout"] = true
		}
	}
	if len(closed) > 0 {
		t.c.Count("event.closed_some")
	}
	t.checkOpen(after, call)
}

func listed(l []D, d D) bool {
	for _, x := range l {
		if x == d {
			return true
		}
	}
	return false
}

func (t *tracker) close(d D) {
	if t.dead {
		return
	}
	t.lastWasP = false
	before := t.open()
	if t.dead {
		return
	}
	call := "Close(" + t.inf[d].String() + ")"
	var closed []D
	var err error
	t.guard(call, func() { closed, err = t.st.Close(d) })
	t.hist = append(t.hist, fmt.Sprintf("%s -> closed %s, err=%v", call, t.names(closed), err))
	t.c.Tracef("%s", t.hist[len(t.hist)-1])
	t.c.Eval(1)
	if t.dead {
		return
	}
	after := t.open()
	if t.dead {
		return
	}
	if err != nil {
		t.c.Count("event.close_miss")
		if len(closed) != 0 || !same(before, after) {
			t.fail("close:error-but-changed", fmt.Sprintf("Close failed with %q but returned descriptors or changed the open list (%s -> %s)", err, t.names(before), t.names(after)))
		}
		return
	}
	t.c.Count("event.close_hit")
	if !t.checkKept("Close") {
		return
	}
	for _, cl := range closed {
		if cl == nil || !t.live[cl] {
			t.fail("close:closed-not-open", fmt.Sprintf("Close reported %s closed but it was not open before the call", t.name(cl)))
			return
		}
		if !listed(before, cl) && t.inf[cl].typ != 0x13 {
			t.fail("close:closed-not-listed-as-open", fmt.Sprintf("Close reported %s closed but Open() did not list it immediately before the call: %s", t.name(cl), t.names(before)))
			return
		}
		if !d.Equal(cl) {
			t.fail("close:closed-not-equal", fmt.Sprintf("Close reported %s closed but it is not equal to the argument", t.name(cl)))
			return
		}
		if t.pendingBreakaway && t.inf[cl].typ != 0x13 {
			t.pat["explicit-close-during-blackout"] = true
		}
		if t.inf[cl].typ == 0x13 {
			t.pendingBreakaway = false
			t.pat["explicit-close-of-breakaway"] = true
		}
		delete(t.live, cl)
	}
	if len(closed) == 0 {
		t.fail("close:success-without-descriptor", "Close succeeded but returned no descriptor")
		return
	}
	t.checkOpen(after, call)
}

func (t *tracker) probe() {
	if t.dead {
		return
	}
	t.hist = append(t.hist, "Open()")
	o := t.open()
	t.c.Eval(1)
	if !t.dead {
		t.checkOpen(o, "Open()")
	}
}

func (t *tracker) finish(prefix string) {
	for k := range t.pat {
		t.c.Count("pattern." + k)
	}
	if t.dead || len(t.pat) < 2 {
		return
	}
	var ks []string
	for k := range t.pat {
		ks = append(ks, k)
	}
	sort.Strings(ks)
	var ops []string
	for _, h := range t.hist {
		switch {
		case strings.HasPrefix(h, "Process"):
			ops = append(ops, "P"+h[strings.Index(h, "type=0x")+7:strings.Index(h, "type=0x")+9])
		case strings.HasPrefix(h, "Close"):
			ops = append(ops, "C")
		}
	}
	if len(ops) > 8 {
		ops = ops[:8]
	}
	if t.c.Class(prefix+"/"+strings.Join(ks, "+")+"/"+strings.Join(ops, ",")) && t.c.WantSample() && len(t.hist) <= 10 && len(ks) >= 3 {
		t.c.Sample(func() interface{} { return wit{t.hist, "patterns: " + strings.Join(ks, ", ")} })
	}
}

var types = []byte{0x01, 0x10, 0x11, 0x13, 0x13, 0x14, 0x14, 0x20, 0x21, 0x30, 0x31, 0x34, 0x35, 0x36, 0x40, 0x41, 0x50, 0x51}

func random(c *mon.Ctx, r *gen.Rand) {
	t := newTracker(c)
	n := 3 + r.Intn(28)
	// signal times start at an ordinary value, at 0, or shortly before the 33-bit wrap (later ones then pass through 0)
	pts := r.PickU64([]uint64{1000, 1000, 1000, 0, 1<<33 - 300, 1<<33 - 1, 1<<32 - 200})
	// signals do not have to arrive in the order of their signal times (a time_signal may be sent well ahead of its
	// splice point): in a third of the histories some signal times are earlier ones again, or lie before all so far
	outOfOrder := r.Chance(3)
	if outOfOrder {
		n += 15
		pts = (pts + 5000) & (1<<33 - 1)
		t.pat["signal-times-out-of-order"] = true
	}
	lowest, used := pts, []uint64{}
	for i := 0; i < n && !t.dead; i++ {
		switch op := r.Intn(20); {
		case op < 13:
			if r.Chance(2) || t.perPTS[pts] >= 6 {
				pts = (pts + 100) & (1<<33 - 1)
			}
			cur := pts
			if outOfOrder && r.Chance(4) {
				if r.Bool() && len(used) > 0 {
					pts = used[r.Intn(len(used))]
				} else {
					lowest = (lowest - 100) & (1<<33 - 1)
					pts = lowest
				}
				if t.perPTS[pts] >= 6 {
					pts = cur
				}
			}
			used = append(used, pts)
			typ := types[r.Intn(len(types))]
			if r.Chance(12) {
				typ = r.Byte() // "any segmentation types": all 256 values of the field, with or without rules
				t.pat["type-from-the-whole-code-space"] = true
			}
			num, exp := byte(1), byte(1)
			if r.Chance(4) {
				exp = 2
			}
			if r.Chance(6) {
				// "any ... segment numbers": counters that are not kept (0), at their ends, out of step
				ne := [][2]byte{{0, 0}, {1, 0}, {3, 0}, {0, 1}, {255, 255}, {255, 0}, {0, 255}, {2, 1}, {2, 2}}[r.Intn(9)]
				num, exp = ne[0], ne[1]
				t.pat["segment-counters-off-the-beaten-track"] = true
			}
			d := mk(typ, uint32(1+r.Intn(2)), pts, !r.Chance(12), num, exp)
			if r.Chance(10) {
				// segmentation_event_cancel_indicator: a field the bookkeeping is not stated to depend on
				d.SetIsEventCanceled(true)
				t.pat["cancelled-event"] = true
			}
			t.register(d, typ, d.EventID(), pts, d.SCTE35().HasPTS())
			t.process(d)
			if pts != cur && r.Bool() {
				t.process(d) // twice in a row
			}
			pts = cur
		case op < 15: // process something seen before again (immediately or later)
			if len(t.all) == 0 {
				continue
			}
			d := t.all[len(t.all)-1]
			if r.Chance(3) {
				d = t.all[r.Intn(len(t.all))]
			}
			if t.inf[d].hasPTS && t.perPTS[t.inf[d].pts] >= 7 {
				continue
			}
			// a descriptor that is still open is submitted again only directly after its own submission ("twice in a
			// row" is what the statement speaks about; how long a tracker remembers what it has seen - ten signal
			// times, ten descriptors - is its own business); closed ones may come back at any time
			if t.live[d] && !(t.lastWasP && t.lastProc == d) {
				continue
			}
			t.process(d)
		case op < 18:
			if len(t.all) == 0 {
				continue
			}
			d := t.all[r.Intn(len(t.all))]
			if r.Chance(3) {
				// an equal descriptor that is a different object (what a caller holding a re-parsed signal has)
				i := t.inf[d]
				cl := mk(i.typ, i.event, i.pts, i.hasPTS, d.SegmentNumber(), d.SegmentsExpected())
				t.inf[cl] = info{len(t.all), i.typ, i.event, i.pts, i.hasPTS}
				t.all = append(t.all, cl)
				d = cl
			}
			t.close(d)
		default:
			t.probe()
		}
		if r.Chance(15) {
			// two descriptors on one signal; the signal loses (or regains) its time between the two calls
			pts = (pts + 100) & (1<<33 - 1)
			d1 := scte35.CreateSegmentationDescriptor()
			d2 := scte35.CreateSegmentationDescriptor()
			d1.SetTypeID(0x30)
			d1.SetEventID(uint32(1 + r.Intn(2)))
			d2.SetTypeID(0x34)
			d2.SetEventID(uint32(1 + r.Intn(2)))
			sg := scte35.CreateSCTE35()
			ts := scte35.CreateTimeSignalCommand()
			ts.SetHasPTS(true)
			ts.SetPTS(gots.PTS(pts))
			sg.SetCommandInfo(ts)
			sg.SetPTS(gots.PTS(pts))
			sg.SetDescriptors([]D{d1, d2})
			t.register(d1, 0x30, d1.EventID(), pts, true)
			t.register(d2, 0x34, d2.EventID(), pts, true)
			t.process(d1)
			if r.Chance(3) {
				// both descriptors of the signal are processed, then the first one arrives once more (the section
				// was repeated): whatever the tracker makes of it, no descriptor is listed as open twice
				t.pat["signal-with-two-descriptors-repeated"] = true
				t.c.Count("event.first_descriptor_of_a_signal_again_after_its_sibling")
				t.process(d2)
				t.process(d1)
				t.process(d2)
				continue
			}
			if r.Bool() {
				ts.SetHasPTS(false)
			} else {
				sg.SetCommandInfo(scte35.CreateSpliceNull())
			}
			t.pat["signal-lost-its-time-between-calls"] = true
			t.process(d2)
		}
	}
	t.finish("random")
}

// pooled draws short histories from small pools: two or three placement-opportunity / ad-block types (the closing
// rules that compare signal times live there), one or two types that sit between them on the open list, one event id,
// two or three signal times in any order, and explicit closes of whatever is open. Descriptors of one type and event
// then become neighbours on the open list in every way the calls allow.
func pooled(c *mon.Ctx, r *gen.Rand) {
	t := newTracker(c)
	fam := []byte{0x30, 0x3c, 0x44, 0x34, 0x36, 0x35, 0x37, 0x45, 0x32}
	if r.Chance(4) {
		// the other family whose rows of the rule table differ only in "the start of its own kind": break,
		// opening credits, closing credits, unscheduled event, and the chapter they sit in
		fam = []byte{0x22, 0x23, 0x24, 0x25, 0x26, 0x27, 0x22, 0x23, 0x24, 0x25, 0x26, 0x27, 0x20, 0x21, 0x42, 0x43}
	}
	blk := []byte{0x20, 0x13, 0x40, 0x17, 0x10, 0x22, 0x19, 0x50}
	var pool []byte
	for k := 2 + r.Intn(2); k > 0; k-- {
		pool = append(pool, fam[r.Intn(len(fam))])
	}
	for k := 1 + r.Intn(2); k > 0; k-- {
		pool = append(pool, blk[r.Intn(len(blk))])
	}
	base := r.PickU64([]uint64{1000, 90000, 0, 1<<33 - 100, 1<<33 - 1})
	times := []uint64{base, (base + 100) & (1<<33 - 1), (base + 200) & (1<<33 - 1)}[:2+r.Intn(2)]
	events := 1 + r.Intn(2)
	n := 4 + r.Intn(9)
	if r.Chance(4) {
		// two descriptors of one type (and mostly one event) with something between them that is then closed
		// explicitly, so that the two become neighbours; then a descriptor whose closing rule may tell them apart
		open := r.PickByte([]byte{0x30, 0x3c, 0x44, 0x32, 0x34, 0x36})
		closer := r.PickByte([]byte{0x34, 0x36, 0x44, 0x35, 0x37, 0x45, 0x30, 0x3c, pool[0]})
		ev := uint32(1 + r.Intn(events))
		ev2 := ev
		if r.Chance(4) {
			ev2 = 3 - ev
		}
		pick := func() uint64 { return times[r.Intn(len(times))] }
		steps := []struct {
			typ byte
			ev  uint32
		}{{open, ev}, {blk[r.Intn(len(blk))], 1}, {open, ev2}}
		var between D
		for k, st := range steps {
			d := mk(st.typ, st.ev, pick(), true, 1, 1)
			t.register(d, st.typ, st.ev, uint64(d.SCTE35().PTS()), true)
			t.process(d)
			if k == 1 {
				between = d
			}
			if r.Chance(8) {
				t.probe()
			}
		}
		t.close(between)
		cn, ce := byte(1), byte(1)
		if r.Chance(3) {
			ne := [][2]byte{{0, 0}, {1, 0}, {3, 0}, {0, 1}, {255, 0}, {1, 2}, {2, 2}}[r.Intn(7)]
			cn, ce = ne[0], ne[1]
		}
		d := mk(closer, uint32(1+r.Intn(events)), pick(), true, cn, ce)
		t.register(d, closer, d.EventID(), uint64(d.SCTE35().PTS()), true)
		t.process(d)
		t.pat["neighbours-after-explicit-close"] = true
		n = r.Intn(4)
	}
	for i := 0; i < n && !t.dead; i++ {
		switch op := r.Intn(20); {
		case op < 12:
			pts := times[r.Intn(len(times))]
			if t.perPTS[pts] >= 6 {
				continue
			}
			typ := pool[r.Intn(len(pool))]
			if r.Chance(10) {
				typ = r.PickByte([]byte{0x00, 0x02, 0x12, 0x18, 0x1f, 0x33, 0x3d, 0x46, 0x4f, 0x52, 0x53, 0x7f, 0x80, 0xfe, 0xff, r.Byte()})
			}
			pn, pe := byte(1), byte(1)
			if r.Chance(4) {
				ne := [][2]byte{{0, 0}, {1, 0}, {3, 0}, {0, 1}, {255, 0}, {1, 2}, {2, 2}}[r.Intn(7)]
				pn, pe = ne[0], ne[1]
			}
			d := mk(typ, uint32(1+r.Intn(events)), pts, true, pn, pe)
			t.register(d, typ, d.EventID(), pts, true)
			t.process(d)
		case op < 13:
			if len(t.all) > 0 {
				d := t.all[r.Intn(len(t.all))]
				if t.perPTS[t.inf[d].pts] < 6 && (!t.live[d] || t.lastWasP && t.lastProc == d) {
					t.process(d)
				}
			}
		case op < 19:
			var live []D
			for _, d := range t.all {
				if t.live[d] {
					live = append(live, d)
				}
			}
			if len(live) > 0 && !r.Chance(5) {
				t.close(live[r.Intn(len(live))])
			} else if len(t.all) > 0 {
				t.close(t.all[r.Intn(len(t.all))])
			}
		default:
			t.probe()
		}
	}
	t.c.Count("pooled.histories")
	t.finish("pooled")
}

// piled builds an open list of 9..70 descriptors that do not close each other, with a program breakaway (and so a
// pending blackout) somewhere in it, then sends descriptors that close most of the list at once, probes, resumes,
// closes on request: the bookkeeping behind a list that shrinks from dozens of entries to a few.
func piled(c *mon.Ctx, r *gen.Rand) {
	t := newTracker(c)
	pts := uint64(1000)
	n := 9 + r.Intn(r.PickInt([]int{8, 8, 24, 62}))
	brk := r.Intn(n)
	if r.Chance(5) {
		brk = -1
	}
	for i := 0; i < n && !t.dead; i++ {
		pts = (pts + 100) & (1<<33 - 1)
		typ := r.PickByte([]byte{0x34, 0x36, 0x17, 0x34, 0x36, 0x17, 0x19, 0x20, 0x40})
		if i == brk {
			typ = 0x13
		}
		d := mk(typ, uint32(1+r.Intn(2)), pts, true, 1, 1)
		t.register(d, typ, d.EventID(), pts, true)
		t.process(d)
	}
	t.pat["pile-of-9-or-more-then-mass-close"] = true
	for i := 0; i < 8 && !t.dead; i++ {
		pts = (pts + 100) & (1<<33 - 1)
		switch r.Intn(6) {
		case 0:
			t.probe()
		case 1:
			var live []D
			for _, d := range t.all {
				if t.live[d] {
					live = append(live, d)
				}
			}
			if len(live) > 0 {
				t.close(live[r.Intn(len(live))])
			}
		default:
			typ := r.PickByte([]byte{0x50, 0x51, 0x10, 0x11, 0x14, 0x50, 0x10, 0x21, 0x35, 0x41, 0x13})
			d := mk(typ, uint32(1+r.Intn(2)), pts, true, 1, 1)
			t.register(d, typ, d.EventID(), pts, true)
			t.process(d)
			t.probe()
		}
	}
	t.c.Count("piled.histories")
	t.finish("piled")
}

// deep builds an open list of 60..600 descriptors (below, at and above 64, 128, 256 and 512) (types that nothing closes, and repeated breakaways)
// before the usual mix of calls: no bound on the number of descriptors open at once is part of the contract.
func deep(c *mon.Ctx, r *gen.Rand) {
	t := newTracker(c)
	pts := uint64(1000)
	n := r.PickInt([]int{60, 63, 64, 65, 66, 100, 127, 128, 129, 130, 200, 254, 255, 256, 257, 258, 300, 400, 513, 600})
	calm := r.Bool() // only types that stay open: the list really gets that long
	for i := 0; i < n && !t.dead; i++ {
		pts = (pts + 100) & (1<<33 - 1)
		typ := r.PickByte([]byte{0x01, 0x01, 0x17, 0x17, 0x17, 0x13, 0x19, 0x14})
		if calm {
			typ = r.PickByte([]byte{0x17, 0x17, 0x17, 0x17, 0x17, 0x17, 0x17, 0x01})
		}
		d := mk(typ, uint32(1+r.Intn(2)), pts, true, 1, 1)
		t.register(d, typ, d.EventID(), pts, true)
		t.process(d)
		if r.Chance(16) {
			t.probe()
		}
	}
	if calm && !t.dead {
		// ... and then the programme breaks away (and comes back) with all of them open
		c.Count("deep.breakaway_with_the_whole_list_open")
		for _, typ := range []byte{0x13, 0x17, 0x14}[:1+r.Intn(3)] {
			pts = (pts + 100) & (1<<33 - 1)
			d := mk(typ, uint32(1+r.Intn(2)), pts, true, 1, 1)
			t.register(d, typ, d.EventID(), pts, true)
			t.process(d)
			t.probe()
			if len(t.all) > 0 && r.Chance(3) {
				t.close(t.all[r.Intn(len(t.all))])
				t.probe()
			}
		}
	}
	t.pat["open-list-of-60-or-more"] = true
	if n >= 256 {
		c.Count("deep.histories_of_256_or_more_calls")
	}
	for i := 0; i < 12 && !t.dead; i++ {
		pts = (pts + 100) & (1<<33 - 1)
		switch r.Intn(4) {
		case 0:
			t.probe()
		case 1:
			if len(t.all) > 0 {
				t.close(t.all[r.Intn(len(t.all))])
			}
		default:
			typ := types[r.Intn(len(types))]
			d := mk(typ, uint32(1+r.Intn(2)), pts, true, 1, 1)
			t.register(d, typ, d.EventID(), pts, true)
			t.process(d)
			t.probe()
		}
	}
	t.finish("deep")
}

// interleaved drives two trackers in turns with a shared pool of descriptors: nothing may carry over
// from one tracker to the other.
func interleaved(c *mon.Ctx, r *gen.Rand) {
	ts := []*tracker{newTracker(c), newTracker(c)}
	n := 4 + r.Intn(30)
	// signal times start at an ordinary value, at 0, or shortly before the 33-bit wrap (later ones then pass through 0)
	pts := r.PickU64([]uint64{1000, 1000, 1000, 0, 1<<33 - 300, 1<<33 - 1, 1<<32 - 200})
	for i := 0; i < n && !ts[0].dead && !ts[1].dead; i++ {
		t := ts[r.Intn(2)]
		switch op := r.Intn(10); {
		case op < 6:
			if r.Chance(2) || ts[0].perPTS[pts] >= 5 || ts[1].perPTS[pts] >= 5 {
				pts = (pts + 100) & (1<<33 - 1)
			}
			typ := types[r.Intn(len(types))]
			d := mk(typ, uint32(1+r.Intn(2)), pts, !r.Chance(12), 1, 1)
			for _, x := range ts {
				x.register(d, typ, d.EventID(), pts, d.SCTE35().HasPTS())
			}
			t.process(d)
			if r.Chance(3) { // the other tracker sees the same descriptor for the first time
				o := ts[0]
				if t == ts[0] {
					o = ts[1]
				}
				o.process(d)
			}
		case op < 8:
			if len(t.all) > 0 {
				t.close(t.all[r.Intn(len(t.all))])
			}
		default:
			t.probe()
		}
	}
	c.Count("interleaved.histories")
	ts[0].finish("interleaved")
	ts[1].finish("interleaved")
}

const alphabet = 15

func exhaustive(c *mon.Ctx, code, depth int) {
	t := newTracker(c)
	pts := []uint64{1000, 1<<33 - 200, 1<<33 - 100}[code%3] // the second start makes the second signal time exactly 0
	for k := 0; k < depth && !t.dead; k++ {
		sym := code % alphabet
		code /= alphabet
		pts = (pts + 100) & (1<<33 - 1)
		pt := func(typ byte) {
			d := mk(typ, 1, pts, true, 1, 1)
			t.register(d, typ, 1, pts, true)
			t.process(d)
		}
		switch sym {
		case 0:
			pt(0x10)
		case 1:
			pt(0x11)
		case 2:
			pt(0x13)
		case 3:
			pt(0x14)
		case 4:
			pt(0x20)
		case 5:
			pt(0x30)
		case 6:
			pt(0x31)
		case 7:
			pt(0x34)
		case 8:
			pt(0x35)
		case 9:
			pt(0x40)
		case 10:
			pt(0x41)
		case 11:
			pt(0x50)
		case 12:
			if len(t.all) > 0 {
				t.close(t.all[0])
			}
		case 13:
			if len(t.all) > 0 {
				t.close(t.all[len(t.all)-1])
			}
		case 14:
			if len(t.all) > 0 {
				t.process(t.all[len(t.all)-1])
			}
		}
	}
	t.probe()
	t.finish("exhaustive")
}

func run(c *mon.Ctx) {
	c.Rule("histories of ProcessDescriptor / Close / Open calls on real descriptors: all sequences of 3 (thorough: 4 and 5) symbols over a 15-symbol alphabet (12 segmentation types, close-first, close-last, re-process-last), plus random histories of 3..30 calls over 16 types, two event ids, mostly increasing signal times with repeats (in a third of the histories also earlier times again and times before all others), short histories over small pools of types and times with explicit closes, 8% signals without PTS, re-submissions and explicit closes; invariants over the recorded event log are checked after every call. distinct non-trivial = distinct (set of patterns exercised among breakaway, breakaway closed by another signal, second breakaway, resumption in/outside blackout, explicit close during blackout / of the breakaway; operation-kind prefix) for histories with at least two patterns")
	c.Assume("CanClose and Equal are the closing relation and equality decided by C19; a descriptor that is still open is submitted again only directly after its own submission (the statement's twice in a row), closed ones at any time; at most 7 submissions share one signal time (the tracker's per-time list doubles on every such arrival, which is outside this property but would exhaust memory)")
	c.Floor("pattern.breakaway-closed-by-other", 100)
	c.Floor("pattern.second-breakaway", 100)
	c.Floor("pattern.resumption-in-blackout", 100)
	c.Floor("pattern.explicit-close-during-blackout", 100)
	c.Floor("event.immediate_repeat", 500)
	c.Floor("event.no_pts", 500)
	depths := []int{3}
	if c.Thorough() {
		depths = []int{3, 4, 5, 6}
	}
	for _, depth := range depths {
		total := 1
		for i := 0; i < depth; i++ {
			total *= alphabet
		}
		dd := depth
		c.Exhaustive(fmt.Sprintf("all sequences of %d symbols over the %d-symbol alphabet", depth, alphabet), int64(total))
		c.StreamSeedless(fmt.Sprintf("exhaustive-depth-%d", depth), total, func(i int, r *gen.Rand) { exhaustive(c, i, dd) })
	}
	// trackers of their own in several goroutines: a tracker's bookkeeping is its own
	c.Floor("concurrent.calls", 5000)
	c.Stream("concurrent-trackers", c.N(8, 200), func(i int, r *gen.Rand) {
		c.Concurrent("scte35.State objects of their own", 8, 2400, r, func(q *gen.Rand) string {
			st := scte35.NewState()
			var open []D
			pts := q.Uint64() & (1<<33 - 1)
			for k := 3 + q.Intn(6); k > 0; k-- {
				pts = (pts + 90000) & (1<<33 - 1)
				// "program start - in progress" (0x17) is an out type without closing rules of its own: it closes nothing
				d := mk(0x17, q.Uint32(), pts, true, 1, 1)
				closed, err := st.ProcessDescriptor(d)
				if err != nil || len(closed) != 0 {
					return fmt.Sprintf("a 0x17 descriptor at a new signal time returned closed=%d err=%v", len(closed), err)
				}
				open = append(open, d)
				if q.Chance(3) {
					if closed, err := st.ProcessDescriptor(d); err != gots.ErrSCTE35DuplicateDescriptor || len(closed) != 0 {
						return fmt.Sprintf("the same descriptor processed twice in a row returned closed=%d err=%v", len(closed), err)
					}
				}
				got := st.Open()
				if len(got) != len(open) {
					return fmt.Sprintf("Open() lists %d descriptors, %d were accepted and none closed", len(got), len(open))
				}
				for j := range got {
					if got[j] != open[j] {
						return fmt.Sprintf("Open()[%d] is not the descriptor opened %d-th", j, j)
					}
				}
			}
			if closed, err := st.Close(open[0]); err != nil || len(closed) == 0 || closed[len(closed)-1] != open[0] && closed[0] != open[0] {
				return fmt.Sprintf("Close of the first open descriptor returned %d closed, err=%v", len(closed), err)
			}
			return ""
		})
		c.Class("concurrent-trackers")
	})
	c.Stream("random", c.N(40000, 30000000), func(i int, r *gen.Rand) { random(c, r) })
	c.Floor("pattern.signal-times-out-of-order", 1000)
	c.Floor("pattern.cancelled-event", 1000)
	c.Floor("event.signal_with_pts_adjustment", 10000)
	c.Floor("pattern.type-from-the-whole-code-space", 1000)
	c.Floor("pooled.histories", 10000)
	c.Stream("pooled", c.N(40000, 20000000), func(i int, r *gen.Rand) { pooled(c, r) })
	c.Floor("piled.histories", 3000)
	c.Stream("piled", c.N(12000, 6000000), func(i int, r *gen.Rand) { piled(c, r) })
	c.Stream("interleaved", c.N(10000, 5000000), func(i int, r *gen.Rand) { interleaved(c, r) })
	c.Floor("deep.histories_of_256_or_more_calls", 60)
	c.Floor("deep.breakaway_with_the_whole_list_open", 100)
	c.Stream("deep", c.N(300, 60000), func(i int, r *gen.Rand) { deep(c, r) })
}
