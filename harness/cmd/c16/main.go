// C16 — sync search finds the first plausible packet header and stops the reader on it.
package main

import (
	"bufio"
	"bytes"
	"errors"
	"fmt"
	"io"

	gots "github.com/Comcast/gots/v2"
	"github.com/Comcast/gots/v2/packet"

	"verif/harness/internal/gen"
	"verif/harness/internal/mon"
)

func main() { mon.Main("C16", run) }

type wit struct {
	Stream string `json:"stream_hex"`
	Reader string `json:"reader"`
	Got    string `json:"got"`
	Want   string `json:"want"`
}

// refSync is the brute-force reference: first index holding 0x47 followed by a
// complete 4-byte header with AFC != 00 and PID outside 0x0004..0x000F.
func refSync(s []byte) int {
	for i := 0; i+4 <= len(s); i++ {
		if s[i] != 0x47 {
			continue
		}
		if s[i+3]&0x30 == 0 {
			continue
		}
		pid := int(s[i+1]&0x1f)<<8 | int(s[i+2])
		if pid >= 4 && pid <= 15 {
			continue
		}
		return i
	}
	return -1
}

// sliceScanner is a hand-written PeekScanner over a byte slice.
type sliceScanner struct {
	b   []byte
	pos int
	can bool
}

func (s *sliceScanner) ReadByte() (byte, error) {
	if s.pos >= len(s.b) {
		s.can = false
		return 0, io.EOF
	}
	c := s.b[s.pos]
	s.pos++
	s.can = true
	return c, nil
}
func (s *sliceScanner) UnreadByte() error {
	if !s.can {
		return bufio.ErrInvalidUnreadByte
	}
	s.pos--
	s.can = false
	return nil
}
func (s *sliceScanner) Peek(n int) ([]byte, error) {
	s.can = false
	if s.pos+n > len(s.b) {
		return s.b[s.pos:], io.EOF
	}
	return s.b[s.pos : s.pos+n], nil
}
func (s *sliceScanner) rest() []byte { return s.b[s.pos:] }

type oneByte struct{ r io.Reader }

func (o oneByte) Read(p []byte) (int, error) {
	if len(p) == 0 {
		return 0, nil
	}
	return o.r.Read(p[:1])
}

var errLinkDown = errors.New("link down")

// failing hands out its data and then fails with err (never io.EOF).
type failing struct {
	data []byte
	err  error
}

func (f *failing) Read(p []byte) (int, error) {
	if len(f.data) == 0 {
		return 0, f.err
	}
	n := copy(p, f.data)
	f.data = f.data[n:]
	return n, nil
}

type chunked struct {
	r   io.Reader
	rng *gen.Rand
}

func (c *chunked) Read(p []byte) (int, error) {
	n := 1 + c.rng.Intn(37)
	if n > len(p) {
		n = len(p)
	}
	return c.r.Read(p[:n])
}

func checkOne(c *mon.Ctx, s []byte, kind int, r *gen.Rand) {
	want := refSync(s)
	var ps packet.PeekScanner
	var rest func() []byte
	name := ""
	switch kind {
	case 0:
		ss := &sliceScanner{b: s}
		ps, rest, name = ss, ss.rest, "hand-written PeekScanner"
	case 1:
		br := bufio.NewReader(bytes.NewReader(s))
		ps, rest, name = br, func() []byte { b, _ := io.ReadAll(br); return b }, "bufio(4096) over whole"
	case 2:
		sz := 16 + r.Intn(100)
		br := bufio.NewReaderSize(oneByte{bytes.NewReader(s)}, sz)
		ps, rest, name = br, func() []byte { b, _ := io.ReadAll(br); return b }, fmt.Sprintf("bufio(%d) over one-byte reader", sz)
	case 3:
		sz := r.PickInt([]int{16, 17, 31, 64, 188, 189, 376, 1024, 4096})
		br := bufio.NewReaderSize(&chunked{bytes.NewReader(s), r}, sz)
		ps, rest, name = br, func() []byte { b, _ := io.ReadAll(br); return b }, fmt.Sprintf("bufio(%d) over chunked reader", sz)
	}
	snap := append([]byte{}, s...)
	off, err := packet.Sync(ps)
	c.Eval(1)
	w := func(got string) wit {
		ws := "ErrSyncByteNotFound"
		if want >= 0 {
			ws = fmt.Sprintf("offset %d, reader positioned on it", want)
		}
		return wit{mon.Hex(snap), name, got, ws}
	}
	if !bytes.Equal(s, snap) {
		c.Fail("sync:mutates-input", "Sync modified the stream bytes", w(""))
	}
	if want < 0 {
		if err != gots.ErrSyncByteNotFound {
			c.Fail("sync:not-found-error", fmt.Sprintf("no plausible header in the stream but Sync returned offset %d, err %v", off, err), w(fmt.Sprintf("off=%d err=%v", off, err)))
		}
		return
	}
	if err != nil {
		c.Fail("sync:unexpected-error", fmt.Sprintf("a plausible header exists at %d but Sync returned err %v", want, err), w(fmt.Sprintf("off=%d err=%v", off, err)))
		return
	}
	rem := rest()
	if !bytes.Equal(rem, s[want:]) {
		pos := len(s) - len(rem)
		c.Fail("sync:reader-position", fmt.Sprintf("after Sync the reader is at byte %d, the first plausible header is at %d", pos, want), w(fmt.Sprintf("off=%d reader at %d", off, pos)))
		return
	}
	if off != int64(want) {
		c.Fail("sync:offset", fmt.Sprintf("Sync returned offset %d, the first plausible header is at %d (reader position is right)", off, want), w(fmt.Sprintf("off=%d", off)))
	}
}

func class(s []byte) string {
	want := refSync(s)
	falseSyncs, trunc := 0, false
	lim := want
	if lim < 0 {
		lim = len(s)
	}
	for i := 0; i < lim; i++ {
		if s[i] == 0x47 {
			falseSyncs++
			if i+4 > len(s) {
				trunc = true
			}
		}
	}
	if falseSyncs > 3 {
		falseSyncs = 3
	}
	w := "none"
	switch {
	case want == 0:
		w = "0"
	case want > 0 && want < 4:
		w = "1-3"
	case want >= 4 && want < 188:
		w = "4-187"
	case want >= 188:
		w = ">=188"
	}
	return fmt.Sprintf("found=%s/false-syncs=%d/truncated-header=%v", w, falseSyncs, trunc)
}

func run(c *mon.Ctx) {
	c.Rule("streams: every string of length 0..8 over {47,00,10,05} (exhaustive), PRNG strings up to 600 bytes over an 11-symbol alphabet rich in sync bytes, reserved PIDs and AFC 00, and PRNG strings with one valid header planted; each read through 4 reader kinds. distinct non-trivial = distinct (position class of the true header, number of false sync bytes before it, header cut by end of stream, reader kind) with at least one 0x47 in the stream")
	c.Assume("reference: brute-force scan for the first complete 4-byte header with sync 0x47, AFC != 00, PID outside 0x0004-0x000F")
	alpha := []byte{0x47, 0x00, 0x10, 0x05}
	total := 0
	for n, p := 0, 1; n <= 8; n, p = n+1, p*4 {
		total += p
	}
	c.Exhaustive("all strings of length 0..8 over a 4-symbol alphabet x 2 reader kinds", int64(total*2))
	c.StreamSeedless("exhaustive-short", total, func(i int, r *gen.Rand) {
		// decode i into (length, digits)
		n, p := 0, 1
		for i >= p {
			i -= p
			n++
			p *= 4
		}
		s := make([]byte, n)
		for k := 0; k < n; k++ {
			s[k] = alpha[i&3]
			i >>= 2
		}
		checkOne(c, s, 0, r)
		checkOne(c, s, 1+r.Intn(3), r)
		if bytes.IndexByte(s, 0x47) >= 0 {
			c.Class("short/" + class(s))
		}
	})
	// (0xb8 is the inverted sync byte of DVB, 0x46 / 0x48 / 0xc7 / 0x07 are one bit away from 0x47: none of them is one)
	sym := []byte{0x47, 0x47, 0x47, 0x00, 0x10, 0x05, 0x1f, 0xff, 0x30, 0x04, 0x0f, 0x03, 0x20, 0x0c, 0xb8, 0xb8, 0x46, 0x48, 0xc7, 0x07, 0x40}
	// the search is a function of its reader's content whoever else is searching another stream at that moment
	c.Floor("concurrent.calls", 20000)
	c.Floor("random.after_a_search_cut_short_by_a_reader_error", 2000)
	c.Floor("header_at_offset.overlapping_header_in_front_in_the_next_stream", 1000)
	c.Stream("concurrent-searches", c.N(8, 200), func(i int, r *gen.Rand) {
		c.Concurrent("packet.Sync on readers of their own", 8, 6000, r, func(q *gen.Rand) string {
			n := q.Intn(60)
			if q.Chance(6) {
				n = 188 + q.Intn(400)
			}
			s := make([]byte, n)
			for k := range s {
				s[k] = sym[q.Intn(len(sym))]
			}
			if q.Chance(2) && n >= 4 {
				at := q.Intn(n - 3)
				pid := q.PickInt([]int{0, 3, 16, 0x100, 0x1fff, 0x1ffe})
				copy(s[at:], []byte{0x47, byte(pid >> 8), byte(pid), byte(0x10 + 0x10*q.Intn(3))})
			}
			br := bufio.NewReaderSize(bytes.NewReader(s), q.PickInt([]int{16, 17, 64, 4096}))
			off, err := packet.Sync(br)
			want := refSync(s)
			if want < 0 {
				if err != gots.ErrSyncByteNotFound {
					return fmt.Sprintf("Sync on a %d-byte stream without a plausible header returned %d, %v", len(s), off, err)
				}
				return ""
			}
			rest, _ := io.ReadAll(br)
			if err != nil || int(off) != want || !bytes.Equal(rest, s[want:]) {
				return fmt.Sprintf("Sync returned offset %d, %v with %d bytes left to read; the first plausible header is at %d of %d", off, err, len(rest), want, len(s))
			}
			return ""
		})
		c.Class("concurrent-searches")
	})
	c.Stream("random", c.N(60000, 100000000), func(i int, r *gen.Rand) {
		n := r.Intn(40)
		if r.Chance(5) {
			n = r.Intn(600)
		}
		s := make([]byte, n)
		for k := range s {
			s[k] = sym[r.Intn(len(sym))]
		}
		if r.Chance(3) && n >= 4 {
			// plant a valid header somewhere so that long prefixes of garbage are exercised
			at := r.Intn(n - 3)
			pid := r.PickInt([]int{0, 3, 16, 0x100, 0x1fff, 0x1ffe})
			copy(s[at:], []byte{0x47, byte(pid >> 8), byte(pid), byte(0x10 + 0x10*r.Intn(3))})
		}
		kind := r.Intn(4)
		if r.Chance(5) {
			// the search before this one, on another stream, was cut short by that stream's reader failing
			// (not by its end) after some bytes had been taken: nothing of it carries over
			g := make([]byte, 1+r.Intn(40))
			for k := range g {
				g[k] = []byte{0x00, 0x47, 0x00, 0x00}[r.Intn(4)] // (adaptation_field_control 00 everywhere: no plausible header)
			}
			fr := &failing{data: g, err: errLinkDown}
			if _, err := packet.Sync(bufio.NewReaderSize(fr, 16)); err != nil && err != io.EOF {
				c.Count("random.after_a_search_cut_short_by_a_reader_error")
			}
		}
		checkOne(c, s, kind, r)
		if bytes.IndexByte(s, 0x47) >= 0 {
			if c.Class(fmt.Sprintf("rand/%s/reader=%d", class(s), kind)) && c.WantSample() && len(s) < 30 && refSync(s) > 2 {
				c.Sample(func() interface{} {
					return wit{mon.Hex(s), fmt.Sprint("kind ", kind), "", fmt.Sprint("offset ", refSync(s))}
				})
			}
		}
	})
	// the true header at every offset behind a prefix that holds false sync bytes only ({00,47}: AFC is always 00)
	maxOff := c.N(800, 4000)
	c.Exhaustive(fmt.Sprintf("true header at every offset 0..%d behind false-sync-only garbage x 4 reader kinds", maxOff), int64(4*(maxOff+1)))
	c.StreamSeedless("header-at-offset", maxOff+1, func(off int, r *gen.Rand) {
		s := make([]byte, off)
		for k := range s {
			if r.Chance(3) {
				s[k] = 0x47
			}
		}
		p := packet.Create(0x100+r.Intn(0x1000), packet.WithHasPayloadFlag)
		s = append(s, p[:]...)
		for kind := 0; kind < 4; kind++ {
			checkOne(c, s, kind, r)
		}
		// bufio buffers at and around the packet size
		for _, sz := range []int{187, 188, 189, 376, 1000} {
			br := bufio.NewReaderSize(bytes.NewReader(s), sz)
			o, err := packet.Sync(br)
			rest, _ := io.ReadAll(br)
			c.Eval(1)
			want := refSync(s) // usually off; the last prefix bytes may form a plausible header with the packet's first bytes
			if err != nil || o != int64(want) || !bytes.Equal(rest, s[want:]) {
				c.Fail("sync:bufio-size-boundary", fmt.Sprintf("bufio(%d): first plausible header at offset %d behind false sync bytes: Sync returned %d, %v and left %d bytes (want offset %d and %d bytes)", sz, want, o, err, len(rest), want, len(s)-want),
					wit{mon.Hex(s), fmt.Sprintf("bufio(%d)", sz), fmt.Sprintf("off=%d err=%v", o, err), fmt.Sprint("offset ", want)})
				break
			}
		}
		// the next stream has its header where this one had it - and a plausible header that starts one or two bytes
		// earlier and overlaps it: the first one counts, wherever the previous search ended
		if off >= 2 {
			for back := 1; back <= 2; back++ {
				s2 := append([]byte{}, s...)
				if back == 1 {
					s2[off-1] = 0x47 // 47 | 47 b1 b2: PID 0x07xx, adaptation_field_control from b2
					s2[off+2] |= 0x10
				} else {
					s2[off-2], s2[off-1] = 0x47, 0x01 // 47 01 | 47 b1: PID 0x0147, adaptation_field_control from b1
					s2[off+1] |= 0x10
				}
				if refSync(s2) < off {
					c.Count("header_at_offset.overlapping_header_in_front_in_the_next_stream")
				}
				for kind := 0; kind < 4; kind++ {
					checkOne(c, s2, kind, r)
				}
			}
		}
		c.Class(fmt.Sprintf("at-offset/mod188=%d/windows=%d", off%188/47, off/188))
	})
	// very long prefixes (no limit on how far the search goes)
	// (the last four: more than 65535 / 65536 sync bytes that are not the start of a plausible header in front of
	// the one that is - every byte 0x47, every fourth, every fifth at random)
	longs := []int{65535, 65536, 65537, 70000, 131072, 200001, 65535, 65537, 70000, 262144, 400000}
	c.StreamSeedless("long-prefix", len(longs), func(i int, r *gen.Rand) {
		off := longs[i]
		s := make([]byte, off)
		for k := range s {
			switch {
			case i >= 6 && i <= 8:
				s[k] = 0x47 // 0x47 0x47 0x47 0x47: PID 0x0747, adaptation_field_control 00
				if k%4 == 3 {
					s[k] = 0x07
				}
			case i == 9:
				if k%4 == 0 {
					s[k] = 0x47
				}
			default:
				if r.Chance(5) {
					s[k] = 0x47
				}
			}
		}
		p := packet.Create(0x21, packet.WithHasPayloadFlag)
		s = append(s, p[:]...)
		for kind := 0; kind < 4; kind++ {
			want := refSync(s)
			var ps packet.PeekScanner
			switch kind {
			case 0:
				ps = &sliceScanner{b: s}
			case 1:
				ps = bufio.NewReader(bytes.NewReader(s))
			case 2:
				ps = bufio.NewReaderSize(&chunked{bytes.NewReader(s), r}, 64)
			default:
				ps = bufio.NewReaderSize(bytes.NewReader(s), 65536)
			}
			o, err := packet.Sync(ps)
			c.Eval(1)
			if err != nil || o != int64(want) {
				c.Fail("sync:long-prefix", fmt.Sprintf("a plausible header %d bytes into the stream: Sync returned %d, %v", want, o, err), wit{fmt.Sprintf("%d bytes of {00,47} then a packet", off), fmt.Sprint("kind ", kind), fmt.Sprintf("off=%d err=%v", o, err), fmt.Sprint("offset ", want)})
			}
		}
		c.Class(fmt.Sprintf("long-prefix/%d", off))
	})
	// re-synchronising: Sync, consume some bytes, Sync again on the same reader (nothing carries over)
	c.Stream("resync", c.N(6000, 3000000), func(i int, r *gen.Rand) {
		n := 20 + r.Intn(500)
		s := make([]byte, n)
		for k := range s {
			s[k] = sym[r.Intn(len(sym))]
		}
		for k := r.Intn(3); k > 0; k-- {
			p := packet.Create(16+r.Intn(8000), packet.WithHasPayloadFlag)
			at := r.Intn(len(s) + 1)
			s = append(s[:at], append(p[:], s[at:]...)...)
		}
		var br *bufio.Reader
		if r.Bool() {
			br = bufio.NewReaderSize(&chunked{bytes.NewReader(s), r}, r.PickInt([]int{16, 64, 188, 200, 4096}))
		} else {
			br = bufio.NewReaderSize(bytes.NewReader(s), r.PickInt([]int{16, 64, 188, 200, 4096}))
		}
		pos := 0
		for round := 0; round < 6; round++ {
			want := refSync(s[pos:])
			off, err := packet.Sync(br)
			c.Eval(1)
			if want < 0 {
				if err != gots.ErrSyncByteNotFound {
					c.Fail("resync:not-found-error", fmt.Sprintf("round %d from position %d: no plausible header left but Sync returned %d, %v", round, pos, off, err), wit{mon.Hex(s), "bufio, repeated", fmt.Sprintf("off=%d err=%v", off, err), "ErrSyncByteNotFound"})
				}
				break
			}
			if err != nil || off != int64(want) {
				c.Fail("resync:offset", fmt.Sprintf("round %d from position %d: Sync returned %d, %v; the first plausible header is %d bytes on", round, pos, off, err, want), wit{mon.Hex(s), "bufio, repeated", fmt.Sprintf("off=%d err=%v", off, err), fmt.Sprint("offset ", want)})
				break
			}
			pos += want
			// consume 1..200 bytes and check they are the stream's
			k := 1 + r.Intn(200)
			if pos+k > len(s) {
				k = len(s) - pos
			}
			buf := make([]byte, k)
			if _, e := io.ReadFull(br, buf); e != nil || !bytes.Equal(buf, s[pos:pos+k]) {
				c.Fail("resync:reader-position", fmt.Sprintf("round %d: after Sync the reader does not continue at byte %d of the stream", round, pos), wit{mon.Hex(s), "bufio, repeated", "", ""})
				break
			}
			pos += k
			c.Count("resync.rounds")
		}
		c.Class(fmt.Sprintf("resync/len=%d", len(s)/200))
	})
	// whole packets after garbage: the case real callers have
	c.Stream("packets-after-garbage", c.N(3000, 3000000), func(i int, r *gen.Rand) {
		g := r.Intn(400)
		s := make([]byte, g)
		for k := range s {
			s[k] = sym[r.Intn(len(sym))]
		}
		for k := 1 + r.Intn(3); k > 0; k-- {
			p := packet.Create(16+r.Intn(8000), packet.WithHasPayloadFlag)
			s = append(s, p[:]...)
		}
		kind := r.Intn(4)
		checkOne(c, s, kind, r)
		c.Class(fmt.Sprintf("pkts/%s/reader=%d", class(s), kind))
	})
}
