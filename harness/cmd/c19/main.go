// C19 — segmentation closing relation follows the rule table; equality is an equivalence.
package main

import (
	"fmt"

	gots "github.com/Comcast/gots/v2"
	"github.com/Comcast/gots/v2/scte35"

	"verif/harness/internal/gen"
	"verif/harness/internal/mon"
	"verif/harness/internal/ref"
)

func main() { mon.Main("C19", run) }

type D = scte35.SegmentationDescriptor

type attrs struct {
	Type   byte   `json:"type"`
	Event  uint32 `json:"event_id"`
	PTS    uint64 `json:"signal_pts"`
	HasPTS bool   `json:"signal_has_pts"`
	SegNum byte   `json:"segment_num"`
	SegExp byte   `json:"segments_expected"`
	HasSub bool   `json:"has_sub_segments"`
	SubNum byte   `json:"sub_segment_num"`
	SubExp byte   `json:"sub_segments_expected"`
	Noise  uint32 `json:"-"`
	// 0 time_signal, 1 splice_insert returning to the network, 2 splice_insert leaving it,
	// 3 immediate splice_insert, 4 splice_null (3 and 4: CanClose only; the signal time is the adjusted time)
	Carrier int `json:"carrier"`
}

type wit struct {
	A      attrs  `json:"a"`
	B      attrs  `json:"b"`
	C      *attrs `json:"c,omitempty"`
	Detail string `json:"detail"`
}

// mk builds a real descriptor on a real signal through the creation/setter API;
// attributes the relation must not depend on are randomised from a.Noise.
func mk(a attrs) D {
	r := gen.New(uint64(a.Noise), 77)
	d := bare(a, r)
	return attach(a, r, d)
}

// mkPair builds two descriptors that ride on one and the same signal (a's time and carrier).
func mkPair(a, b attrs) (D, D) {
	r := gen.New(uint64(a.Noise), 78)
	d1, d2 := bare(a, r), bare(b, gen.New(uint64(b.Noise), 79))
	s := scte35.CreateSCTE35()
	if a.HasPTS {
		ts := scte35.CreateTimeSignalCommand()
		ts.SetHasPTS(true)
		ts.SetPTS(gots.PTS(a.PTS))
		s.SetCommandInfo(ts)
		s.SetPTS(gots.PTS(a.PTS))
	}
	if r.Bool() {
		s.SetDescriptors([]D{d1, d2})
	} else {
		s.SetDescriptors([]D{d2, d1})
	}
	return d1, d2
}

// seen returns the attributes as the descriptor and its signal report them through their getters: the relations
// are stated over the field values of the two descriptors, and those are what the getters say (a setter may
// legitimately have side effects on a neighbouring field; whether setters are reflected by getters is C09's
// business).
func seen(d D, a attrs) attrs {
	a.Type, a.Event = byte(d.TypeID()), d.EventID()
	a.SegNum, a.SegExp = d.SegmentNumber(), d.SegmentsExpected()
	a.HasSub, a.SubNum, a.SubExp = d.HasSubSegments(), d.SubSegmentNumber(), d.SubSegmentsExpected()
	if s := d.SCTE35(); s != nil {
		a.HasPTS = s.HasPTS()
		if a.HasPTS {
			a.PTS = uint64(s.PTS())
		}
	}
	return a
}

func bare(a attrs, r *gen.Rand) D {
	d := scte35.CreateSegmentationDescriptor()
	d.SetTypeID(scte35.SegDescType(a.Type))
	d.SetEventID(a.Event)
	d.SetSegmentNumber(a.SegNum)
	d.SetSegmentsExpected(a.SegExp)
	d.SetHasSubSegments(a.HasSub)
	d.SetSubSegmentNumber(a.SubNum)
	d.SetSubSegmentsExpected(a.SubExp)
	if a.Noise != 0 {
		d.SetHasDuration(r.Bool())
		d.SetDuration(gots.PTS(r.Uint64() & (1<<40 - 1)))
		d.SetIsDeliveryNotRestricted(r.Bool())
		d.SetIsWebDeliveryAllowed(r.Bool())
		d.SetUPIDType(scte35.SegUPIDType(r.PickByte([]byte{0, 1, 9, 0x0c})))
		if d.UPIDType() != 0 {
			d.SetUPID(r.Bytes(r.Intn(12)))
		}
		if r.Chance(3) { // the same content identifier on many descriptors: not a condition of either relation
			d.SetUPIDType(0x09)
			d.SetUPID([]byte("SIGNAL:same-content"))
		}
		d.SetIsEventCanceled(r.Chance(4)) // not one of the conditions the relation may depend on
		if r.Chance(3) {
			// component mode with per-component offsets: neither relation looks at them
			d.SetHasProgramSegmentation(false)
			var cs []scte35.ComponentOffset
			for k := 1 + r.Intn(3); k > 0; k-- {
				co := scte35.CreateComponentOffset()
				co.SetComponentTag(r.Byte())
				co.SetPTSOffset(gots.PTS(r.PickU64([]uint64{0, 500, 1000, 1, 1<<33 - 1000, r.U33()})))
				cs = append(cs, co)
			}
			d.SetComponents(cs)
		}
	}
	return d
}

func attach(a attrs, r *gen.Rand, d D) D {
	s := scte35.CreateSCTE35()
	// the signal time is given in one of several call orders (before / after the descriptor is attached,
	// through SetPTS or through SetAdjustPTS): the relation depends on the time, not on how it got there
	order := 0
	if a.Noise != 0 {
		order = r.Intn(4)
	}
	if order >= 1 {
		s.SetDescriptors([]D{d})
	}
	if a.HasPTS && a.Noise != 0 && a.Carrier >= 3 {
		// carriers whose command has no time of its own: the signal time is the adjusted time alone
		if a.Carrier == 3 {
			si := scte35.CreateSpliceInsertCommand()
			si.SetIsProgramSplice(true)
			si.SetSpliceImmediate(true)
			si.SetIsOut(r.Bool())
			s.SetCommandInfo(si)
		} else {
			s.SetCommandInfo(scte35.CreateSpliceNull())
		}
		if r.Bool() {
			s.SetDescriptors([]D{d})
			s.SetAdjustPTS(gots.PTS(a.PTS))
		} else {
			s.SetAdjustPTS(gots.PTS(a.PTS))
			s.SetDescriptors([]D{d})
		}
		return d
	}
	if a.HasPTS && a.Noise != 0 && a.Carrier != 0 {
		// a splice_insert carrier (program splice with a time): out_of_network_indicator is the command's business
		si := scte35.CreateSpliceInsertCommand()
		si.SetIsProgramSplice(true)
		si.SetHasPTS(true)
		si.SetIsOut(a.Carrier == 2)
		si.SetEventID(r.Uint32())
		si.SetPTS(gots.PTS(a.PTS))
		s.SetCommandInfo(si)
		s.SetPTS(gots.PTS(a.PTS))
		s.SetDescriptors([]D{d})
		return d
	}
	if a.HasPTS {
		ts := scte35.CreateTimeSignalCommand()
		ts.SetHasPTS(true)
		s.SetCommandInfo(ts)
		switch order {
		case 0, 1:
			ts.SetPTS(gots.PTS(a.PTS))
			s.SetPTS(gots.PTS(a.PTS))
		case 2: // command time first, the signal time later as an adjusted time
			ts.SetPTS(gots.PTS(a.PTS - 400))
			s.SetPTS(gots.PTS(a.PTS - 400))
			s.SetAdjustPTS(gots.PTS(a.PTS))
		default: // a different time first, corrected afterwards
			s.SetPTS(gots.PTS(a.PTS + 77))
			s.SetPTS(gots.PTS(a.PTS))
		}
	}
	if !a.HasPTS && a.Noise != 0 {
		// a signal without a time comes in several shapes: no command to speak of (splice_null), or a time_signal /
		// splice_insert whose time_specified_flag is off - with or without a time value left in the command
		switch r.Intn(4) {
		case 1:
			ts := scte35.CreateTimeSignalCommand()
			if r.Bool() {
				ts.SetHasPTS(true)
				ts.SetPTS(gots.PTS(a.PTS))
			}
			ts.SetHasPTS(false)
			s.SetCommandInfo(ts)
		case 2:
			si := scte35.CreateSpliceInsertCommand()
			si.SetIsProgramSplice(true)
			if r.Bool() {
				si.SetHasPTS(true)
				si.SetPTS(gots.PTS(a.PTS))
			}
			si.SetHasPTS(false)
			s.SetCommandInfo(si)
		case 3:
			ts := scte35.CreateTimeSignalCommand()
			s.SetCommandInfo(ts)
			s.SetPTS(gots.PTS(a.PTS))
			s.SetHasPTS(false)
		}
	}
	if order == 0 {
		s.SetDescriptors([]D{d})
	}
	return d
}

func run(c *mon.Ctx) {
	c.Rule("CanClose: all 256 incoming types x all 256 open types x event-id equal/different x signal PTS equal/different x incoming segment_num equal to / below / above segments_expected (incl. 0 and 255) x incoming sub-segment fields absent / equal / unequal (exhaustive), other attributes randomised; IsIn/IsOut for all 256 types; Equal over a pool spanning every compared attribute: definition, reflexivity, symmetry (all pairs), transitivity (all triples), congruence with CanClose. distinct non-trivial = distinct (incoming type, open type, conditions) cells in which the frozen table has a rule, plus distinct Equal attribute-difference patterns")
	c.Assume("the oracle is a frozen transcription of the library's documented rule table (internal/ref/scte35rules.go) and of the in/out lists; descriptors are real library objects built through the public API")

	c.Exhaustive("CanClose: 256 x 256 types x event 2 x PTS 2 x 8 (segment_num, segments_expected) pairs (equal, below, above, zero) x 3 sub-segment variants", 256*256*96)
	c.Floor("concurrent.calls", 20000)
	c.Stream("concurrent-callers", c.N(8, 200), func(i int, r *gen.Rand) {
		c.Concurrent("CanClose / Equal / IsIn / IsOut on descriptors of their own", 8, 6000, r, func(q *gen.Rand) string {
			a := attrs{Type: q.Byte(), Event: uint32(1 + q.Intn(2)), PTS: uint64(1000 + 1000*q.Intn(2)), HasPTS: true, SegNum: byte(q.Intn(3)), SegExp: byte(q.Intn(3)), Noise: q.Uint32() | 1}
			b := attrs{Type: q.Byte(), Event: uint32(1 + q.Intn(2)), PTS: uint64(1000 + 1000*q.Intn(2)), HasPTS: true, SegNum: byte(q.Intn(3)), SegExp: byte(q.Intn(3)), Noise: q.Uint32() | 1}
			if q.Bool() {
				a.Type = q.PickByte([]byte{0x35, 0x37, 0x31, 0x34, 0x11, 0x41, 0x10, 0x36, 0x44})
				b.Type = q.PickByte([]byte{0x34, 0x36, 0x30, 0x10, 0x40, 0x3c, 0x44})
			}
			da, db := mk(a), mk(b)
			a, b = seen(da, a), seen(db, b) // the field values as the descriptors report them
			want := ref.CanClose(a.Type, b.Type, a.Event == b.Event, a.PTS == b.PTS, a.SegNum == a.SegExp)
			if got := da.CanClose(db); got != want {
				return fmt.Sprintf("type %#02x CanClose type %#02x (event equal=%v, PTS equal=%v, segment_num==expected=%v) = %v, the table says %v", a.Type, b.Type, a.Event == b.Event, a.PTS == b.PTS, a.SegNum == a.SegExp, got, want)
			}
			if da.IsIn() != ref.IsSegIn(a.Type) || da.IsOut() != ref.IsSegOut(a.Type) {
				return fmt.Sprintf("type %#02x: IsIn=%v IsOut=%v", a.Type, da.IsIn(), da.IsOut())
			}
			if !da.Equal(da) || da.Equal(db) != (a.Type == b.Type && a.Event == b.Event && a.PTS == b.PTS && a.SegNum == b.SegNum && a.SegExp == b.SegExp) {
				return fmt.Sprintf("Equal(a,a)=%v Equal(a,b)=%v for attributes %+v / %+v", da.Equal(da), da.Equal(db), a, b)
			}
			return ""
		})
		c.Class("concurrent-callers")
	})
	// two descriptors read by several goroutines at once (the relations only read them)
	c.Stream("concurrent-readers-of-two-descriptors", c.N(8, 200), func(i int, r *gen.Rand) {
		c.ConcurrentReaders("pair of descriptors", c.N(300, 300), r, func(q *gen.Rand) func() string {
			a := attrs{Type: q.PickByte([]byte{0x35, 0x37, 0x31, 0x34, 0x11, 0x41, 0x10, 0x36, 0x44, 0x51, q.Byte()}), Event: uint32(1 + q.Intn(2)), PTS: uint64(1000 + 1000*q.Intn(2)), HasPTS: true, SegNum: byte(q.Intn(3)), SegExp: byte(q.Intn(3)), Noise: q.Uint32() | 1}
			b := attrs{Type: q.PickByte([]byte{0x34, 0x36, 0x30, 0x10, 0x40, 0x3c, 0x44, 0x13, 0x20, q.Byte()}), Event: uint32(1 + q.Intn(2)), PTS: uint64(1000 + 1000*q.Intn(2)), HasPTS: true, SegNum: byte(q.Intn(3)), SegExp: byte(q.Intn(3)), Noise: q.Uint32() | 1}
			da, db := mk(a), mk(b)
			a, b = seen(da, a), seen(db, b)
			want := ref.CanClose(a.Type, b.Type, a.Event == b.Event, a.PTS == b.PTS, a.SegNum == a.SegExp)
			back := ref.CanClose(b.Type, a.Type, a.Event == b.Event, a.PTS == b.PTS, b.SegNum == b.SegExp)
			eq := a.HasPTS && b.HasPTS && a.Type == b.Type && a.PTS == b.PTS && a.Event == b.Event && a.SegNum == b.SegNum && a.SegExp == b.SegExp && a.HasSub == b.HasSub && (!a.HasSub || a.SubNum == b.SubNum && a.SubExp == b.SubExp)
			return func() string {
				if da.CanClose(db) != want || db.CanClose(da) != back {
					return fmt.Sprintf("type %#02x / type %#02x: CanClose = %v / %v, the table says %v / %v", a.Type, b.Type, da.CanClose(db), db.CanClose(da), want, back)
				}
				if da.Equal(db) != eq || db.Equal(da) != eq || !da.Equal(da) {
					return fmt.Sprintf("Equal(a,b)=%v Equal(b,a)=%v Equal(a,a)=%v, by the definition %v", da.Equal(db), db.Equal(da), da.Equal(da), eq)
				}
				if da.IsIn() != ref.IsSegIn(a.Type) || da.IsOut() != ref.IsSegOut(a.Type) {
					return fmt.Sprintf("type %#02x: IsIn=%v IsOut=%v", a.Type, da.IsIn(), da.IsOut())
				}
				return ""
			}
		})
		c.Class("concurrent-readers-of-two-descriptors")
	})
	c.StreamSeedless("canclose", 256, func(in int, r *gen.Rand) {
		const P, Q = 900000, 900090
		type inc struct {
			d      D
			a      attrs
			numEq  bool
			subVar int
		}
		var incs []inc
		for _, ne := range [][2]byte{{3, 3}, {3, 4}, {5, 4}, {2, 0}, {0, 0}, {255, 255}, {255, 254}, {0, 1}} {
			numEq := ne[0] == ne[1]
			for sv := 0; sv < 3; sv++ {
				a := attrs{Type: byte(in), Event: 7, PTS: P, HasPTS: true, SegNum: ne[0], SegExp: ne[1], Noise: r.Uint32() | 1, Carrier: len(incs) % 5}
				switch sv {
				case 1:
					a.HasSub, a.SubNum, a.SubExp = true, 2, 2
				case 2:
					a.HasSub, a.SubNum, a.SubExp = true, 1, 2
				}
				incs = append(incs, inc{mk(a), a, numEq, sv})
			}
		}
		for out := 0; out < 256; out++ {
			for _, evEq := range []bool{true, false} {
				for _, ptsEq := range []bool{true, false} {
					b := attrs{Type: byte(out), Event: 7, PTS: P, HasPTS: true, SegNum: byte(r.Intn(4)), SegExp: byte(r.Intn(4)), Noise: r.Uint32() | 1}
					b.Carrier = r.Intn(5)
					if !evEq {
						b.Event = uint32(r.PickU64([]uint64{8, 8, 6, 7 | 0x80000000, 7 + 1<<16}))
					}
					if !ptsEq {
						b.PTS = r.PickU64([]uint64{Q, Q, P + 1<<32, P - 1})
					}
					if !evEq && !ptsEq && r.Chance(3) {
						b.Event, b.PTS = 6, P+1<<32 // differs in both, by the amounts a packed comparison would confuse
					}
					ods := []D{mk(b)}
					obs := []attrs{b}
					if _, ok := ref.CloseRules[byte(in)][byte(out)]; ok {
						// where the table has a rule, the open descriptor also comes with segment numbers that
						// coincide with the incoming descriptor's (no rule looks at the open descriptor's numbers)
						for _, ne := range [][2]byte{{3, 3}, {2, 2}, {1, 2}, {5, 5}, {4, 3}, {255, 255}, {0, 0}, {2, 5}} {
							v := b
							v.SegNum, v.SegExp, v.Noise = ne[0], ne[1], r.Uint32()|1
							ods, obs = append(ods, mk(v)), append(obs, v)
						}
					}
					for oi, od := range ods {
						b := obs[oi]
						for _, ic := range incs {
							// "whether their signals' PTS values are equal" is what the two signals report through
							// PTS(); for carriers whose command has no time that need not be the value handed to
							// SetAdjustPTS (the first version of this check assumed it was; DESIGN section 7)
							ptsEqSeen := ic.d.SCTE35().PTS() == od.SCTE35().PTS()
							if ptsEqSeen != ptsEq {
								c.Count("canclose.pts_equality_read_back_differs_from_values_set")
								if ic.a.Carrier < 3 && b.Carrier < 3 {
									c.Fail("canclose:signal-pts-readback", fmt.Sprintf("two signals whose commands carry a time were given the times %d and %d, but PTS() reports %d and %d", ic.a.PTS, b.PTS, ic.d.SCTE35().PTS(), od.SCTE35().PTS()), wit{A: ic.a, B: b, Detail: "SCTE35().PTS()"})
								}
							}
							// the table is asked with the field values the two descriptors report
							sa, sb := seen(ic.d, ic.a), seen(od, b)
							if sa.Type != byte(in) || sb.Type != byte(out) || (sa.Event == sb.Event) != evEq || (sa.SegNum == sa.SegExp) != ic.numEq {
								c.Count("canclose.fields_read_back_differ_from_values_set")
							}
							want := ref.CanClose(sa.Type, sb.Type, sa.Event == sb.Event, ptsEqSeen, sa.SegNum == sa.SegExp)
							got := ic.d.CanClose(od)
							c.Eval(1)
							if got != want {
								rule := "no rule"
								if k, ok := ref.CloseRules[sa.Type][sb.Type]; ok {
									rule = "rule kind " + string(rune(k))
								}
								c.Fail(fmt.Sprintf("canclose:%02x>%02x", sa.Type, sb.Type), fmt.Sprintf("incoming type %#02x CanClose open type %#02x (event ids equal=%v, PTS equal=%v, segment_num==segments_expected=%v, sub-segment variant %d) = %v; the documented table (%s) says %v",
									sa.Type, sb.Type, sa.Event == sb.Event, ptsEqSeen, sa.SegNum == sa.SegExp, ic.subVar, got, rule, want), wit{A: sa, B: sb, Detail: "a.CanClose(b)"})
							}
						}
					}
					od := ods[0]
					if _, ok := ref.CloseRules[byte(in)][byte(out)]; ok {
						if c.Class(fmt.Sprintf("%02x>%02x/ev=%v/pts=%v", in, out, evEq, ptsEq)) && c.WantSample() && in == 0x35 {
							c.Sample(func() interface{} {
								return wit{A: incs[0].a, B: b, Detail: fmt.Sprintf("CanClose = %v", incs[0].d.CanClose(od))}
							})
						}
					}
				}
			}
		}
		// in / out classification: a function of the type, whatever the carrier (time_signal, splice_insert in / out, none)
		detached := scte35.CreateSegmentationDescriptor()
		detached.SetTypeID(scte35.SegDescType(in))
		for k := -1; k < len(incs); k++ {
			d, a := detached, attrs{Type: byte(in), Carrier: -1}
			if k >= 0 {
				d, a = incs[k].d, incs[k].a
			}
			c.Eval(1)
			t := byte(d.TypeID()) // the type the descriptor reports (the one set, unless a setter had a side effect on it)
			if d.IsIn() != ref.IsSegIn(t) || d.IsOut() != ref.IsSegOut(t) || (d.IsIn() && d.IsOut()) {
				c.Fail(fmt.Sprintf("inout:%02x", t), fmt.Sprintf("type %#02x (carrier kind %d): IsIn=%v IsOut=%v; documented lists say in=%v out=%v", t, a.Carrier, d.IsIn(), d.IsOut(), ref.IsSegIn(t), ref.IsSegOut(t)), wit{A: a, Detail: "IsIn/IsOut"})
				break
			}
		}
	})

	// ---- Equal
	poolN := c.N(96, 400)
	c.Stream("equal-pools", c.N(4, 160), func(pi int, r *gen.Rand) {
		var as []attrs
		var ds []D
		for len(as) < poolN {
			// value schemes: small values; values that differ by one event id and 2^32 ticks; event-id wrap-around
			evs, ptss := [2]uint32{1, 2}, [2]uint64{1000, 2000}
			switch pi % 3 {
			case 1:
				evs, ptss = [2]uint32{0x10, 0x11}, [2]uint64{0x100001234, 0x1234}
			case 2:
				evs, ptss = [2]uint32{0xffffffff, 0}, [2]uint64{1<<32 + 5, 5}
			}
			if pi%4 == 3 {
				// signal times one tick apart (and across the 33-bit wrap): equal means equal, not "close"
				ptss = [2]uint64{1000, 1001}
				if r.Chance(3) {
					ptss = [2]uint64{1<<33 - 1, 0}
				}
				if r.Chance(2) {
					ptss[1] = ptss[0] + 2
				}
			}
			a := attrs{
				Type:    r.PickByte([]byte{0x34, 0x36, 0x35, 0x30, 0x10, 0x11}),
				Event:   evs[r.Intn(2)],
				PTS:     ptss[r.Intn(2)],
				Carrier: r.Intn(3),
				HasPTS:  !r.Chance(5),
				SegNum:  byte(1 + r.Intn(2)), SegExp: byte(1 + r.Intn(2)),
				HasSub: r.Bool(), SubNum: byte(1 + r.Intn(2)), SubExp: byte(1 + r.Intn(2)),
				Noise: r.Uint32() | 1,
			}
			if pi%5 == 4 || r.Chance(6) {
				// segment numbers of 0 ("not segmented") and 255 are numbers like any other
				a.SegNum, a.SegExp = r.PickByte([]byte{0, 0, 1, 255}), r.PickByte([]byte{0, 3, 255})
				a.SubNum, a.SubExp = r.PickByte([]byte{0, 1}), r.PickByte([]byte{0, 2})
				a.Type = r.PickByte([]byte{0x35, 0x37, 0x34, 0x36, 0x35})
			}
			if a.Type != 0x34 && a.Type != 0x36 {
				a.HasSub = false // the encoder only carries sub-segment fields for these types
			}
			if len(as)+2 <= poolN && r.Chance(5) {
				// two descriptors next to each other in one signal (same time, same carrier); often look-alikes
				b := a
				b.Noise = r.Uint32() | 1
				if r.Bool() {
					b.Event, b.SegNum = evs[r.Intn(2)], byte(1+r.Intn(2))
				}
				a.Carrier, b.Carrier = 0, 0
				d1, d2 := mkPair(a, b)
				as = append(as, a, b)
				ds = append(ds, d1, d2)
				continue
			}
			as = append(as, a)
			ds = append(ds, mk(a))
		}
		n := len(as)
		for k := range as {
			if sk := seen(ds[k], as[k]); sk != as[k] {
				c.Count("equal.fields_read_back_differ_from_values_set")
				as[k] = sk
			}
		}
		eq := make([][]bool, n)
		defEq := func(x, y attrs) bool {
			if !(x.HasPTS && y.HasPTS) || x.Type != y.Type || x.PTS != y.PTS || x.Event != y.Event || x.SegNum != y.SegNum || x.SegExp != y.SegExp || x.HasSub != y.HasSub {
				return false
			}
			return !x.HasSub || (x.SubNum == y.SubNum && x.SubExp == y.SubExp)
		}
		for i := 0; i < n; i++ {
			eq[i] = make([]bool, n)
			for j := 0; j < n; j++ {
				eq[i][j] = ds[i].Equal(ds[j])
				c.Eval(1)
				if !as[i].HasSub && !as[j].HasSub && (as[i].SubNum != as[j].SubNum || as[i].SubExp != as[j].SubExp) && defEq(as[i], as[j]) {
					// neither descriptor carries sub-segment fields, but the numbers stored by earlier setter calls
					// differ: "same sub-segment numbers" can be read either way, so either answer is accepted here
					// (symmetry, transitivity and congruence are still checked on whatever the library answers)
					c.Count("equal.flagless_sub_numbers_differ")
				} else if want := defEq(as[i], as[j]); eq[i][j] != want {
					c.Fail("equal:definition/"+diffPattern(as[i], as[j]), fmt.Sprintf("a.Equal(b)=%v; by the definition (same type, signal time, event id, segment and sub-segment numbers, both signals with a PTS) it is %v", eq[i][j], want), wit{A: as[i], B: as[j], Detail: "differs in: " + diffPattern(as[i], as[j])})
				}
				c.Class("equal/" + diffPattern(as[i], as[j]))
			}
			if eq[i][i] != as[i].HasPTS {
				c.Fail("equal:reflexive", fmt.Sprintf("a.Equal(a)=%v for a descriptor whose signal has a PTS=%v", eq[i][i], as[i].HasPTS), wit{A: as[i], B: as[i], Detail: "reflexivity"})
			}
		}
		for i := 0; i < n; i++ {
			for j := 0; j < n; j++ {
				if eq[i][j] != eq[j][i] {
					c.Fail("equal:symmetric", "a.Equal(b) != b.Equal(a)", wit{A: as[i], B: as[j], Detail: "symmetry"})
				}
				if !eq[i][j] {
					continue
				}
				for k := 0; k < n; k++ {
					if eq[j][k] && !eq[i][k] {
						c.Fail("equal:transitive", "a.Equal(b) and b.Equal(c) but not a.Equal(c)", wit{A: as[i], B: as[j], C: &as[k], Detail: "transitivity"})
					}
					// congruence: equal descriptors close, and are closed by, the same descriptors
					if ds[i].CanClose(ds[k]) != ds[j].CanClose(ds[k]) || ds[k].CanClose(ds[i]) != ds[k].CanClose(ds[j]) {
						c.Fail("equal:congruence", "a.Equal(b) but a and b do not close / are not closed by the same descriptor c", wit{A: as[i], B: as[j], C: &as[k], Detail: "congruence"})
					}
				}
				c.Eval(n)
			}
		}
	})
	// the relations follow the current field values: compare, change a field through a setter, compare again
	c.Stream("after-setters", c.N(3000, 10000000), func(i int, r *gen.Rand) {
		a := attrs{Type: r.PickByte([]byte{0x35, 0x37, 0x31, 0x34, 0x11, 0x41}), Event: uint32(1 + r.Intn(2)), PTS: uint64(1000 + 1000*r.Intn(2)), HasPTS: true, SegNum: byte(1 + r.Intn(2)), SegExp: byte(1 + r.Intn(2)), Noise: r.Uint32() | 1, Carrier: r.Intn(3)}
		b := attrs{Type: r.PickByte([]byte{0x34, 0x36, 0x30, 0x10, 0x40, 0x3c, 0x44}), Event: uint32(1 + r.Intn(2)), PTS: uint64(1000 + 1000*r.Intn(2)), HasPTS: true, SegNum: 1, SegExp: 1, Noise: r.Uint32() | 1, Carrier: r.Intn(3)}
		da, db := mk(a), mk(b)
		check := func(when string) bool {
			a, b := seen(da, a), seen(db, b) // the current field values are the ones the getters report
			want := ref.CanClose(a.Type, b.Type, a.Event == b.Event, a.PTS == b.PTS, a.SegNum == a.SegExp)
			c.Eval(2)
			if got := da.CanClose(db); got != want {
				c.Fail("canclose:after-setters", fmt.Sprintf("%s: a.CanClose(b)=%v, the documented table says %v for the current field values", when, got, want), wit{A: a, B: b, Detail: when})
				return false
			}
			sameAttrs := a.HasPTS && b.HasPTS && a.Type == b.Type && a.PTS == b.PTS && a.Event == b.Event && a.SegNum == b.SegNum && a.SegExp == b.SegExp && a.HasSub == b.HasSub && (!a.HasSub || a.SubNum == b.SubNum && a.SubExp == b.SubExp)
			if got := da.Equal(db); got != sameAttrs {
				c.Fail("equal:after-setters", fmt.Sprintf("%s: a.Equal(b)=%v, by the definition it is %v for the current field values", when, got, sameAttrs), wit{A: a, B: b, Detail: when})
				return false
			}
			return true
		}
		if !check("freshly built") {
			return
		}
		for round := 0; round < 4; round++ {
			switch r.Intn(7) {
			case 6:
				// the incoming descriptor is re-typed after it has already answered CanClose / Equal
				a.Type = r.PickByte([]byte{0x34, 0x36, 0x34, 0x36, 0x35, 0x37, 0x31, 0x11, 0x41, 0x10, 0x30, 0x44, 0x45})
				da.SetTypeID(scte35.SegDescType(a.Type))
			case 0:
				a.Event = uint32(1 + r.Intn(2))
				da.SetEventID(a.Event)
			case 1:
				b.Event = uint32(1 + r.Intn(2))
				db.SetEventID(b.Event)
			case 2:
				a.SegNum = byte(1 + r.Intn(2))
				da.SetSegmentNumber(a.SegNum)
			case 3:
				a.SegExp = byte(1 + r.Intn(2))
				da.SetSegmentsExpected(a.SegExp)
			case 4:
				b.PTS = uint64(1000 + 1000*r.Intn(2))
				db.SCTE35().SetPTS(gots.PTS(b.PTS))
			default:
				b.Type = r.PickByte([]byte{0x34, 0x36, 0x30, 0x10, 0x40, 0x3c, 0x44})
				db.SetTypeID(scte35.SegDescType(b.Type))
			}
			if !check(fmt.Sprintf("after setter round %d", round)) {
				return
			}
		}
		c.Class(fmt.Sprintf("after-setters/%02x>%02x", a.Type, b.Type))
	})
	// the relation is a function of the field values, whatever the two objects have been through: descriptors that a
	// tracker (scte35.State) has opened, closed on its own account, closed on request or seen again answer like
	// descriptors with the same values that never met one
	c.Floor("tracker.closed_by_incoming", 100)
	c.Floor("tracker.closed_on_request", 300)
	c.Stream("after-a-tracker", c.N(3000, 3000000), func(i int, r *gen.Rand) {
		a := attrs{Type: r.PickByte([]byte{0x35, 0x37, 0x31, 0x34, 0x36, 0x11, 0x41, 0x21, 0x45, 0x51, 0x10, 0x30}), Event: uint32(1 + r.Intn(2)), PTS: uint64(1000 + 1000*r.Intn(2)), HasPTS: true, SegNum: byte(1 + r.Intn(2)), SegExp: byte(1 + r.Intn(2)), Noise: r.Uint32() | 1, Carrier: 0}
		b := attrs{Type: r.PickByte([]byte{0x34, 0x36, 0x30, 0x10, 0x40, 0x3c, 0x44, 0x20, 0x50, 0x17}), Event: uint32(1 + r.Intn(2)), PTS: uint64(1000 + 1000*r.Intn(2)), HasPTS: true, SegNum: 1, SegExp: 1, Noise: r.Uint32() | 1, Carrier: 0}
		da, db, twinA, twinB := mk(a), mk(b), mk(a), mk(b)
		check := func(when string) bool {
			c.Eval(6)
			a, b := seen(da, a), seen(db, b)
			want := ref.CanClose(a.Type, b.Type, a.Event == b.Event, a.PTS == b.PTS, a.SegNum == a.SegExp)
			back := ref.CanClose(b.Type, a.Type, a.Event == b.Event, a.PTS == b.PTS, b.SegNum == b.SegExp)
			switch {
			case da.CanClose(db) != want || twinA.CanClose(db) != want || da.CanClose(twinB) != want:
				c.Fail("canclose:after-a-tracker", fmt.Sprintf("%s: a.CanClose(b)=%v, twin-of-a.CanClose(b)=%v, a.CanClose(twin-of-b)=%v; the documented table says %v (the twins have the same field values and never met a tracker)", when, da.CanClose(db), twinA.CanClose(db), da.CanClose(twinB), want), wit{A: a, B: b, Detail: when})
			case db.CanClose(da) != back || twinB.CanClose(da) != back || db.CanClose(twinA) != back:
				c.Fail("canclose:after-a-tracker", fmt.Sprintf("%s: b.CanClose(a)=%v, twin-of-b.CanClose(a)=%v, b.CanClose(twin-of-a)=%v; the documented table says %v", when, db.CanClose(da), twinB.CanClose(da), db.CanClose(twinA), back), wit{A: b, B: a, Detail: when})
			case !db.Equal(twinB) || !twinB.Equal(db) || !da.Equal(twinA) || !twinA.Equal(da) || !db.Equal(db) || !da.Equal(da):
				c.Fail("equal:after-a-tracker", fmt.Sprintf("%s: a descriptor is no longer equal to itself or to a descriptor with the same field values", when), wit{A: a, B: b, Detail: when})
			default:
				return true
			}
			return false
		}
		if !check("freshly built") {
			return
		}
		st := scte35.NewState()
		st.ProcessDescriptor(db)
		if !check("after b was given to a tracker") {
			return
		}
		how := ""
		switch r.Intn(3) {
		case 0:
			closed, _ := st.ProcessDescriptor(da)
			how = "after a was given to the same tracker"
			for _, x := range closed {
				if x == db {
					how += " (which reported b closed)"
					c.Count("tracker.closed_by_incoming")
				}
			}
		case 1:
			if closed, err := st.Close(db); err == nil && len(closed) > 0 {
				c.Count("tracker.closed_on_request")
			}
			how = "after the tracker was asked to close b"
		default:
			st.ProcessDescriptor(da)
			st.Close(db)
			st.Close(da)
			how = "after a was given to the tracker and both were closed on request"
		}
		if !check(how) {
			return
		}
		if r.Bool() {
			st.ProcessDescriptor(db)
			st.ProcessDescriptor(da)
			if !check(how + ", and both were given to it again") {
				return
			}
		}
		c.Class(fmt.Sprintf("after-a-tracker/%02x>%02x", a.Type, b.Type))
	})
	// two descriptors whose signals were made 255, 256, ... 65536, ... signals apart in this process (a splicer makes
	// tens of thousands of signals between an out and its in): the relations are about the two descriptors' field
	// values, not about how many signals the process made in between
	c.Floor("far_apart.pairs", 40)
	c.Floor("far_apart.pairs_65535_or_more_signals_apart", 12)
	c.Stream("signals-made-far-apart", c.N(48, 2000), func(i int, r *gen.Rand) {
		a := attrs{Type: r.PickByte([]byte{0x34, 0x36, 0x44, 0x34, 0x36, 0x35, 0x37, 0x31, 0x11, 0x21, 0x51}), Event: uint32(1 + r.Intn(2)), PTS: uint64(1000 + 1000*r.Intn(2)), HasPTS: true, SegNum: byte(1 + r.Intn(2)), SegExp: byte(1 + r.Intn(2)), Noise: r.Uint32() | 1, Carrier: r.Intn(3)}
		b := attrs{Type: r.PickByte([]byte{0x30, 0x3c, 0x44, 0x30, 0x34, 0x36, 0x10, 0x20, 0x40, 0x50}), Event: uint32(1 + r.Intn(2)), PTS: uint64(1000 + 1000*r.Intn(2)), HasPTS: true, SegNum: 1, SegExp: 1, Noise: r.Uint32() | 1, Carrier: r.Intn(3)}
		if r.Bool() {
			// the rule that looks at the two signals' times, with times that differ
			a.Type, b.Type = r.PickByte([]byte{0x34, 0x36, 0x44}), r.PickByte([]byte{0x30, 0x3c, 0x44})
			a.PTS, b.PTS = 1000, 2000
		}
		gap := r.PickInt([]int{250, 4090})
		if i%2 == 0 {
			gap = r.PickInt([]int{65530, 65530, 131066})
		}
		db := mk(b)
		var sec []byte
		for made := 0; made < gap; made++ {
			// (signals made in between: created, or decoded from a section)
			switch {
			case sec == nil:
				sec = scte35.CreateSCTE35().UpdateData()
			case made%1024 == 7:
				scte35.NewSCTE35(append([]byte{0}, sec...))
			default:
				scte35.CreateSCTE35()
			}
		}
		// incoming descriptors are made one after the other from here on, each on a signal of its own: every distance
		// from a few below to a few above 256 / 4096 / 65536 / 131072 signals is met, whatever a builder makes on the side
		var das []D
		for k := 0; k < 16; k++ {
			da := mk(a)
			das = append(das, da)
			sa, sb := seen(da, a), seen(db, b)
			want := ref.CanClose(sa.Type, sb.Type, sa.Event == sb.Event, sa.PTS == sb.PTS, sa.SegNum == sa.SegExp)
			back := ref.CanClose(sb.Type, sa.Type, sa.Event == sb.Event, sa.PTS == sb.PTS, sb.SegNum == sb.SegExp)
			c.Eval(2)
			if g := da.CanClose(db); g != want {
				c.Fail("canclose:signals-made-far-apart", fmt.Sprintf("incoming type %#02x CanClose open type %#02x = %v, the documented table says %v; about %d signals were made in the process between the two (a pair with the same field values made back to back is decided by the other streams)", sa.Type, sb.Type, g, want, gap+k), wit{A: sa, B: sb, Detail: fmt.Sprintf("a.CanClose(b), about %d signals apart", gap+k)})
				return
			}
			if g := db.CanClose(da); g != back {
				c.Fail("canclose:signals-made-far-apart", fmt.Sprintf("type %#02x CanClose type %#02x = %v, the documented table says %v; about %d signals were made in the process between the two", sb.Type, sa.Type, g, back, gap+k), wit{A: sb, B: sa, Detail: fmt.Sprintf("b.CanClose(a), about %d signals apart", gap+k)})
				return
			}
		}
		// twins of the old descriptor made now, that far apart from it, are equal to it and interchangeable with it
		for k := 0; k < 16; k++ {
			tw := mk(b)
			c.Eval(2)
			if !tw.Equal(db) || !db.Equal(tw) || das[k].CanClose(tw) != das[k].CanClose(db) || tw.CanClose(das[k]) != db.CanClose(das[k]) || das[k].Equal(tw) != das[k].Equal(db) {
				c.Fail("equal:signals-made-far-apart", fmt.Sprintf("a descriptor and a twin with the same field values made about %d signals later are not equal, or not interchangeable in Equal and CanClose", gap+16+k), wit{A: seen(db, b), B: seen(tw, b), Detail: "twin made later"})
				return
			}
		}
		c.Count("far_apart.pairs")
		if gap >= 65530 {
			c.Count("far_apart.pairs_65535_or_more_signals_apart")
		}
		c.Class(fmt.Sprintf("far-apart/%02x>%02x/gap=%d", a.Type, b.Type, gap))
	})
	// descriptors obtained by decoding one and the same section twice; one twin (or its signal) is then edited through
	// setters, nothing is re-encoded: the relations are asked about the field values the getters report now
	c.Floor("decoded_twins.edited", 1000)
	c.Stream("decoded-twins", c.N(3000, 2000000), func(i int, r *gen.Rand) {
		s := ref.GenSig(r, false)
		s.Cmd, s.TSHas, s.TSPTS, s.PTSAdj = 0x06, true, uint64(1000+1000*r.Intn(2)), 0
		s.Descs = nil
		for k := 1 + r.Intn(3); k > 0; k-- {
			d := ref.GenSegDesc(r, false)
			d.Cancel = false
			d.Type = r.PickByte([]byte{0x34, 0x36, 0x35, 0x30, 0x10, 0x11, 0x40, 0x41})
			d.Event = uint32(1 + r.Intn(2))
			s.Descs = append(s.Descs, d)
		}
		pay := s.Payload()
		x1, e1 := scte35.NewSCTE35(append([]byte{}, pay...))
		x2, e2 := scte35.NewSCTE35(append([]byte{}, pay...))
		if e1 != nil || e2 != nil || len(x1.Descriptors()) != len(s.Descs) || len(x2.Descriptors()) != len(s.Descs) {
			return // (decoding is C08's business)
		}
		k := r.Intn(len(s.Descs))
		d1, d2 := x1.Descriptors()[k], x2.Descriptors()[k]
		check := func(when string) bool {
			a, b := seen(d1, attrs{}), seen(d2, attrs{})
			c.Eval(3)
			eq := a.HasPTS && b.HasPTS && a.Type == b.Type && a.PTS == b.PTS && a.Event == b.Event && a.SegNum == b.SegNum && a.SegExp == b.SegExp && a.HasSub == b.HasSub && (!a.HasSub || a.SubNum == b.SubNum && a.SubExp == b.SubExp)
			if d1.Equal(d2) != eq || d2.Equal(d1) != eq {
				c.Fail("equal:decoded-twins", fmt.Sprintf("%s: Equal = %v / %v, by the definition over the values the getters report it is %v", when, d1.Equal(d2), d2.Equal(d1), eq), wit{A: a, B: b, Detail: when})
				return false
			}
			want := ref.CanClose(a.Type, b.Type, a.Event == b.Event, a.PTS == b.PTS, a.SegNum == a.SegExp)
			if d1.CanClose(d2) != want {
				c.Fail("canclose:decoded-twins", fmt.Sprintf("%s: CanClose = %v, the documented table says %v", when, d1.CanClose(d2), want), wit{A: a, B: b, Detail: when})
				return false
			}
			return true
		}
		if !check("two decodes of one section") {
			return
		}
		how := ""
		switch r.Intn(5) {
		case 0:
			d2.SetEventID(d2.EventID() + 1)
			how = "SetEventID on one twin"
		case 1:
			d2.SetSegmentNumber(d2.SegmentNumber() + 1)
			how = "SetSegmentNumber on one twin"
		case 2:
			x2.SetPTS(x2.PTS() + 90000)
			how = "SetPTS on one twin's signal"
		case 3:
			d1.SetTypeID(scte35.SegDescType(r.PickByte([]byte{0x34, 0x36, 0x35, 0x37, 0x30, 0x10})))
			how = "SetTypeID on the other twin"
		default:
			d2.SetSegmentsExpected(d2.SegmentsExpected() + 1)
			how = "SetSegmentsExpected on one twin"
		}
		c.Count("decoded_twins.edited")
		check("after " + how + " (no re-encoding)")
		c.Class("decoded-twins/" + how)
	})
	// nil argument: never equal
	a := mk(attrs{Type: 0x30, Event: 1, PTS: 5, HasPTS: true})
	if a.Equal(nil) {
		c.Fail("equal:nil", "a.Equal(nil) is true", nil)
	}
}

func diffPattern(x, y attrs) string {
	s := ""
	add := func(b bool, n string) {
		if b {
			s += n + ","
		}
	}
	add(x.Type != y.Type, "type")
	add(x.PTS != y.PTS, "pts")
	add(!x.HasPTS || !y.HasPTS, "nopts")
	add(x.Event != y.Event, "event")
	add(x.SegNum != y.SegNum, "segnum")
	add(x.SegExp != y.SegExp, "segexp")
	add(x.HasSub != y.HasSub, "hassub")
	add(x.HasSub && y.HasSub && x.SubNum != y.SubNum, "subnum")
	add(x.HasSub && y.HasSub && x.SubExp != y.SubExp, "subexp")
	if s == "" {
		return "identical-attributes"
	}
	return s
}
