// C06 — PMT decoding is exact and independent of how the section is packetised.
package main

import (
	"bytes"
	"fmt"
	"reflect"

	"github.com/Comcast/gots/v2/packet"
	"github.com/Comcast/gots/v2/psi"

	"verif/harness/internal/gen"
	"verif/harness/internal/mon"
	"verif/harness/internal/ref"
)

func main() { mon.Main("C06", run) }

type wit struct {
	Carrier string `json:"carrier"`
	Shape   string `json:"shape"`
	Payload string `json:"payload_hex,omitempty"`
	Packets int    `json:"packets,omitempty"`
	Chunks  []int  `json:"chunk_sizes,omitempty"`
	Detail  string `json:"detail"`
}

type carrier struct {
	ptr      int
	others   [][]byte
	sec      []byte
	trailing int
	payload  []byte // pointer + filler + others + PMT section (without trailing stuffing)
	bounds   []int  // offsets in payload at which a section starts or ends
}

func (k *carrier) shape(p *ref.PMT) string {
	return fmt.Sprintf("pointer_field=%d other_sections_before=%d pmt_section=%d bytes streams=%d trailing_ff=%d", k.ptr, len(k.others), len(k.sec), len(p.Streams), k.trailing)
}

func mkCarrier(r *gen.Rand, p *ref.PMT) carrier {
	k := carrier{sec: p.Section()}
	switch r.Intn(6) {
	case 0, 1:
		k.ptr = 0
	case 2:
		k.ptr = r.PickInt([]int{1, 2, 7, 100, 180, 181, 182, 183})
	case 3:
		k.ptr = r.Intn(184)
	}
	if r.Chance(4) {
		for n := 1 + r.Intn(2); n > 0; n-- {
			k.others = append(k.others, ref.GenOtherSection(r))
		}
	}
	if r.Chance(3) {
		k.trailing = 1 + r.Intn(30)
	}
	k.payload = ref.PointerPrefix(k.ptr)
	k.bounds = []int{len(k.payload)}
	for _, o := range k.others {
		k.payload = append(k.payload, o...)
		k.bounds = append(k.bounds, len(k.payload))
	}
	k.payload = append(k.payload, k.sec...)
	k.bounds = append(k.bounds, len(k.payload))
	return k
}

func (k *carrier) full() []byte {
	return append(append([]byte{}, k.payload...), bytes.Repeat([]byte{0xff}, k.trailing)...)
}

func rawBody(d psi.PmtDescriptor) ([]byte, bool) {
	rv := reflect.ValueOf(d)
	for rv.Kind() == reflect.Ptr || rv.Kind() == reflect.Interface {
		if rv.IsNil() {
			return nil, false
		}
		rv = rv.Elem()
	}
	if rv.Kind() != reflect.Struct {
		return nil, false
	}
	f := rv.FieldByName("data")
	if !f.IsValid() || f.Kind() != reflect.Slice || f.Type().Elem().Kind() != reflect.Uint8 {
		return nil, false
	}
	return f.Bytes(), true
}

func checkPMT(c *mon.Ctx, tag string, m psi.PMT, p *ref.PMT, w func(string) wit) bool {
	ok := true
	bad := func(sig, d string) { c.Fail(tag+":"+sig, d, w(d)); ok = false }
	if m.VersionNumber() != p.Version {
		bad("version", fmt.Sprintf("VersionNumber()=%d, encoded %d", m.VersionNumber(), p.Version))
	}
	if m.CurrentNextIndicator() != p.CurrentNext {
		bad("current-next", fmt.Sprintf("CurrentNextIndicator()=%v, encoded %v", m.CurrentNextIndicator(), p.CurrentNext))
	}
	ess := m.ElementaryStreams()
	pids := m.Pids()
	if len(ess) != len(p.Streams) || len(pids) != len(p.Streams) {
		bad("stream-count", fmt.Sprintf("%d elementary streams / %d PIDs decoded, the section lists %d", len(ess), len(pids), len(p.Streams)))
		return false
	}
	for i, s := range ess {
		ws := p.Streams[i]
		if s.StreamType() != ws.Type || s.ElementaryPid() != ws.PID || pids[i] != ws.PID {
			bad("stream-type-or-pid", fmt.Sprintf("stream %d decoded as type %#02x PID %#x (Pids()[%d]=%#x), encoded type %#02x PID %#x", i, s.StreamType(), s.ElementaryPid(), i, pids[i], ws.Type, ws.PID))
			return false
		}
		if !m.PIDExists(ws.PID) {
			bad("pid-exists", fmt.Sprintf("PIDExists(%#x) is false for a listed stream", ws.PID))
		}
		ds := s.Descriptors()
		if len(ds) != len(ws.Descs) {
			bad("descriptor-count", fmt.Sprintf("stream %d has %d descriptors decoded, %d encoded", i, len(ds), len(ws.Descs)))
			return false
		}
		for j, d := range ds {
			wd := ws.Descs[j]
			if d.Tag() != wd.Tag {
				bad("descriptor-tag", fmt.Sprintf("stream %d descriptor %d has tag %#02x, encoded %#02x", i, j, d.Tag(), wd.Tag))
				return false
			}
			if b, found := rawBody(d); found && !bytes.Equal(b, wd.Body) {
				bad("descriptor-body", fmt.Sprintf("stream %d descriptor %d (tag %#02x) body %x, encoded %x", i, j, wd.Tag, b, wd.Body))
				return false
			}
			switch wd.Tag {
			case 0x0a:
				if d.DecodeIso639LanguageCode() != string(wd.Body[:3]) || d.DecodeIso639AudioType() != wd.Body[3] {
					bad("descriptor-decoded-iso639", fmt.Sprintf("stream %d descriptor %d decodes to %q/%#x, body %x", i, j, d.DecodeIso639LanguageCode(), d.DecodeIso639AudioType(), wd.Body))
				}
			case 0x0e:
				if want := uint32(wd.Body[0]&0x1f)<<16 | uint32(wd.Body[1])<<8 | uint32(wd.Body[2]); d.DecodeMaximumBitRate() != want {
					bad("descriptor-decoded-bitrate", fmt.Sprintf("stream %d descriptor %d decodes to %d, body %x", i, j, d.DecodeMaximumBitRate(), wd.Body))
				}
			case 0x05:
				if d.IsDolbyVision() != (string(wd.Body[:4]) == "DOVI") {
					bad("descriptor-decoded-registration", fmt.Sprintf("stream %d descriptor %d IsDolbyVision=%v, body %x", i, j, d.IsDolbyVision(), wd.Body))
				}
			}
		}
	}
	return ok
}

// reusedReader serves the streams of many cases in turn, the way a demultiplexer keeps one reader per input.
var reusedReader = bytes.NewReader(nil)

// keptPMTs: decoded PMTs that are looked at again after many later ones were decoded.
var keptPMTs mon.Keeper

func run(c *mon.Ctx) {
	c.Rule("PMT sections generated from ground truth (0..50 streams, 0..3 descriptors each incl. empty and long bodies, program descriptors, all versions) x carriers (pointer_field 0..183 with 0xFF filler, 0..2 other complete sections before, trailing 0xFF) x packetisations (random splits 1..184, adaptation-field stuffing or 0xFF padding, running continuity counter, interleaved packets of other PIDs with and without PUSI); every prefix of the payload is given to the completion predicate. distinct non-trivial = distinct (pointer class, other sections before, packet count class, split coincides with a section boundary, descriptor shape class, trailing stuffing)")
	c.Assume("predicate rule: required false when the prefix ends inside the pointer filler, exactly at the start of the first section or strictly inside a section (including its 3-byte header); required true from the end of the last section on; unconstrained exactly at the boundary between two sections. ReadPMT is exercised with at least one elementary stream. Other sections before the PMT section use table ids other than 0x02 and 0xFF")
	c.Floor("kept.decoded PMT.looked_at_again_after_64_or_more_later_objects", 1000)
	c.Floor("predicate.required_false", 100000)
	c.Floor("predicate.required_true", 5000)
	c.Floor("readpmt.split_on_section_boundary", 20)
	c.Floor("readpmt.first_packet_holds_only_pointer_filler", 20)
	c.Floor("readpmt.long_run_of_other_pids_inside_the_unit", 20)
	c.Floor("readpmt.reader_object_of_the_previous_stream_reset_and_reused", 500)
	c.Floor("readpmt.earlier_unit_on_pmt_pid/other-section-unit", 500)
	c.Floor("readpmt.earlier_unit_on_pmt_pid/truncated-larger-pmt", 500)
	c.Floor("decode_again_after_removal", 2000)
	c.Floor("readpmt.after_failed_readpmt", 500)

	c.Stream("pmt", c.N(20000, 8000000), func(i int, r *gen.Rand) {
		nStreams := -1
		if r.Chance(12) {
			nStreams = 0
		}
		p := ref.GenPMT(r, nStreams)
		if len(p.Streams) >= 2 && r.Chance(8) {
			// two entries of the stream loop may name the same elementary PID: the lists mirror the section entry by entry
			a, b := r.Intn(len(p.Streams)), r.Intn(len(p.Streams))
			p.Streams[b].PID = p.Streams[a].PID
			c.Count("pmt.entries_sharing_a_pid")
		}
		k := mkCarrier(r, &p)
		full := r.Slack(k.full())
		snap := append([]byte{}, full...)
		w := func(car string) func(string) wit {
			return func(d string) wit { return wit{Carrier: car, Shape: k.shape(&p), Payload: mon.Hex(snap), Detail: d} }
		}
		// ---- NewPMT on the concatenated payload (sometimes right after a call that fails: no state is carried over)
		if i%8 == 3 {
			psi.NewPMT(full[:r.Intn(len(full))])
			psi.NewPMT(nil)
			c.Count("decode_after_failed_decode")
		}
		m, err := psi.NewPMT(full)
		c.Eval(1)
		if err != nil || m == nil {
			c.Fail("NewPMT:error", fmt.Sprintf("NewPMT rejected a well-formed payload (%s): %v", k.shape(&p), err), w("payload")(fmt.Sprint(err)))
			return
		}
		checkPMT(c, "NewPMT", m, &p, w("payload"))
		if i%4 == 0 {
			// an object of its own is kept and looked at again after 1 ... 4095 later PMTs were decoded
			if mk, err := psi.NewPMT(append([]byte{}, snap...)); err == nil && mk != nil {
				pk, wk := p, w("payload")
				keptPMTs.Keep(c, "decoded PMT", r, func() string {
					checkPMT(c, "NewPMT-object-kept-across-many-later-decodes", mk, &pk, wk)
					return ""
				})
			}
		}
		if !bytes.Equal(full, snap) {
			c.Fail("NewPMT:input-modified", "NewPMT or a getter modified the payload", w("payload")(""))
		}
		// ---- PSI accessors on the first section
		first := k.sec
		if len(k.others) > 0 {
			first = k.others[0]
		}
		c.Eval(1)
		if g := psi.PointerField(full); int(g) != k.ptr {
			c.Fail("psi:PointerField", fmt.Sprintf("PointerField()=%d, encoded %d", g, k.ptr), w("payload")(""))
		}
		if g := psi.TableID(full); g != first[0] {
			c.Fail("psi:TableID", fmt.Sprintf("TableID()=%#x, first section has %#x", g, first[0]), w("payload")(""))
		}
		if g := psi.SectionSyntaxIndicator(full); g != (first[1]&0x80 != 0) {
			c.Fail("psi:SectionSyntaxIndicator", fmt.Sprintf("SectionSyntaxIndicator()=%v, first section byte %#x", g, first[1]), w("payload")(""))
		}
		if g := psi.PrivateIndicator(full); g != (first[1]&0x40 != 0) {
			c.Fail("psi:PrivateIndicator", fmt.Sprintf("PrivateIndicator()=%v, first section byte %#x", g, first[1]), w("payload")(""))
		}
		if g := psi.SectionLength(full); int(g) != len(first)-3 {
			c.Fail("psi:SectionLength", fmt.Sprintf("SectionLength()=%d, first section announces %d", g, len(first)-3), w("payload")(""))
		}
		if k.ptr == 0 && len(k.others) == 0 {
			crc, err := psi.ExtractCRC(full)
			want := uint32(k.sec[len(k.sec)-4])<<24 | uint32(k.sec[len(k.sec)-3])<<16 | uint32(k.sec[len(k.sec)-2])<<8 | uint32(k.sec[len(k.sec)-1])
			c.Count("extractcrc.checked")
			if err != nil || crc != want {
				c.Fail("psi:ExtractCRC", fmt.Sprintf("ExtractCRC()=%#08x,%v, the section's CRC_32 is %#08x", crc, err, want), w("payload")(""))
			}
		}
		// ---- completion predicate on every prefix
		complete := len(k.payload)
		firstStart := k.bounds[0]
		isBound := map[int]bool{}
		for _, b := range k.bounds {
			isBound[b] = true
		}
		for n := 0; n <= len(full); n++ {
			d, err := psi.PmtAccumulatorDoneFunc(full[:n])
			if err != nil {
				c.Fail("predicate:error", fmt.Sprintf("the completion predicate failed on a %d-byte prefix: %v", n, err), w("prefix")(""))
				break
			}
			if n >= complete {
				c.Count("predicate.required_true")
				if !d {
					c.Fail("predicate:false-when-complete", fmt.Sprintf("the predicate is false on the prefix of %d bytes although all sections are complete at %d (%s)", n, complete, k.shape(&p)), w("prefix")(fmt.Sprintf("prefix length %d", n)))
					break
				}
				continue
			}
			if isBound[n] && n != firstStart {
				c.Count("predicate.unconstrained_between_sections")
				continue
			}
			c.Count("predicate.required_false")
			if d {
				where := "inside a section body"
				switch {
				case n < firstStart:
					where = "inside the pointer filler"
				case n == firstStart:
					where = "exactly at the start of the first section"
				default:
					for _, b := range k.bounds {
						if n > b && n < b+3 {
							where = "inside a section header"
						}
					}
				}
				c.Fail("predicate:true-on-proper-prefix/"+where, fmt.Sprintf("the predicate is true on a proper prefix of %d bytes that ends %s (complete at %d; %s)", n, where, complete, k.shape(&p)), w("prefix")(fmt.Sprintf("prefix length %d", n)))
				break
			}
		}
		c.Eval(len(full) + 1)
		// ---- ReadPMT from a packet stream
		if len(p.Streams) == 0 {
			c.Count("newpmt.zero_streams")
			return
		}
		pid := 32 + r.Intn(8000)
		nch := 1 + len(full)/60
		chunks := ref.RandChunks(r, nch)
		forceBoundary := r.Chance(6) && len(k.others) > 0
		if forceBoundary {
			// make a packet boundary coincide with the boundary between the preceding section and the PMT section
			b := k.bounds[len(k.bounds)-2]
			chunks = nil
			for b > 184 {
				chunks = append(chunks, 184)
				b -= 184
			}
			chunks = append(chunks, b, 1+r.Intn(184))
		}
		if r.Chance(8) && k.ptr == 183 {
			chunks = append([]int{184}, chunks...)
		}
		pkts, starts := ref.Packetise(pid, r.Intn(16), full, chunks, r.Bool())
		splitOnBoundary := false
		for _, s := range starts[1:] {
			if isBound[s] && s != complete {
				splitOnBoundary = true
			}
		}
		if splitOnBoundary {
			c.Count("readpmt.split_on_section_boundary")
		}
		if len(starts) > 1 && starts[1] <= firstStart {
			c.Count("readpmt.first_packet_holds_only_pointer_filler")
		}
		var st bytes.Buffer
		inter := r.Intn(3)
		earlier := ""
		if r.Chance(5) {
			// an earlier payload unit on the PMT PID that does not hold a PMT with streams: another table's
			// section in a unit of its own, or the head of a larger PMT whose remaining packets were lost
			var unit []byte
			if r.Bool() {
				earlier = "other-section-unit"
				unit = append([]byte{0}, ref.OtherSection(r.PickByte([]byte{0x00, 0x03, 0x42, 0xc8, 0xfc}), r.Bytes(r.PickInt([]int{10, 100, 300, 700, 1000, r.Intn(1000)})))...)
			} else {
				earlier = "truncated-larger-pmt"
				big := ref.GenPMT(r, 30+r.Intn(20))
				unit = append([]byte{0}, big.Section()...)
			}
			ek, _ := ref.Packetise(pid, r.Intn(16), unit, ref.RandChunks(r, 1+len(unit)/60), r.Bool())
			if earlier == "truncated-larger-pmt" {
				// whole packets are lost, from somewhere after the first one to the end of the unit
				if len(ek) < 2 {
					ek = nil
				} else {
					ek = ek[:1+r.Intn(len(ek)-1)]
				}
			}
			for _, pk := range ek {
				st.Write(pk[:])
			}
			c.Count("readpmt.earlier_unit_on_pmt_pid/" + earlier)
		}
		// now and then a long run of other programmes' packets lies between two packets of the unit (a PMT is
		// a trickle inside a multiplex of tens of megabits): 128, 129, ... 256, ... 65536 packets and more
		gapAt, gapLen := -1, 0
		if len(pkts) > 1 && r.Chance(8) {
			gapAt = 1 + r.Intn(len(pkts)-1)
			gapLen = r.PickInt([]int{127, 128, 129, 130, 200, 255, 256, 257, 1000, 4096, 5000})
			if r.Chance(10) {
				gapLen = r.PickInt([]int{65535, 65536, 65537, 70000})
			}
			c.Count("readpmt.long_run_of_other_pids_inside_the_unit")
		}
		for k, pk := range pkts {
			nq := r.Intn(inter + 1)
			if k == gapAt {
				nq = gapLen
			}
			for q := nq; q > 0; q-- {
				opid := (pid + 1 + r.Intn(60)) & 0x1fff
				if nq > 300 {
					o := ref.PaddedPacket(opid, q&15, q%97 == 0, nil)
					st.Write(o[:])
					continue
				}
				o := ref.PaddedPacket(opid, r.Intn(16), r.Bool(), r.Bytes(r.Intn(185)))
				st.Write(o[:])
			}
			st.Write(pk[:])
		}
		in := st.Bytes()
		if i%8 == 5 {
			// right after a ReadPMT that fails on a complete but unparsable unit (and one that runs out of
			// stream): no state is carried over
			// one stream whose only descriptor announces 0xF0 bytes and is cut off by the end of the section
			bp0 := ref.PMT{Program: 1, CurrentNext: true, PCRPID: 0x1fff, Streams: []ref.ES{{Type: 0x1b, PID: 0x401, Descs: []ref.Desc{{Tag: 5, Body: r.Bytes(2 + r.Intn(6))}}}}}
			bad := bp0.Section()
			bad[18] = 0xf0
			bp, _ := ref.Packetise(pid, r.Intn(16), append([]byte{0}, bad...), ref.RandChunks(r, 1+len(bad)/60), r.Bool())
			var bs bytes.Buffer
			for _, pk := range bp {
				bs.Write(pk[:])
			}
			if _, berr := psi.ReadPMT(bytes.NewReader(bs.Bytes()), pid); berr != nil {
				c.Count("readpmt.after_failed_readpmt")
			}
			psi.ReadPMT(bytes.NewReader(in[:188*r.Intn(1+len(in)/188)]), pid)
		}
		if r.Chance(10) {
			// the stream read before this one was of another kind (204- or 192-byte packets, no transport stream at
			// all): whatever was made of it, nothing of it carries over
			var junk []byte
			kind := r.Intn(3)
			for k := 2 + r.Intn(6); k > 0; k-- {
				o := ref.PaddedPacket(r.PickInt([]int{pid, pid, 0, 1 + r.Intn(8190)}), k&15, k%2 == 0, r.Bytes(r.Intn(100)))
				switch kind {
				case 0:
					junk = append(append(junk, o[:]...), r.Bytes(16)...)
				case 1:
					junk = append(append(junk, r.Bytes(4)...), o[:]...)
				default:
					junk = append(junk, r.Bytes(150)...)
				}
			}
			psi.ReadPMT(bytes.NewReader(junk), pid)
			psi.ReadPAT(bytes.NewReader(junk))
			c.Count("readpmt.after_a_stream_of_another_kind")
		}
		m2, err := psi.ReadPMT(ref.AnyReader(r, append([]byte{}, in...)), pid)
		c.Eval(1)
		var sizes []int
		for i := range starts {
			end := len(full)
			if i+1 < len(starts) {
				end = starts[i+1]
			}
			sizes = append(sizes, end-starts[i])
		}
		ws := func(d string) wit {
			return wit{Carrier: "stream", Shape: k.shape(&p), Payload: mon.Hex(snap), Packets: len(pkts), Chunks: sizes, Detail: d}
		}
		if err != nil || m2 == nil {
			sig := "ReadPMT:error"
			if earlier != "" {
				sig = "ReadPMT:error/after-" + earlier
			} else if splitOnBoundary {
				sig = "ReadPMT:error/packet-boundary-on-section-boundary"
			} else if len(starts) > 1 && starts[1] <= firstStart+2 {
				sig = "ReadPMT:error/first-packet-ends-before-section-header-complete"
			}
			c.Fail(sig, fmt.Sprintf("ReadPMT failed on a well-formed stream: %v (%s, %d packets, chunk sizes %v)", err, k.shape(&p), len(pkts), sizes), ws(fmt.Sprint(err)))
		} else {
			checkPMT(c, "ReadPMT", m2, &p, ws)
		}
		// ---- one reader object serves one stream after the other (Reset): this stream, with further packets
		// behind the PMT that the call has no reason to consume, is read through the object that served the
		// previous case's stream
		if r.Chance(3) {
			tail := append([]byte{}, in...)
			for k := r.Intn(70); k > 0; k-- {
				o := ref.PaddedPacket((pid+1+r.Intn(60))&0x1fff, k&15, false, nil)
				tail = append(tail, o[:]...)
			}
			// (the stream it serves first: another PMT, and more packets behind it)
			{
				q := ref.GenPMT(r, 1+r.Intn(3))
				qk, _ := ref.Packetise(pid, 0, append([]byte{0}, q.Section()...), ref.RandChunks(r, 3), r.Bool())
				var other []byte
				for _, k2 := range qk {
					other = append(other, k2[:]...)
				}
				for k := 1 + r.Intn(40); k > 0; k-- {
					o := ref.PaddedPacket((pid+1+r.Intn(60))&0x1fff, k&15, false, nil)
					other = append(other, o[:]...)
				}
				if r.Bool() {
					// (a PMT is repeated several times a second: the next repetition is among them)
					for _, k2 := range qk {
						other = append(other, k2[:]...)
					}
					o := ref.PaddedPacket((pid+3)&0x1fff, 0, false, nil)
					other = append(other, o[:]...)
				}
				reusedReader.Reset(other)
				psi.ReadPMT(reusedReader, pid)
			}
			reusedReader.Reset(tail)
			c.Count("readpmt.reader_object_of_the_previous_stream_reset_and_reused")
			if m3, err := psi.ReadPMT(reusedReader, pid); err != nil || m3 == nil {
				c.Fail("ReadPMT-through-a-reused-reader-object:error", fmt.Sprintf("ReadPMT failed on a well-formed stream read through a *bytes.Reader that had served another stream before (Reset): %v", err), ws(fmt.Sprint(err)))
			} else {
				checkPMT(c, "ReadPMT-through-a-reused-reader-object", m3, &p, ws)
			}
		}
		// ---- objects decoded earlier keep reporting their own table after other PMTs were decoded
		{
			q := ref.GenPMT(r, 1+r.Intn(4))
			qp := append([]byte{0}, q.Section()...)
			psi.NewPMT(qp)
			qk, _ := ref.Packetise(pid, 0, qp, ref.RandChunks(r, 3), r.Bool())
			var st2 bytes.Buffer
			for _, k2 := range qk {
				st2.Write(k2[:])
			}
			psi.ReadPMT(bytes.NewReader(st2.Bytes()), pid)
			c.Count("earlier_objects_rechecked")
			checkPMT(c, "NewPMT-object-after-later-decodes", m, &p, w("payload"))
			if m2 != nil && err == nil {
				checkPMT(c, "ReadPMT-object-after-later-decodes", m2, &p, ws)
			}
		}
		// ---- decoding is a function of the payload: remove streams from one result, decode the same bytes again
		if i%3 == 0 {
			if m3, err := psi.NewPMT(append([]byte{}, snap...)); err == nil && m3 != nil {
				var drop []int
				for _, sp := range p.Streams {
					if r.Bool() {
						drop = append(drop, sp.PID)
					}
				}
				m3.RemoveElementaryStreams(drop)
				c.Count("decode_again_after_removal")
				if m4, err := psi.NewPMT(append([]byte{}, snap...)); err != nil || m4 == nil {
					c.Fail("NewPMT-again:error", fmt.Sprintf("the same payload was rejected when parsed again: %v", err), w("payload")(""))
				} else {
					checkPMT(c, "NewPMT-again-after-removing-streams-from-an-earlier-result", m4, &p, w("payload"))
				}
				if m5, err := psi.ReadPMT(bytes.NewReader(in), pid); err == nil && m5 != nil {
					checkPMT(c, "ReadPMT-again-after-removing-streams-from-an-earlier-result", m5, &p, ws)
				}
				checkPMT(c, "NewPMT-object-after-removal-on-another-object", m, &p, w("payload"))
			}
		}
		// ---- ... and of nothing else: a buffer the payload was decoded from once is overwritten by its owner, then
		// the same payload is decoded from other memory
		if i%3 == 1 {
			first := append([]byte{}, snap...)
			if mf, err := psi.NewPMT(first); err == nil && mf != nil {
				for k := range first {
					first[k] ^= 0x5a
				}
				// (also the buffer this payload was decoded from for the very first time in this process; the
				// objects decoded from it are not looked at any more)
				for k := range full {
					full[k] ^= 0xa5
				}
				c.Count("decode_again_after_first_buffer_overwritten")
				if m6, err := psi.NewPMT(append([]byte{}, snap...)); err != nil || m6 == nil {
					c.Fail("NewPMT-again:error", fmt.Sprintf("the same payload was rejected when parsed again after the buffer of an earlier parse was overwritten: %v", err), w("payload")(""))
				} else {
					checkPMT(c, "NewPMT-again-after-the-buffer-of-an-earlier-parse-was-overwritten", m6, &p, w("payload"))
				}
			}
		}
		// ---- class
		dshape := 0
		for _, s := range p.Streams {
			for _, d := range s.Descs {
				if len(d.Body) == 0 {
					dshape |= 1
				} else if len(d.Body) > 20 {
					dshape |= 4
				} else {
					dshape |= 2
				}
			}
		}
		cls := fmt.Sprintf("ptr=%s/others=%d/pkts=%s/split-on-boundary=%v/descshape=%d/trailing=%v", ptrClass(k.ptr), len(k.others), cnt(len(pkts)), splitOnBoundary, dshape, k.trailing > 0)
		if c.Class(cls) && c.WantSample() && len(full) < 120 && len(pkts) > 1 {
			c.Sample(func() interface{} { return ws("") })
		}
	})

	// ---- the decoders are functions of their argument whoever else is decoding at the same time
	c.Floor("concurrent.calls", 5000)
	c.Stream("concurrent-decoders", c.N(8, 200), func(i int, r *gen.Rand) {
		c.Concurrent("psi.NewPMT / psi.ReadPMT", 8, 2000, r, func(q *gen.Rand) string {
			p := ref.GenPMT(q, 1+q.Intn(8))
			pay := q.Slack(append(ref.PointerPrefix(q.Intn(4)), p.Section()...))
			m, err := psi.NewPMT(pay)
			if err != nil || m == nil {
				return fmt.Sprintf("a well-formed payload was rejected: %v", err)
			}
			pids, ess := m.Pids(), m.ElementaryStreams()
			if len(pids) != len(p.Streams) || len(ess) != len(p.Streams) || m.VersionNumber() != p.Version {
				return fmt.Sprintf("%d PIDs / %d streams / version %d decoded, the section has %d streams, version %d", len(pids), len(ess), m.VersionNumber(), len(p.Streams), p.Version)
			}
			for k, st := range p.Streams {
				if pids[k] != st.PID || ess[k].ElementaryPid() != st.PID || ess[k].StreamType() != st.Type || len(ess[k].Descriptors()) != len(st.Descs) {
					return fmt.Sprintf("stream %d decoded as type %#x PID %#x with %d descriptors, encoded type %#x PID %#x with %d", k, ess[k].StreamType(), ess[k].ElementaryPid(), len(ess[k].Descriptors()), st.Type, st.PID, len(st.Descs))
				}
			}
			// the same through a packet stream of this goroutine's own
			const pmtPID = 0x1abc
			pk, _ := ref.Packetise(pmtPID, q.Intn(16), pay, ref.RandChunks(q, 1+len(pay)/90), q.Bool())
			var st bytes.Buffer
			for k := range pk {
				if q.Chance(3) {
					o := ref.PaddedPacket(0x20+q.Intn(100), q.Intn(16), q.Bool(), q.Bytes(q.Intn(185)))
					st.Write(o[:])
				}
				st.Write(pk[k][:])
			}
			mr, err := psi.ReadPMT(&st, pmtPID)
			if err != nil || mr == nil {
				return fmt.Sprintf("ReadPMT on a stream that carries the PMT in %d packets failed: %v", len(pk), err)
			}
			rp, re := mr.Pids(), mr.ElementaryStreams()
			if len(rp) != len(p.Streams) || len(re) != len(p.Streams) || mr.VersionNumber() != p.Version {
				return fmt.Sprintf("ReadPMT: %d PIDs / %d streams / version %d, the section has %d streams, version %d", len(rp), len(re), mr.VersionNumber(), len(p.Streams), p.Version)
			}
			for k, s := range p.Streams {
				if rp[k] != s.PID || re[k].StreamType() != s.Type || len(re[k].Descriptors()) != len(s.Descs) {
					return fmt.Sprintf("ReadPMT: stream %d decoded as type %#x PID %#x, encoded type %#x PID %#x", k, re[k].StreamType(), rp[k], s.Type, s.PID)
				}
			}
			return ""
		})
		c.Class("concurrent-decoders")
	})
	// ---- one decoded PMT read by several goroutines at once (its getters only read it)
	c.Stream("concurrent-readers-of-one-pmt", c.N(8, 200), func(i int, r *gen.Rand) {
		c.ConcurrentReaders("decoded PMT", c.N(300, 300), r, func(q *gen.Rand) func() string {
			p := ref.GenPMT(q, 3+q.Intn(10))
			m, err := psi.NewPMT(append(ref.PointerPrefix(q.Intn(3)), p.Section()...))
			if err != nil || m == nil {
				return func() string { return fmt.Sprintf("a well-formed payload was rejected: %v", err) }
			}
			return func() string {
				pids, ess := m.Pids(), m.ElementaryStreams()
				if len(pids) != len(p.Streams) || len(ess) != len(p.Streams) || m.VersionNumber() != p.Version || m.CurrentNextIndicator() != p.CurrentNext {
					return fmt.Sprintf("%d PIDs / %d streams / version %d read, the section has %d streams, version %d", len(pids), len(ess), m.VersionNumber(), len(p.Streams), p.Version)
				}
				for k, st := range p.Streams {
					if pids[k] != st.PID || ess[k] == nil || ess[k].ElementaryPid() != st.PID || ess[k].StreamType() != st.Type || !m.PIDExists(st.PID) {
						return fmt.Sprintf("stream %d read with other values than encoded", k)
					}
					ds := ess[k].Descriptors()
					if len(ds) != len(st.Descs) {
						return fmt.Sprintf("stream %d: %d descriptors read, %d encoded", k, len(ds), len(st.Descs))
					}
					for j, d := range ds {
						if d == nil || d.Tag() != st.Descs[j].Tag {
							return fmt.Sprintf("stream %d descriptor %d: missing or other tag than encoded", k, j)
						}
						if b, found := rawBody(d); found && !bytes.Equal(b, st.Descs[j].Body) {
							return fmt.Sprintf("stream %d descriptor %d: other body than encoded", k, j)
						}
					}
				}
				return ""
			}
		})
		c.Class("concurrent-readers-of-one-pmt")
	})
	// ---- table header codec: encode then decode is the identity (exhaustive), reserved bits '11'
	c.Exhaustive("TableHeader: table id 256 x syntax 2 x private 2 x section_length 4096 (12 bits)", 256*4*4096)
	c.StreamSeedless("table-header", 256, func(id int, r *gen.Rand) {
		for f := 0; f < 4; f++ {
			for l := 0; l < 4096; l++ {
				th := psi.TableHeader{TableID: uint8(id), SectionSyntaxIndicator: f&1 != 0, PrivateIndicator: f&2 != 0, SectionLength: uint16(l)}
				b := th.Data()
				back, err := psi.TableHeaderFromBytes(b)
				if err != nil || back != th || len(b) != 3 || b[1]&0x30 != 0x30 {
					c.Fail("tableheader:roundtrip", fmt.Sprintf("TableHeader %+v encodes to %x and decodes to %+v (%v)", th, b, back, err), wit{Carrier: "table header", Detail: fmt.Sprintf("%+v -> %x -> %+v", th, b, back)})
				}
				want := []byte{byte(id), 0x30 | byte(l>>8), byte(l)}
				if f&1 != 0 {
					want[1] |= 0x80
				}
				if f&2 != 0 {
					want[1] |= 0x40
				}
				if !bytes.Equal(b, want) {
					c.Fail("tableheader:encoding", fmt.Sprintf("TableHeader %+v encodes to %x, ISO layout is %x", th, b, want), wit{Carrier: "table header", Detail: fmt.Sprintf("%x vs %x", b, want)})
				}
			}
		}
		c.Eval(4 * 4096)
		c.Class(fmt.Sprintf("tableheader/id=%02x", id))
		if _, err := psi.TableHeaderFromBytes(make([]byte, id%3)); err == nil {
			c.Fail("tableheader:short", "TableHeaderFromBytes accepted fewer than 3 bytes", nil)
		}
		pf := psi.NewPointerField(id)
		if len(pf) != id+1 || int(pf[0]) != id || !bytes.Equal(pf[1:], bytes.Repeat([]byte{0xff}, id)) {
			c.Fail("pointerfield:new", fmt.Sprintf("NewPointerField(%d) is not the pointer byte followed by %d bytes 0xFF", id, id), nil)
		}
	})
	_ = packet.PacketSize
}

func ptrClass(p int) string {
	switch {
	case p == 0:
		return "0"
	case p < 180:
		return "1-179"
	case p < 183:
		return "180-182"
	}
	return "183"
}

func cnt(n int) string {
	switch {
	case n <= 2:
		return fmt.Sprint(n)
	case n <= 6:
		return "3-6"
	}
	return "7+"
}
