// C20 — stream-type classification and PMT descriptor decoders match their definitions.
package main

import (
	"bytes"
	"fmt"

	"github.com/Comcast/gots/v2/psi"

	"verif/harness/internal/gen"
	"verif/harness/internal/mon"
	"verif/harness/internal/ref"
)

func main() { mon.Main("C20", run) }

type wit struct {
	Case   string `json:"case"`
	Tag    string `json:"tag,omitempty"`
	Body   string `json:"body_hex,omitempty"`
	Detail string `json:"detail"`
}

func in(x byte, set ...byte) bool {
	for _, s := range set {
		if s == x {
			return true
		}
	}
	return false
}

func checkStreamType(c *mon.Ctx, where string, code byte, st psi.PmtStreamType) {
	bad := func(name string, got, want interface{}) {
		c.Fail("streamtype:"+name, fmt.Sprintf("%s: stream_type %#02x: %s = %v, want %v", where, code, name, got, want), wit{Case: where, Detail: fmt.Sprintf("stream_type %#02x %s=%v want %v", code, name, got, want)})
	}
	c.Eval(1)
	if st.StreamType() != code {
		bad("StreamType", st.StreamType(), code)
	}
	if st.StreamTypeDescription() == "" {
		bad("StreamTypeDescription", "\"\"", "non-empty")
	}
	if g, w := st.IsAudioContent(), in(code, 0x0f, 0x81, 0x87); g != w {
		bad("IsAudioContent", g, w)
	}
	if g, w := st.IsVideoContent(), in(code, 0x02, 0x1b, 0x24); g != w {
		bad("IsVideoContent", g, w)
	}
	if g, w := st.IsSCTE35Content(), code == 0x86; g != w {
		bad("IsSCTE35Content", g, w)
	}
	if g, w := st.IsID3Content(), code == 0x15; g != w {
		bad("IsID3Content", g, w)
	}
	if g, w := st.IsPrivateContent(), code == 0x06; g != w {
		bad("IsPrivateContent", g, w)
	}
	if g, w := st.IsStreamWherePresentationLagsEbp(), lags(code); g != w {
		bad("IsStreamWherePresentationLagsEbp", g, w)
	}
}

func lags(code byte) bool { return in(code, 0x03, 0x04, 0x0f, 0x11, 0x81, 0x87, 0x88) }

// neutral checks every decoder that is not for this tag.
func neutral(c *mon.Ctx, tag byte, body []byte) {
	d := psi.NewPmtDescriptor(tag, body)
	c.Eval(1)
	w := func(s string) wit {
		return wit{Case: "foreign tag", Tag: fmt.Sprintf("%#02x", tag), Body: mon.Hex(body), Detail: s}
	}
	if d.Tag() != tag {
		c.Fail("descriptor:tag", "Tag() does not echo the tag", w(""))
	}
	if tag != 0x0e {
		if g := d.DecodeMaximumBitRate(); g != 0 || d.IsMaximumBitrateDescriptor() {
			c.Fail("neutral:DecodeMaximumBitRate", fmt.Sprintf("DecodeMaximumBitRate on tag %#02x = %d, want 0", tag, g), w(fmt.Sprint(g)))
		}
	}
	if tag != 0x0a {
		if g := d.DecodeIso639LanguageCode(); g != "" || d.IsIso639LanguageDescriptor() {
			c.Fail("neutral:DecodeIso639LanguageCode", fmt.Sprintf("DecodeIso639LanguageCode on tag %#02x = %q, want \"\"", tag, g), w(g))
		}
		if g := d.DecodeIso639AudioType(); g != 0 {
			c.Fail("neutral:DecodeIso639AudioType", fmt.Sprintf("DecodeIso639AudioType on tag %#02x with a %d-byte body = %#x, want 0", tag, len(body), g), w(fmt.Sprint(g)))
		}
	}
	if tag != 0x7f {
		if g := d.DecodeTTMLIso639LanguageCode(); g != "" || d.IsTTMLSubtitlingDescriptor() {
			c.Fail("neutral:DecodeTTMLIso639LanguageCode", fmt.Sprintf("DecodeTTMLIso639LanguageCode on tag %#02x = %q", tag, g), w(g))
		}
		if g := d.DecodeTTMLSubtitlePurpose(); g != 0xff {
			c.Fail("neutral:DecodeTTMLSubtitlePurpose", fmt.Sprintf("DecodeTTMLSubtitlePurpose on tag %#02x = %#x, want 0xFF", tag, g), w(fmt.Sprint(g)))
		}
	}
	if tag != 0x05 && d.IsDolbyVision() {
		c.Fail("neutral:IsDolbyVision", fmt.Sprintf("IsDolbyVision is true on tag %#02x", tag), w(""))
	}
	if tag != 0xb0 {
		if g := d.DecodeDolbyVisionCodec("hvc1"); g != "" {
			c.Fail("neutral:DecodeDolbyVisionCodec", fmt.Sprintf("DecodeDolbyVisionCodec on tag %#02x = %q", tag, g), w(g))
		}
	}
	if tag != 0xe9 && d.IsEBPDescriptor() {
		c.Fail("neutral:IsEBPDescriptor", fmt.Sprintf("IsEBPDescriptor is true on tag %#02x", tag), w(""))
	}
}

// lang draws a 3-byte language code: usual lower-case codes, the same codes in other spellings (upper
// case, mixed case, padded with space / NUL / '@'), and arbitrary bytes; a decoder must return its own bytes.
// printed prints the descriptor in one of the ways a caller can (half of the time) and says whether it did.
func printed(r *gen.Rand, d psi.PmtDescriptor) bool {
	switch r.Intn(8) {
	case 0:
		_ = d.Format()
	case 1:
		_ = fmt.Sprint(d)
	case 2:
		_ = fmt.Sprintf("%v %s", d, d)
	case 3:
		// through the stream and the PMT that carry it
		es := psi.NewPmtElementaryStream(0x06, 0x101, []psi.PmtDescriptor{d})
		_ = fmt.Sprint(es)
	default:
		return false
	}
	return true
}

var prevRead interface{} // what the previous case of pmt-read-from-streams obtained and expects

func lang(r *gen.Rand) string {
	base := []string{"eng", "spa", "fra", "deu", "zho", "und"}[r.Intn(6)]
	if r.Chance(3) {
		base = string([]byte{byte('a' + r.Intn(26)), byte('a' + r.Intn(26)), byte('a' + r.Intn(26))})
	}
	b := []byte(base)
	switch r.Intn(8) {
	case 0:
		for i := range b {
			b[i] -= 32 // upper case
		}
	case 1:
		b[r.Intn(3)] -= 32 // mixed case
	case 2:
		b[2] = r.PickByte([]byte{' ', 0, '@', '`'})
	case 3:
		b[r.Intn(3)] ^= byte(0x20 << uint(r.Intn(3))) // differs from a usual code only in the top three bits of a byte
	case 4:
		r.Fill(b)
	}
	return string(b)
}

// own checks each decoder on a reference-built body of its own tag.
type keptDesc struct {
	d psi.PmtDescriptor
	v uint32
}

var ring []keptDesc

func own(c *mon.Ctx, r *gen.Rand) {
	c.Eval(5)
	// maximum_bitrate_descriptor: reserved '11', maximum_bitrate 22 uimsbf (values below 2^21)
	v := uint32(r.Intn(1 << 21))
	if r.Chance(4) {
		v = uint32(r.PickInt([]int{0, 1, 0xff, 0x100, 0xffff, 0x10000, 1<<21 - 1, 1 << 20}))
	}
	body := []byte{0xc0 | byte(v>>16), byte(v >> 8), byte(v)}
	d := psi.NewPmtDescriptor(0x0e, body)
	if g := d.DecodeMaximumBitRate(); g != v || !d.IsMaximumBitrateDescriptor() {
		c.Fail("decode:maximum-bitrate", fmt.Sprintf("DecodeMaximumBitRate(%x) = %d, encoded %d", body, g, v), wit{Case: "maximum_bitrate", Body: mon.Hex(body), Detail: fmt.Sprint(g)})
	}
	es := psi.NewPmtElementaryStream(0x1b, 0x100, []psi.PmtDescriptor{psi.NewPmtDescriptor(0x52, []byte{1}), d, psi.NewPmtDescriptor(0x0a, []byte("eng\x00"))}) // one maximum bitrate descriptor: which of several would count is not stated
	if g := es.MaxBitRate(); g != uint64(v)*50*8 {
		c.Fail("decode:stream-max-bitrate", fmt.Sprintf("MaxBitRate() = %d, want %d x 50 x 8", g, v), wit{Case: "maximum_bitrate", Body: mon.Hex(body), Detail: fmt.Sprint(g)})
	}
	if g := psi.NewPmtElementaryStream(0x1b, 0x100, nil).MaxBitRate(); g != 0 {
		c.Fail("decode:stream-max-bitrate-absent", "MaxBitRate() without a maximum bitrate descriptor is not 0", nil)
	}
	c.Class(fmt.Sprintf("maxbitrate/hi=%d", bitlen(v)))
	// descriptors created long ago (thousands of descriptors earlier; 600 cases) still decode to their own value
	ring = append(ring, keptDesc{d, v})
	if len(ring) > 600 {
		old := ring[0]
		ring = ring[1:]
		c.Count("descriptor_rechecked_after_600_cases")
		if g := old.d.DecodeMaximumBitRate(); g != old.v || !old.d.IsMaximumBitrateDescriptor() {
			c.Fail("decode:maximum-bitrate-of-an-old-descriptor", fmt.Sprintf("a maximum bitrate descriptor created 600 cases (some 5000 descriptors) ago now decodes to %d; it was built for and decoded to %d", g, old.v), wit{Case: "maximum_bitrate", Detail: fmt.Sprint(g)})
			ring = nil
		}
	}
	// ISO_639_language_descriptor: one or more (code, audio_type) entries
	l := lang(r)
	at := r.PickByte([]byte{0, 1, 2, 3, 0x80, 0x81, r.Byte()})
	body = append([]byte(l), at)
	for k := r.Intn(3); k > 0; k-- {
		body = append(body, append([]byte(lang(r)), r.Byte())...)
	}
	d = psi.NewPmtDescriptor(0x0a, body)
	if g := d.DecodeIso639LanguageCode(); g != l || !d.IsIso639LanguageDescriptor() {
		c.Fail("decode:iso639-language", fmt.Sprintf("DecodeIso639LanguageCode = %q, encoded %q", g, l), wit{Case: "iso639", Body: mon.Hex(body), Detail: g})
	}
	if g := d.DecodeIso639AudioType(); g != at {
		c.Fail("decode:iso639-audio-type", fmt.Sprintf("DecodeIso639AudioType = %#x, encoded %#x", g, at), wit{Case: "iso639", Body: mon.Hex(body), Detail: fmt.Sprint(g)})
	}
	// printing is a read-only operation: the same answers afterwards
	if printed(r, d) {
		if g := d.DecodeIso639LanguageCode(); g != l || d.DecodeIso639AudioType() != at {
			c.Fail("decode:iso639-after-printing", fmt.Sprintf("after the descriptor was printed DecodeIso639LanguageCode = %q (encoded %q), audio type %#x (encoded %#x)", g, l, d.DecodeIso639AudioType(), at), wit{Case: "iso639", Body: mon.Hex(body), Detail: g})
		}
	}
	// the decoders of the other kinds, asked on the same object after its own decoder has answered
	if g := d.DecodeTTMLIso639LanguageCode(); g != "" {
		c.Fail("neutral:DecodeTTMLIso639LanguageCode-after-own-decoder", fmt.Sprintf("DecodeTTMLIso639LanguageCode on an ISO-639 language descriptor = %q after DecodeIso639LanguageCode had been called on it", g), wit{Case: "iso639", Body: mon.Hex(body), Detail: g})
	}
	if g := d.DecodeMaximumBitRate(); g != 0 {
		c.Fail("neutral:DecodeMaximumBitRate-after-own-decoder", fmt.Sprintf("DecodeMaximumBitRate on an ISO-639 language descriptor = %d", g), wit{Case: "iso639", Body: mon.Hex(body)})
	}
	if d.IsDolbyVision() || d.IsTTMLSubtitlingDescriptor() || d.IsMaximumBitrateDescriptor() {
		c.Fail("neutral:other-kinds-after-own-decoder", "an ISO-639 language descriptor answers as a descriptor of another kind after its own decoder was used", wit{Case: "iso639", Body: mon.Hex(body)})
	}
	{
		// decoded values stay what they were when the caller re-uses the body buffer
		kept := d.DecodeIso639LanguageCode()
		for k := range body {
			body[k] ^= 0x55
		}
		if kept != l {
			c.Fail("decode:iso639-language-follows-buffer", fmt.Sprintf("a language code decoded earlier changed from %q to %q when the caller overwrote the descriptor body", l, kept), wit{Case: "iso639", Detail: kept})
		}
	}
	c.Class(fmt.Sprintf("iso639/audio-type=%02x/entries=%d", at, len(body)/4))
	// DVB extension descriptor carrying TTML subtitling: tag_extension 0x20, language, purpose(6) + TTS_suitability(2), ...
	ext := byte(0x20)
	if r.Chance(4) {
		ext = r.Byte()
	}
	l = lang(r)
	purpose := r.PickByte([]byte{0, 1, 2, 0x10, 0x11, 0x12, 0x30, 0x31, byte(r.Intn(64))})
	body = append(append([]byte{ext}, l...), purpose<<2|byte(r.Intn(4)))
	// the rest of the fixed part and what it announces (ETSI EN 303 560): essential_font_usage_flag,
	// qualifier_present_flag, reserved, dvb_ttml_profile_count; the profiles; the qualifier; the font ids;
	// text_length and the service name
	fonts, qual, profiles := r.Bool(), r.Bool(), r.Intn(4)
	fl := byte(0x30 | profiles)
	if fonts {
		fl |= 0x80
	}
	if qual {
		fl |= 0x40
	}
	body = append(body, fl)
	body = append(body, r.Bytes(profiles)...)
	if qual {
		body = append(body, r.Bytes(4)...)
	}
	if fonts {
		n := r.Intn(3)
		body = append(body, byte(n))
		for k := 0; k < n; k++ {
			body = append(body, r.Byte()&0x7f)
		}
	}
	name := r.Bytes(r.Intn(6))
	body = append(append(body, byte(len(name))), name...)
	d = psi.NewPmtDescriptor(0x7f, body)
	// an extension descriptor of another kind (tag extension other than 0x20) is not a TTML descriptor: the
	// statement defines no language / purpose for it (decoded as if it were one, or the neutral value)
	wellFormed := ext == 0x20
	if !wellFormed {
		c.Count("ttml.other_tag_extension")
	}
	if g := d.DecodeTTMLIso639LanguageCode(); wellFormed && (g != l || !d.IsTTMLSubtitlingDescriptor()) {
		c.Fail("decode:ttml-language", fmt.Sprintf("DecodeTTMLIso639LanguageCode = %q, encoded %q", g, l), wit{Case: "ttml", Body: mon.Hex(body), Detail: g})
	}
	if g := d.DecodeTTMLSubtitlePurpose(); wellFormed && g != purpose {
		c.Fail("decode:ttml-purpose", fmt.Sprintf("DecodeTTMLSubtitlePurpose = %#x, encoded %#x", g, purpose), wit{Case: "ttml", Body: mon.Hex(body), Detail: fmt.Sprint(g)})
	}
	if wellFormed && printed(r, d) {
		if g := d.DecodeTTMLIso639LanguageCode(); g != l || d.DecodeTTMLSubtitlePurpose() != purpose {
			c.Fail("decode:ttml-after-printing", fmt.Sprintf("after the descriptor was printed DecodeTTMLIso639LanguageCode = %q (encoded %q), purpose %#x (encoded %#x)", g, l, d.DecodeTTMLSubtitlePurpose(), purpose), wit{Case: "ttml", Body: mon.Hex(body), Detail: g})
		}
	}
	if g := d.DecodeIso639LanguageCode(); g != "" {
		c.Fail("neutral:DecodeIso639LanguageCode-after-own-decoder", fmt.Sprintf("DecodeIso639LanguageCode on a DVB extension descriptor = %q after the TTML decoders had been called on it", g), wit{Case: "ttml", Body: mon.Hex(body), Detail: g})
	}
	if g := d.IsTTMLDescTagExtension(); g != (ext == 0x20) {
		c.Fail("decode:ttml-tag-extension", fmt.Sprintf("IsTTMLDescTagExtension = %v for tag extension %#x", g, ext), wit{Case: "ttml", Body: mon.Hex(body)})
	}
	if g := psi.NewPmtElementaryStream(0x06, 0x101, []psi.PmtDescriptor{psi.NewPmtDescriptor(0x0a, []byte("eng\x00")), d}).IsTTMLSubtitling(); g != (ext == 0x20) {
		c.Fail("decode:stream-ttml", fmt.Sprintf("IsTTMLSubtitling = %v for tag extension %#x", g, ext), wit{Case: "ttml", Body: mon.Hex(body)})
	}
	{
		kept := d.DecodeTTMLIso639LanguageCode()
		for k := range body {
			body[k] ^= 0x33
		}
		if wellFormed && kept != l {
			c.Fail("decode:ttml-language-follows-buffer", fmt.Sprintf("a TTML language code decoded earlier changed from %q to %q when the caller overwrote the descriptor body", l, kept), wit{Case: "ttml", Detail: kept})
		}
	}
	c.Class(fmt.Sprintf("ttml/purpose=%02x/ext20=%v", purpose, ext == 0x20))
	// registration descriptor: format_identifier
	fid := []byte("DOVI")
	if r.Bool() {
		fid = r.PickBytes4()
	}
	body = append(append([]byte{}, fid...), r.Bytes(r.Intn(4))...)
	d = psi.NewPmtDescriptor(0x05, body)
	if g := d.IsDolbyVision(); g != (string(fid) == "DOVI") {
		c.Fail("decode:dovi-registration", fmt.Sprintf("IsDolbyVision = %v for format identifier %q", g, fid), wit{Case: "registration", Body: mon.Hex(body)})
	}
	c.Class(fmt.Sprintf("registration/dovi=%v", string(fid) == "DOVI"))
	// Dolby Vision descriptor: version major, minor, profile(7) level(6) rpu(1) el(1) bl(1), ...
	prof, lvl := r.Intn(128), r.Intn(32)
	w16 := uint16(prof)<<9 | uint16(lvl)<<3 | uint16(r.Intn(8))
	// a well-formed body has the compatibility byte and, without a base layer
	// (lowest flag 0), the two bytes that name the PID it depends on
	body = []byte{r.Byte(), r.Byte(), byte(w16 >> 8), byte(w16), r.Byte()}
	if w16&1 == 0 {
		body = append(body, r.Bytes(2)...)
	}
	body = append(body, r.Bytes(r.Intn(4))...)
	d = psi.NewPmtDescriptor(0xb0, body)
	want := fmt.Sprintf("dvhe.%02d.%02d", prof, lvl)
	if g := d.DecodeDolbyVisionCodec(r.PickString([]string{"hvc1", "hvc1", "", "hev1.2.4.L153.B0", "avc1.640028", "avc3", "dvhe", "dvav.09.05", "mp4a"})); g != want {
		c.Fail("decode:dolby-vision-codec", fmt.Sprintf("DecodeDolbyVisionCodec = %q, want %q", g, want), wit{Case: "dolby vision", Body: mon.Hex(body), Detail: g})
	}
	if c.Class(fmt.Sprintf("dv/profile=%d/level=%d", prof, lvl)) && c.WantSample() {
		c.Sample(func() interface{} { return wit{Case: "dolby vision", Tag: "0xb0", Body: mon.Hex(body), Detail: want} })
	}
}

// sectionOrder arranges the streams a PMT lists in the order their PIDs have in the section they were decoded
// from (pids; PIDs that are no longer listed are passed over): the statement speaks about what is reported per
// stream and per PID, the order of the list is C06's business. When the list cannot be matched with the PIDs it
// is returned as it is, and the comparison that follows reports it.
func sectionOrder(ess []psi.PmtElementaryStream, pids []int) []psi.PmtElementaryStream {
	by := map[int]psi.PmtElementaryStream{}
	for _, es := range ess {
		if es == nil {
			return ess
		}
		if _, dup := by[es.ElementaryPid()]; dup {
			return ess
		}
		by[es.ElementaryPid()] = es
	}
	var out []psi.PmtElementaryStream
	for _, pid := range pids {
		if es, ok := by[pid]; ok {
			out = append(out, es)
		}
	}
	if len(out) != len(ess) {
		return ess
	}
	return out
}

func bitlen(v uint32) int {
	n := 0
	for ; v > 0; v >>= 1 {
		n++
	}
	return n
}

func run(c *mon.Ctx) {
	c.Rule("all 256 stream_type codes through LookupPmtStreamType, NewPmtElementaryStream and generated PMTs; decoders on reference-built bodies (maximum bitrate < 2^21, ISO-639, TTML extension, registration, Dolby Vision with level < 32) and on all 256 tags x PRNG bodies for neutral values. distinct non-trivial = distinct stream types / (decoder, value class) / (foreign tag, body length class)")
	c.Assume("expectation tables are transcribed from the property statement; decoders are applied to well-formed bodies of their own tag and to arbitrary bodies of other tags")
	c.Exhaustive("all 256 stream_type codes", 256)
	c.StreamSeedless("stream-types", 256, func(code int, r *gen.Rand) {
		checkStreamType(c, "LookupPmtStreamType", byte(code), psi.LookupPmtStreamType(byte(code)))
		checkStreamType(c, "NewPmtElementaryStream", byte(code), psi.NewPmtElementaryStream(byte(code), 0x100+code, nil))
		// the same through a decoded PMT, queried by PID
		p := ref.PMT{Program: 1, Version: 3, CurrentNext: code%3 != 1, PCRPID: 0x100} // (a section that is not applicable yet is a section like any other)
		pid := 0x20 + r.Intn(8000)
		other := (pid + 1 + r.Intn(50)) & 0x1fff
		p.Streams = []ref.ES{{Type: 0x1b, PID: other}, {Type: byte(code), PID: pid, Descs: []ref.Desc{{Tag: 0x52, Body: []byte{7}}}}}
		pay := append(ref.PointerPrefix([]int{0, 0, 1, 17, 254, 255}[code%6]), p.Section()...)
		m, err := psi.NewPMT(pay)
		if err != nil || len(m.ElementaryStreams()) != 2 {
			c.Fail("streamtype:pmt-setup", fmt.Sprintf("a two-stream PMT was not decoded: %v", err), wit{Case: "pmt", Body: mon.Hex(pay)})
			return
		}
		checkStreamType(c, "PMT.ElementaryStreams", byte(code), sectionOrder(m.ElementaryStreams(), []int{other, pid})[1])
		if g := m.IsPidForStreamWherePresentationLagsEbp(pid); g != lags(byte(code)) {
			c.Fail("streamtype:pmt-lags-by-pid", fmt.Sprintf("IsPidForStreamWherePresentationLagsEbp(pid of a stream_type %#02x stream) = %v", code, g), wit{Case: "pmt", Body: mon.Hex(pay)})
		}
		if m.IsPidForStreamWherePresentationLagsEbp(other) || m.IsPidForStreamWherePresentationLagsEbp((pid+100)&0x1fff) && (pid+100)&0x1fff != other {
			c.Fail("streamtype:pmt-lags-other-pid", "IsPidForStreamWherePresentationLagsEbp is true for an AVC stream or a PID that is not in the PMT", wit{Case: "pmt", Body: mon.Hex(pay)})
		}
		c.Class(fmt.Sprintf("streamtype/%02x", code))
	})
	// every result is a value of its own: all 256 are collected first (in a PRNG order), then checked side by side;
	// the same for the streams of one PMT whose types come from anywhere in the code space
	c.StreamSeedless("stream-types-kept-side-by-side", 8, func(k int, r *gen.Rand) {
		perm := r.Perm(256)
		var got [256]psi.PmtStreamType
		for _, code := range perm {
			got[code] = psi.LookupPmtStreamType(byte(code))
		}
		for code := range got {
			checkStreamType(c, "LookupPmtStreamType (all 256 results collected before any is looked at)", byte(code), got[code])
		}
		p := ref.PMT{Program: 1, Version: 1, CurrentNext: k%4 != 3, PCRPID: 0x100}
		n := 2 + r.Intn(40)
		for j := 0; j < n; j++ {
			p.Streams = append(p.Streams, ref.ES{Type: byte(perm[j]), PID: 0x100 + j})
		}
		pay := append([]byte{0}, p.Section()...)
		m, err := psi.NewPMT(pay)
		if err != nil || len(m.ElementaryStreams()) != n {
			c.Fail("streamtype:pmt-setup", fmt.Sprintf("a %d-stream PMT was not decoded: %v", n, err), wit{Case: "pmt", Body: mon.Hex(pay)})
			return
		}
		// the same section decoded a second time, and streams removed from that second object: the first one still
		// answers for every PID of the section
		if m2, err := psi.NewPMT(append([]byte{}, pay...)); err == nil && k%2 == 1 {
			var drop []int
			for j := 0; j < n; j++ {
				if r.Chance(3) {
					drop = append(drop, 0x100+j)
				}
			}
			m2.RemoveElementaryStreams(drop)
			c.Count("streamtype.other_object_of_the_same_section_edited")
		}
		if len(m.ElementaryStreams()) != n {
			c.Fail("streamtype:pmt-streams-after-edit-of-another-object", fmt.Sprintf("a PMT lists %d of its %d streams after streams were removed from another PMT object decoded from the same bytes", len(m.ElementaryStreams()), n), wit{Case: "pmt", Body: mon.Hex(pay)})
			return
		}
		var inSection []int
		for j := 0; j < n; j++ {
			inSection = append(inSection, 0x100+j)
		}
		for j, es := range sectionOrder(m.ElementaryStreams(), inSection) {
			checkStreamType(c, fmt.Sprintf("PMT.ElementaryStreams (stream %d of %d)", j, n), byte(perm[j]), es)
			if g := m.IsPidForStreamWherePresentationLagsEbp(0x100 + j); g != lags(byte(perm[j])) {
				c.Fail("streamtype:pmt-lags-by-pid", fmt.Sprintf("IsPidForStreamWherePresentationLagsEbp(pid of a stream_type %#02x stream, stream %d of %d) = %v", perm[j], j, n, g), wit{Case: "pmt", Body: mon.Hex(pay)})
				break
			}
		}
		c.Count("streamtype.results_kept_side_by_side")
		c.Class("streamtype/side-by-side")
	})
	// PMTs read from packet streams (psi.ReadPMT): stream types, the query by PID and the descriptor decoders answer
	// for the PMT they were obtained from, also after further PMTs were read from other streams
	c.Floor("readpmt.earlier_pmt_rechecked", 300)
	c.Stream("pmt-read-from-streams", c.N(800, 200000), func(i int, r *gen.Rand) {
		type exp struct {
			m     psi.PMT
			pids  []int
			types []byte
			langs []string
			rates []uint32
		}
		var e exp
		n := 1 + r.Intn(6)
		p := ref.PMT{Program: uint16(1 + r.Intn(1000)), Version: byte(r.Intn(32)), CurrentNext: !r.Chance(4), PCRPID: 0x100}
		for j := 0; j < n; j++ {
			l, rate := lang(r), uint32(r.Intn(1<<21))
			t := r.PickByte([]byte{0x0f, 0x81, 0x87, 0x1b, 0x24, 0x02, 0x86, 0x06, 0x03, r.Byte()})
			p.Streams = append(p.Streams, ref.ES{Type: t, PID: 0x100 + j, Descs: []ref.Desc{
				{Tag: 0x0a, Body: append([]byte(l), byte(r.Intn(4)))},
				{Tag: 0x0e, Body: []byte{0xc0 | byte(rate>>16), byte(rate >> 8), byte(rate)}}}})
			e.pids, e.types, e.langs, e.rates = append(e.pids, 0x100+j), append(e.types, t), append(e.langs, l), append(e.rates, rate)
		}
		pay := append(ref.PointerPrefix(r.PickInt([]int{0, 0, 1, 9})), p.Section()...)
		const pmtPID = 0x1f00
		pk, _ := ref.Packetise(pmtPID, r.Intn(16), pay, ref.RandChunks(r, 1+len(pay)/100), r.Bool())
		var st bytes.Buffer
		for k := range pk {
			st.Write(pk[k][:])
		}
		m, err := psi.ReadPMT(&st, pmtPID)
		c.Eval(1)
		if err != nil || m == nil {
			c.Fail("readpmt:error", fmt.Sprintf("ReadPMT on a stream that carries a %d-stream PMT in %d packets failed: %v", n, len(pk), err), wit{Case: "readpmt", Body: mon.Hex(pay)})
			return
		}
		e.m = m
		check := func(x *exp, when string) bool {
			ess := sectionOrder(x.m.ElementaryStreams(), x.pids)
			if len(ess) != len(x.pids) {
				c.Fail("readpmt:streams"+when, fmt.Sprintf("a PMT obtained through ReadPMT lists %d streams, its section has %d", len(ess), len(x.pids)), wit{Case: "readpmt" + when})
				return false
			}
			for j, es := range ess {
				ds := es.Descriptors()
				if es.ElementaryPid() != x.pids[j] || es.StreamType() != x.types[j] || x.m.IsPidForStreamWherePresentationLagsEbp(x.pids[j]) != lags(x.types[j]) || len(ds) != 2 {
					c.Fail("readpmt:stream"+when, fmt.Sprintf("stream %d: PID %#x type %#02x lags=%v with %d descriptors; the section says PID %#x type %#02x with 2 descriptors", j, es.ElementaryPid(), es.StreamType(), x.m.IsPidForStreamWherePresentationLagsEbp(x.pids[j]), len(ds), x.pids[j], x.types[j]), wit{Case: "readpmt" + when})
					return false
				}
				if g := ds[0].DecodeIso639LanguageCode(); g != x.langs[j] {
					c.Fail("readpmt:language"+when, fmt.Sprintf("stream %d: DecodeIso639LanguageCode = %q, the section says %q", j, g, x.langs[j]), wit{Case: "readpmt" + when, Detail: g})
					return false
				}
				if g := ds[1].DecodeMaximumBitRate(); g != x.rates[j] || es.MaxBitRate() != uint64(x.rates[j])*50*8 {
					c.Fail("readpmt:maximum-bitrate"+when, fmt.Sprintf("stream %d: DecodeMaximumBitRate = %d, MaxBitRate() = %d; the section says %d", j, g, es.MaxBitRate(), x.rates[j]), wit{Case: "readpmt" + when, Detail: fmt.Sprint(g)})
					return false
				}
			}
			return true
		}
		if !check(&e, "") {
			return
		}
		if prevRead != nil {
			c.Count("readpmt.earlier_pmt_rechecked")
			check(prevRead.(*exp), "-of-an-earlier-read-after-another-stream-was-read")
		}
		prevRead = &e
		c.Class(fmt.Sprintf("readpmt/streams=%d/packets=%d", n, len(pk)))
	})
	// one stream-type value, one language descriptor and one maximum-bitrate descriptor read by several goroutines
	c.Stream("concurrent-readers-of-one-descriptor", c.N(8, 200), func(i int, r *gen.Rand) {
		c.ConcurrentReaders("stream type / descriptors", c.N(300, 300), r, func(q *gen.Rand) func() string {
			code := q.Byte()
			st := psi.LookupPmtStreamType(code)
			l, at, rate := lang(q), q.Byte(), uint32(q.Intn(1<<21))
			dl := psi.NewPmtDescriptor(0x0a, append([]byte(l), at))
			dr := psi.NewPmtDescriptor(0x0e, []byte{0xc0 | byte(rate>>16), byte(rate >> 8), byte(rate)})
			es := psi.NewPmtElementaryStream(code, 0x100, []psi.PmtDescriptor{dl, dr})
			return func() string {
				if st.StreamType() != code || st.StreamTypeDescription() == "" || st.IsStreamWherePresentationLagsEbp() != lags(code) || es.StreamType() != code || es.IsStreamWherePresentationLagsEbp() != lags(code) {
					return fmt.Sprintf("stream type %#02x read as %#02x (lags %v)", code, st.StreamType(), st.IsStreamWherePresentationLagsEbp())
				}
				if dl.DecodeIso639LanguageCode() != l || dl.DecodeIso639AudioType() != at || dl.DecodeMaximumBitRate() != 0 {
					return fmt.Sprintf("language descriptor read as %q / %#x, encoded %q / %#x", dl.DecodeIso639LanguageCode(), dl.DecodeIso639AudioType(), l, at)
				}
				if dr.DecodeMaximumBitRate() != rate || es.MaxBitRate() != uint64(rate)*50*8 || dr.DecodeIso639LanguageCode() != "" {
					return fmt.Sprintf("maximum bitrate read as %d (stream: %d), encoded %d", dr.DecodeMaximumBitRate(), es.MaxBitRate(), rate)
				}
				return ""
			}
		})
		c.Class("concurrent-readers-of-one-descriptor")
	})
	per := c.N(30, 50000)
	c.Exhaustive("all 256 descriptor tags for the neutral-value checks", 256)
	c.Stream("foreign-tags", 256, func(tag int, r *gen.Rand) {
		for k := 0; k < per; k++ {
			n := r.Intn(12)
			if k < 8 {
				n = k
			}
			body := r.Bytes(n)
			if r.Chance(5) && n >= 4 {
				copy(body, "DOVI")
			}
			if r.Chance(5) && n >= 1 {
				body[0] = 0x20
			}
			// decoders of the tag's own kind need well-formed bodies: give them a generous one
			if in(byte(tag), 0x0e, 0x0a, 0x7f, 0x05, 0xb0, 0x52) && n < 5 {
				body = r.Bytes(5 + r.Intn(4))
			}
			neutral(c, byte(tag), body)
			c.Class(fmt.Sprintf("foreign/tag=%02x/len=%d", tag, min(len(body), 5)))
		}
	})
	// the PMT-level query by PID, across removals (query, remove, query again)
	c.Floor("pmt_query.descriptor_loop_of_256_bytes_or_more", 300)
	c.Stream("pmt-query-after-remove", c.N(4000, 2000000), func(i int, r *gen.Rand) {
		p := ref.PMT{Program: 1, Version: byte(r.Intn(32)), CurrentNext: !r.Chance(4), PCRPID: 0x100}
		n := 2 + r.Intn(7)
		codes := []byte{0x1b, 0x0f, 0x86, 0x03, 0x04, 0x11, 0x81, 0x87, 0x88, 0x02, 0x24, 0x15, 0x06}
		for k := 0; k < n; k++ {
			es := ref.ES{Type: codes[r.Intn(len(codes))], PID: 0x100 + k*7 + r.Intn(7)}
			if k == 0 && r.Chance(4) {
				es.PID = r.PickInt([]int{0, 1, 0x1fff, 0x1ffe}) // extreme PIDs
			}
			// descriptors whose decoded values are known: maximum bitrate, language, registration
			v := uint32(r.Intn(1 << 21))
			es.Descs = append(es.Descs, ref.Desc{Tag: 0x0e, Body: []byte{0xc0 | byte(v>>16), byte(v >> 8), byte(v)}})
			if r.Bool() {
				es.Descs = append(es.Descs, ref.Desc{Tag: 0x0a, Body: []byte{byte('a' + r.Intn(26)), byte('a' + r.Intn(26)), byte('a' + r.Intn(26)), byte(r.Intn(4))}})
			}
			if r.Chance(3) {
				// further descriptors of other kinds: the lag query is decided by the stream type alone
				es.Descs = append(es.Descs, ref.Desc{Tag: r.PickByte([]byte{0x6a, 0x7a, 0x05, 0x52, 0x56, 0x59, 0x7f, 0xcc, 0x81}), Body: r.Bytes(r.Intn(7))})
			}
			p.Streams = append(p.Streams, es)
		}
		if r.Chance(5) {
			// a descriptor loop of 256 bytes and more (the 12-bit length fields allow 1023), of one stream or of the program
			fill := []ref.Desc{{Tag: 0xfe, Body: r.Bytes(r.PickInt([]int{240, 250, 251, 252, 253, 255}))}}
			for k := r.Intn(3); k > 0; k-- {
				fill = append(fill, ref.Desc{Tag: r.PickByte([]byte{0xfd, 0x83, 0xcc}), Body: r.Bytes(r.Intn(120))})
			}
			if r.Bool() {
				k := r.Intn(len(p.Streams))
				p.Streams[k].Descs = append(p.Streams[k].Descs, fill...)
			} else {
				p.ProgDescs = fill
			}
			c.Count("pmt_query.descriptor_loop_of_256_bytes_or_more")
		}
		// put the streams in a random order (the ES loop need not be sorted by PID)
		for k := len(p.Streams) - 1; k > 0; k-- {
			j := r.Intn(k + 1)
			p.Streams[k], p.Streams[j] = p.Streams[j], p.Streams[k]
		}
		pay := append([]byte{0}, p.Section()...)
		if i%4 == 1 {
			// right after a PMT that is rejected in the middle of a descriptor loop (a descriptor_length running
			// past the section, behind descriptors that were fine): nothing of it shows in the next PMT
			bad := ref.PMT{Program: 2, CurrentNext: true, PCRPID: 0x1fff}
			for k := 0; k < 1+r.Intn(3); k++ {
				v := uint32(r.Intn(1 << 21))
				bad.Streams = append(bad.Streams, ref.ES{Type: 0x1b, PID: 0x400 + k, Descs: []ref.Desc{{Tag: 0x0e, Body: []byte{0xc0 | byte(v>>16), byte(v >> 8), byte(v)}}, {Tag: 0x0a, Body: []byte("xyz\x01")}, {Tag: 0x05, Body: r.Bytes(2 + r.Intn(6))}}})
			}
			bs := bad.Section()
			// the last descriptor of the last stream announces 0xF0 bytes
			if at := len(bs) - 4 - len(bad.Streams[len(bad.Streams)-1].Descs[2].Body) - 1; at > 0 {
				bs[at] = 0xf0
			}
			if _, berr := psi.NewPMT(append([]byte{0}, bs...)); berr != nil {
				c.Count("pmt.decoded_after_a_rejected_pmt")
			}
		}
		m, err := psi.NewPMT(pay)
		c.Eval(1)
		if err != nil || len(m.ElementaryStreams()) != n {
			c.Fail("streamtype:pmt-setup", fmt.Sprintf("a %d-stream PMT was not decoded: %v", n, err), wit{Case: "pmt", Body: mon.Hex(pay)})
			return
		}
		gone := map[int]bool{}
		// the caller appends to a descriptor list it was given: the other streams keep their descriptors
		appended := false
		descsOK := func(when string) bool {
			if when != "freshly decoded" {
				for _, es := range m.ElementaryStreams() {
					_ = append(es.Descriptors(), psi.NewPmtDescriptor(0xfe, []byte{1, 2, 3}), psi.NewPmtDescriptor(0xfd, nil))
				}
				appended = true
			}
			k := 0
			var inSection []int
			for _, w := range p.Streams {
				inSection = append(inSection, w.PID)
			}
			for _, es := range sectionOrder(m.ElementaryStreams(), inSection) {
				for gone[p.Streams[k].PID] {
					k++
				}
				w := p.Streams[k]
				k++
				ds := es.Descriptors()
				want := uint64(uint32(w.Descs[0].Body[0]&0x1f)<<16|uint32(w.Descs[0].Body[1])<<8|uint32(w.Descs[0].Body[2])) * 400
				if es.ElementaryPid() != w.PID || len(ds) != len(w.Descs) || ds[0].Tag() != 0x0e || es.MaxBitRate() != want ||
					(len(w.Descs) > 1 && w.Descs[1].Tag == 0x0a && ds[1].DecodeIso639LanguageCode() != string(w.Descs[1].Body[:3])) {
					if appended {
						// the statement does not say that the slices handed out are independent of each other: what a
						// caller's append into spare capacity does to a neighbouring list is counted, not reported
						// (the first version of this check reported it; DESIGN section 7)
						c.Count("descriptor_lists.share_spare_capacity")
						return false
					}
					c.Fail("decode:descriptors", fmt.Sprintf("%s: stream %#x reports %d descriptors / bit rate %d (encoded: %d descriptors, bit rate %d)", when, w.PID, len(ds), es.MaxBitRate(), len(w.Descs), want),
						wit{Case: "pmt descriptors " + when, Body: mon.Hex(pay)})
					return false
				}
			}
			return true
		}
		if !descsOK("freshly decoded") {
			return
		}
		check := func(when string) bool {
			order := r.Perm(len(p.Streams)) // the first query may be for any stream
			if r.Bool() {
				// other questions are put to the PMT first (does it list this PID? which PIDs are there?): reads
				m.PIDExists(p.Streams[order[0]].PID)
				m.PIDExists(0x1ffd)
				m.Pids()
				c.Count("pmt_query.other_queries_first")
			}
			for _, oi := range order {
				s := p.Streams[oi]
				want := lags(s.Type) && !gone[s.PID]
				if g := m.IsPidForStreamWherePresentationLagsEbp(s.PID); g != want {
					c.Fail("streamtype:pmt-lags-by-pid-"+when, fmt.Sprintf("%s: IsPidForStreamWherePresentationLagsEbp(%#x) = %v; the stream has type %#02x (lags=%v), removed=%v", when, s.PID, g, s.Type, lags(s.Type), gone[s.PID]),
						wit{Case: "pmt query " + when, Body: mon.Hex(pay), Detail: fmt.Sprintf("pid %#x", s.PID)})
					return false
				}
			}
			return true
		}
		if !check("before-removal") {
			return
		}
		for round := 0; round < 2; round++ {
			var rm []int
			for _, s := range p.Streams {
				if !gone[s.PID] && r.Chance(3) {
					rm = append(rm, s.PID)
					gone[s.PID] = true
				}
			}
			if own := m.Pids(); round == 0 && len(own) >= 1 && r.Chance(4) {
				// the list of PIDs to remove is (a stretch of) the list the PMT itself handed out
				for _, pid := range rm {
					delete(gone, pid)
				}
				a := r.Intn(len(own))
				rm = own[a : a+1+r.Intn(len(own)-a)]
				for _, pid := range rm {
					gone[pid] = true
				}
				c.Count("pmt_query.removal_list_is_the_pmts_own_pid_list")
			}
			m.RemoveElementaryStreams(rm)
			if !check("after-removal") || !descsOK("after removal") {
				return
			}
		}
		c.Class(fmt.Sprintf("pmt-query/n=%d/removed=%d", n, len(gone)))
	})
	c.Floor("concurrent.calls", 20000)
	c.Stream("concurrent-decoders", c.N(8, 200), func(i int, r *gen.Rand) {
		c.Concurrent("PMT descriptor decoders / LookupPmtStreamType", 8, 4000, r, func(q *gen.Rand) string {
			v := uint32(q.Intn(1 << 21))
			d := psi.NewPmtDescriptor(0x0e, []byte{0xc0 | byte(v>>16), byte(v >> 8), byte(v)})
			l := lang(q)
			d2 := psi.NewPmtDescriptor(0x0a, append([]byte(l), byte(q.Intn(4))))
			d3 := psi.NewPmtDescriptor(0x05, []byte{'D', 'O', 'V', 'I'})
			code := byte(q.Intn(256))
			st := psi.LookupPmtStreamType(code)
			if g := d.DecodeMaximumBitRate(); g != v {
				return fmt.Sprintf("DecodeMaximumBitRate = %d, encoded %d", g, v)
			}
			if g := d2.DecodeIso639LanguageCode(); g != l {
				return fmt.Sprintf("DecodeIso639LanguageCode = %q, encoded %q", g, l)
			}
			if !d3.IsDolbyVision() {
				return "a registration descriptor with format identifier DOVI is not recognised"
			}
			if st.StreamType() != code || st.StreamTypeDescription() == "" {
				return fmt.Sprintf("LookupPmtStreamType(%#x) returned code %#x / description %q", code, st.StreamType(), st.StreamTypeDescription())
			}
			prof, lvl := q.Intn(128), q.Intn(32)
			w16 := uint16(prof)<<9 | uint16(lvl)<<3 | uint16(q.Intn(8))
			dv := psi.NewPmtDescriptor(0xb0, []byte{1, 0, byte(w16 >> 8), byte(w16), 0, 0xe1, 0x00})
			if g, want := dv.DecodeDolbyVisionCodec("hvc1"), fmt.Sprintf("dvhe.%02d.%02d", prof, lvl); g != want {
				return fmt.Sprintf("DecodeDolbyVisionCodec = %q, encoded profile %d level %d (%q)", g, prof, lvl, want)
			}
			return ""
		})
		c.Class("concurrent-decoders")
	})
	c.Stream("own-tags", c.N(20000, 100000000), func(i int, r *gen.Rand) { own(c, r) })
}

func min(a, b int) int {
	if a < b {
		return a
	}
	return b
}
