# sourced by ./check and by interactive work
export GOFLAGS=-mod=mod GOPROXY=off GOSUMDB=off GOTOOLCHAIN=local
export CGO_ENABLED=0
